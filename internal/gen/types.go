// Package gen builds the type universe and the value generators shared by the io checks.
package gen

import (
	"container/list"
	"math/big"
	"math/rand"
	"reflect"
	"time"

	"github.com/google/uuid"
	"verif/internal/gentypes"
)

var (
	TBool       = reflect.TypeOf(false)
	TInt        = reflect.TypeOf(int(0))
	TInt8       = reflect.TypeOf(int8(0))
	TInt16      = reflect.TypeOf(int16(0))
	TInt32      = reflect.TypeOf(int32(0))
	TInt64      = reflect.TypeOf(int64(0))
	TUint       = reflect.TypeOf(uint(0))
	TUint8      = reflect.TypeOf(uint8(0))
	TUint16     = reflect.TypeOf(uint16(0))
	TUint32     = reflect.TypeOf(uint32(0))
	TUint64     = reflect.TypeOf(uint64(0))
	TUintptr    = reflect.TypeOf(uintptr(0))
	TFloat32    = reflect.TypeOf(float32(0))
	TFloat64    = reflect.TypeOf(float64(0))
	TComplex64  = reflect.TypeOf(complex64(0))
	TComplex128 = reflect.TypeOf(complex128(0))
	TString     = reflect.TypeOf("")
	TBytes      = reflect.TypeOf([]byte(nil))
	TBigInt     = reflect.TypeOf(big.Int{})
	TBigFloat   = reflect.TypeOf(big.Float{})
	TBigRat     = reflect.TypeOf(big.Rat{})
	TBigIntP    = reflect.TypeOf((*big.Int)(nil))
	TBigFloatP  = reflect.TypeOf((*big.Float)(nil))
	TBigRatP    = reflect.TypeOf((*big.Rat)(nil))
	TTime       = reflect.TypeOf(time.Time{})
	TUUID       = reflect.TypeOf(uuid.UUID{})
	TListP      = reflect.TypeOf((*list.List)(nil))
	TList       = reflect.TypeOf(list.List{})
	TIface      = reflect.TypeOf((*interface{})(nil)).Elem()
)

// MapScalars are the 15 key/value kinds of the specialised map encoders.
var MapScalars = []reflect.Type{TString, TInt, TInt8, TInt16, TInt32, TInt64, TUint, TUint8, TUint16, TUint32, TUint64, TFloat32, TFloat64, TBool, TIface}

// BasicLeaves are the built-in leaf types.
var BasicLeaves = []reflect.Type{
	TBool, TInt, TInt8, TInt16, TInt32, TInt64, TUint, TUint8, TUint16, TUint32, TUint64, TUintptr,
	TFloat32, TFloat64, TComplex64, TComplex128, TString, TBytes,
	TBigIntP, TBigFloatP, TBigRatP, TTime, TUUID, TListP, TIface,
}

// Leaves returns all leaf types of the universe: built-in, big values, named scalars, named
// containers and the named struct types.
func Leaves() []reflect.Type {
	out := append([]reflect.Type{}, BasicLeaves...)
	out = append(out, TBigInt, TBigFloat, TBigRat)
	out = append(out, gentypes.NamedScalars...)
	out = append(out, gentypes.NamedContainers...)
	out = append(out, gentypes.StructTypes...)
	return out
}

// Hashable reports whether values of t can be used as map keys without panicking and
// round-trip as keys (no pointers: a pointer key has no stable identity across a round trip).
func Hashable(t reflect.Type) bool {
	switch t.Kind() {
	case reflect.Bool, reflect.Int, reflect.Int8, reflect.Int16, reflect.Int32, reflect.Int64,
		reflect.Uint, reflect.Uint8, reflect.Uint16, reflect.Uint32, reflect.Uint64, reflect.Uintptr,
		reflect.Float32, reflect.Float64, reflect.String:
		return true
	case reflect.Interface:
		return t == TIface
	case reflect.Array:
		return t.Len() <= 3 && Hashable(t.Elem()) && t.Elem().Kind() != reflect.Interface
	}
	return t == TUUID
}

// Constructor builds a type from an element type; ok=false when not applicable.
type Constructor struct {
	Name  string
	Apply func(t reflect.Type) (reflect.Type, bool)
}

func anonStruct(fields ...reflect.StructField) reflect.Type { return reflect.StructOf(fields) }

// Constructors is the list of type constructors enumerated exhaustively at depth 1 and 2.
var Constructors = []Constructor{
	{"slice", func(t reflect.Type) (reflect.Type, bool) { return reflect.SliceOf(t), true }},
	{"slice2", func(t reflect.Type) (reflect.Type, bool) { return reflect.SliceOf(reflect.SliceOf(t)), true }},
	{"array0", func(t reflect.Type) (reflect.Type, bool) { return reflect.ArrayOf(0, t), true }},
	{"array1", func(t reflect.Type) (reflect.Type, bool) { return reflect.ArrayOf(1, t), true }},
	{"array3", func(t reflect.Type) (reflect.Type, bool) { return reflect.ArrayOf(3, t), true }},
	{"mapSV", func(t reflect.Type) (reflect.Type, bool) { return reflect.MapOf(TString, t), true }},
	{"mapIV", func(t reflect.Type) (reflect.Type, bool) { return reflect.MapOf(TInt, t), true }},
	{"mapKS", func(t reflect.Type) (reflect.Type, bool) {
		if !Hashable(t) {
			return nil, false
		}
		return reflect.MapOf(t, TString), true
	}},
	{"mapKA", func(t reflect.Type) (reflect.Type, bool) {
		if !Hashable(t) {
			return nil, false
		}
		return reflect.MapOf(t, TIface), true
	}},
	{"ptr", func(t reflect.Type) (reflect.Type, bool) { return reflect.PtrTo(t), true }},
	{"ptr2", func(t reflect.Type) (reflect.Type, bool) { return reflect.PtrTo(reflect.PtrTo(t)), true }},
	{"anon1", func(t reflect.Type) (reflect.Type, bool) {
		return anonStruct(reflect.StructField{Name: "F", Type: t}), true
	}},
	{"anon2", func(t reflect.Type) (reflect.Type, bool) {
		return anonStruct(reflect.StructField{Name: "A", Type: TInt}, reflect.StructField{Name: "F", Type: t, Tag: `hprose:"eff"`}), true
	}},
	{"anonP", func(t reflect.Type) (reflect.Type, bool) {
		return anonStruct(reflect.StructField{Name: "P", Type: reflect.PtrTo(t)}, reflect.StructField{Name: "S", Type: TString}), true
	}},
}

// Labeled is a type with the path of constructors that built it.
type Labeled struct {
	T     reflect.Type
	Label string
}

// Depth1 applies every constructor to every leaf.
func Depth1() []Labeled {
	var out []Labeled
	for _, l := range Leaves() {
		for _, c := range Constructors {
			if t, ok := c.Apply(l); ok {
				out = append(out, Labeled{t, c.Name + "(" + l.String() + ")"})
			}
		}
	}
	return out
}

// Depth2 applies every pair of constructors to every leaf.
func Depth2() []Labeled {
	var out []Labeled
	for _, l := range Leaves() {
		for _, c1 := range Constructors {
			t1, ok := c1.Apply(l)
			if !ok {
				continue
			}
			for _, c2 := range Constructors {
				if t2, ok := c2.Apply(t1); ok {
					out = append(out, Labeled{t2, c2.Name + "(" + c1.Name + "(" + l.String() + "))"})
				}
			}
		}
	}
	return out
}

// MapCells returns all 225 specialised map[K]V pairs.
func MapCells() []Labeled {
	var out []Labeled
	for _, k := range MapScalars {
		for _, v := range MapScalars {
			out = append(out, Labeled{reflect.MapOf(k, v), "map[" + k.String() + "]" + v.String()})
		}
	}
	return out
}

// RandomType draws a type of at most the given depth.
func RandomType(rng *rand.Rand, depth int) Labeled {
	leaves := Leaves()
	t := leaves[rng.Intn(len(leaves))]
	label := t.String()
	d := rng.Intn(depth + 1)
	for i := 0; i < d; i++ {
		c := Constructors[rng.Intn(len(Constructors))]
		if nt, ok := c.Apply(t); ok {
			t = nt
			label = c.Name + "(" + label + ")"
		}
	}
	return Labeled{t, label}
}
