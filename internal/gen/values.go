package gen

import (
	"container/list"
	"fmt"
	"math"
	"math/big"
	"math/rand"
	"reflect"
	"strings"
	"time"

	"github.com/google/uuid"
)

var intBounds = []int64{0, 1, -1, 9, 10, -9, -10, 99, 100, 127, 128, -128, -129, 255, 256, 32767, 32768, -32768, -32769,
	65535, 65536, 1<<31 - 1, 1 << 31, -(1 << 31), -(1 << 31) - 1, 1<<32 - 1, 1 << 32, 1 << 53, 1<<53 + 1, math.MaxInt64, math.MinInt64, math.MinInt64 + 1,
	999999999, 1000000000, 1234567890123456789}

var uintBounds = []uint64{0, 1, 9, 10, 127, 128, 255, 256, 65535, 65536, 1<<31 - 1, 1 << 31, 1<<32 - 1, 1 << 32, 1<<63 - 1, 1 << 63, math.MaxUint64, 9999999999999999999, 10000000000000000000}

var floatBounds = []float64{0, math.Copysign(0, -1), 1, -1, 0.5, 0.1, 3.14, -2.5e-7, 1e21, 1e-21, 123456789, 1 << 53, 1 << 63, -(1 << 63),
	math.MaxFloat32, math.SmallestNonzeroFloat32, -math.MaxFloat32, float64(math.Float32frombits(0x00800000)), float64(math.Float32frombits(0x007fffff)),
	math.MaxFloat64, -math.MaxFloat64, math.SmallestNonzeroFloat64, 2.2250738585072014e-308, 2.225073858507201e-308,
	math.Inf(1), math.Inf(-1), math.NaN(), 1e15, 1e16, 1.7976931348623157e308, 4.9e-324, 16777216, 16777217, 0.30000000000000004}

// StringBounds are the boundary strings.
var StringBounds = []string{"", "a", "0", "\"", "é", "中", "😀", "ab", "中文", "a😀b", "😀😀", "s2\"ab\"", "12345", "-7", "3.5", "true", "\x00", "a\x00b",
	"\xff", "a\xc0", "\xed\xa0\x80", "\xe4\xb8", "\xf0\x9f\x98",
	// a continuation byte where a character should start, 5- and 6-byte lead bytes, overlong forms
	"\x80", "\xbf", "na\xa0me", "\xa9 2021", "ok\x80", "\xf8\x88\x80\x80\x80", "\xfc\x84\x80\x80\x80\x80", "\xc0\xaf", "\xe0\x80\xaf", "\xf4\x90\x80\x80", "héllo wörld", strings.Repeat("x", 255), strings.Repeat("中", 86), strings.Repeat("😀", 70), "r0;", "n", "e", "u", "\n\t\r",
	"2006-01-02", "1e400", "NaN", "0x10", " 1", "1/3", "(1+2i)", "550e8400-e29b-41d4-a716-446655440000"}

var bytesBounds = [][]byte{nil, {}, {0}, {'a'}, {0xff, 0xfe}, []byte("hello"), []byte("\"quote\""), []byte(strings.Repeat("\xaa", 300)), []byte("中文")}

func locs() []*time.Location {
	out := []*time.Location{time.UTC, time.Local}
	return out
}

// TimeBounds are boundary instants within the representable range (years 1..9999), in UTC and
// Local. Times in other zones are generated separately (see TimeZoned): the property grants
// loss of the zone but not of the instant.
func TimeBounds() []time.Time {
	var out []time.Time
	for _, l := range locs() {
		out = append(out,
			time.Date(1970, 1, 1, 0, 0, 0, 0, l),
			time.Date(1970, 1, 1, 12, 30, 45, 0, l),
			time.Date(2022, 2, 27, 0, 0, 0, 0, l),
			time.Date(2022, 2, 27, 23, 59, 59, 999000000, l),
			time.Date(2022, 2, 27, 23, 59, 59, 999999000, l),
			time.Date(2022, 2, 27, 23, 59, 59, 999999999, l),
			time.Date(2022, 12, 31, 1, 2, 3, 100000000, l),
			time.Date(2022, 12, 31, 1, 2, 3, 120000, l),
			time.Date(2022, 12, 31, 1, 2, 3, 7, l),
			time.Date(1, 1, 1, 0, 0, 0, 0, l),
			time.Date(1, 1, 2, 0, 0, 1, 0, l),
			time.Date(9999, 12, 31, 23, 59, 59, 0, l),
			time.Date(1600, 2, 29, 4, 5, 6, 0, l),
			time.Date(999, 3, 4, 0, 0, 0, 5000, l),
			time.Date(2024, 2, 29, 0, 0, 0, 0, l),
		)
	}
	out = append(out, time.Time{})
	return out
}

// TimeZoned are instants carried in fixed and named non-local zones.
func TimeZoned() []time.Time {
	var out []time.Time
	z1 := time.FixedZone("X", 5*3600+1800)
	z2 := time.FixedZone("Y", -8*3600)
	zs := []*time.Location{z1, z2}
	if l, err := time.LoadLocation("America/New_York"); err == nil {
		zs = append(zs, l)
	}
	for _, l := range zs {
		out = append(out, time.Date(2022, 2, 27, 10, 11, 12, 0, l), time.Date(2022, 7, 1, 0, 0, 0, 0, l), time.Date(1999, 12, 31, 23, 59, 59, 123456789, l))
	}
	return out
}

// TimeExtreme are instants outside years 0..9999.
func TimeExtreme() []time.Time {
	return []time.Time{
		time.Date(10000, 1, 1, 0, 0, 0, 0, time.UTC), time.Date(-1, 1, 1, 0, 0, 0, 0, time.UTC),
		time.Date(0, 1, 1, 0, 0, 0, 0, time.UTC), time.Date(123456, 1, 1, 0, 0, 0, 0, time.UTC),
	}
}

var uuidBounds = []uuid.UUID{{}, uuid.MustParse("550e8400-e29b-41d4-a716-446655440000"), uuid.MustParse("ffffffff-ffff-ffff-ffff-ffffffffffff"), uuid.MustParse("00000000-0000-0000-0000-000000000001")}

func bigInts() []*big.Int {
	mk := func(s string) *big.Int { b, _ := new(big.Int).SetString(s, 10); return b }
	return []*big.Int{big.NewInt(0), big.NewInt(1), big.NewInt(-1), big.NewInt(9), big.NewInt(10), big.NewInt(math.MaxInt64), big.NewInt(math.MinInt64),
		mk("18446744073709551615"), mk("18446744073709551616"), mk("-123456789012345678901234567890"), mk("100000000000000000000000000000000000000000000000000")}
}

// bigFloats are values whose shortest decimal representation is exact (k/2^m, integers).
func bigFloats() []*big.Float {
	return []*big.Float{big.NewFloat(0), big.NewFloat(1), big.NewFloat(-1), big.NewFloat(0.5), big.NewFloat(-0.375), big.NewFloat(1 << 52), big.NewFloat(123456789), big.NewFloat(1024.125), big.NewFloat(-65536.5)}
}

func bigRats() []*big.Rat {
	return []*big.Rat{big.NewRat(0, 1), big.NewRat(1, 1), big.NewRat(-7, 1), big.NewRat(1, 3), big.NewRat(-22, 7), big.NewRat(math.MaxInt64, 3),
		new(big.Rat).SetFrac(new(big.Int).Lsh(big.NewInt(1), 100), big.NewInt(3)), big.NewRat(123456789, 1000)}
}

// ifaceDyn lists the dynamic values placed in interface{} positions.
func ifaceDyn(rng *rand.Rand) []interface{} {
	one := 1
	s := "ptr-str"
	return []interface{}{
		nil, true, false, 0, 7, -3, 2147483647, 2147483648, int64(-9007199254740993), int8(-5), uint16(65535), uint64(1 << 40), uint64(math.MaxUint64),
		1.5, -0.25, float64(1 << 53), math.Inf(1), math.NaN(), float32(0.1), float32(16777216),
		"", "x", "中", "😀", "str", "中文 text", "\xff\xfe", []byte("by"), []byte{}, []byte(nil),
		time.Date(2022, 2, 27, 1, 2, 3, 4000, time.UTC), time.Date(2022, 2, 27, 0, 0, 0, 0, time.Local), time.Date(1970, 1, 1, 5, 6, 7, 0, time.UTC),
		uuidBounds[1], big.NewInt(1 << 62), bigInts()[8], big.NewFloat(2.5), big.NewRat(1, 3), big.NewRat(4, 1),
		[]interface{}{}, []interface{}{1, "two", 3.0, nil}, []int{1, 2, 3}, []string{"a", "bb", "bb"}, [2]int{4, 5}, [][]int{{1}, nil, {}},
		map[string]interface{}{}, map[string]interface{}{"k": 1, "kk": "v"}, map[interface{}]interface{}{1: "a", "b": 2.5}, map[int]string{1: "x"}, map[string]int{"aa": 1},
		&one, &s, complex(1, 0), complex(1.5, -2), complex64(complex(0, 1)),
		struct{ A int }{3}, struct {
			A int
			B string
		}{1, "b"}, &struct{ P *int }{&one},
	}
}

// Gen generates values.
type Gen struct {
	Rng *rand.Rand
	// Extra dynamic values for interface{} positions (named struct values are added by the
	// caller, to avoid an import cycle with gentypes).
	IfaceExtra []interface{}
	// NoZoned excludes times in non-UTC/non-local zones and extreme years.
	AllTimes bool
	// NoNaNKeys is always honoured: map keys never contain NaN.
}

// Bounds returns the boundary values of a leaf-ish type (scalars, strings, bytes, library
// types); nil if t is not such a type.
func (g *Gen) Bounds(t reflect.Type) []reflect.Value {
	var out []reflect.Value
	add := func(v interface{}) { out = append(out, reflect.ValueOf(v).Convert(t)) }
	switch t {
	case TTime:
		for _, x := range TimeBounds() {
			out = append(out, reflect.ValueOf(x))
		}
		if g.AllTimes {
			for _, x := range TimeZoned() {
				out = append(out, reflect.ValueOf(x))
			}
			for _, x := range TimeExtreme() {
				out = append(out, reflect.ValueOf(x))
			}
		}
		return out
	case TUUID:
		for _, x := range uuidBounds {
			out = append(out, reflect.ValueOf(x))
		}
		return out
	case TBigIntP:
		out = append(out, reflect.Zero(t))
		for _, x := range bigInts() {
			out = append(out, reflect.ValueOf(x))
		}
		return out
	case TBigFloatP:
		out = append(out, reflect.Zero(t))
		for _, x := range bigFloats() {
			out = append(out, reflect.ValueOf(x))
		}
		return out
	case TBigRatP:
		out = append(out, reflect.Zero(t))
		for _, x := range bigRats() {
			out = append(out, reflect.ValueOf(x))
		}
		return out
	case TBigInt:
		for _, x := range bigInts() {
			out = append(out, reflect.ValueOf(*x))
		}
		return out
	case TBigFloat:
		for _, x := range bigFloats() {
			out = append(out, reflect.ValueOf(*x))
		}
		return out
	case TBigRat:
		for _, x := range bigRats() {
			out = append(out, reflect.ValueOf(*x))
		}
		return out
	case TListP:
		out = append(out, reflect.Zero(t))
		l0 := list.New()
		out = append(out, reflect.ValueOf(l0))
		l1 := list.New()
		l1.PushBack(1)
		l1.PushBack("two")
		l1.PushBack(3.5)
		l1.PushBack(nil)
		out = append(out, reflect.ValueOf(l1))
		l2 := list.New()
		l2.PushBack("same")
		l2.PushBack("same")
		l2.PushBack([]interface{}{"same"})
		out = append(out, reflect.ValueOf(l2))
		return out
	case TIface:
		for _, x := range ifaceDyn(g.Rng) {
			v := reflect.New(TIface).Elem()
			if x != nil {
				v.Set(reflect.ValueOf(x))
			}
			out = append(out, v)
		}
		for _, x := range g.IfaceExtra {
			v := reflect.New(TIface).Elem()
			v.Set(reflect.ValueOf(x))
			out = append(out, v)
		}
		return out
	}
	switch t.Kind() {
	case reflect.Bool:
		add(false)
		add(true)
	case reflect.Int, reflect.Int8, reflect.Int16, reflect.Int32, reflect.Int64:
		bits := t.Bits()
		lo, hi := int64(-1)<<(bits-1), int64(1)<<(bits-1)-1
		for _, x := range intBounds {
			if x >= lo && x <= hi {
				v := reflect.New(t).Elem()
				v.SetInt(x)
				out = append(out, v)
			}
		}
		vlo := reflect.New(t).Elem()
		vlo.SetInt(lo)
		vhi := reflect.New(t).Elem()
		vhi.SetInt(hi)
		out = append(out, vlo, vhi)
	case reflect.Uint, reflect.Uint8, reflect.Uint16, reflect.Uint32, reflect.Uint64, reflect.Uintptr:
		bits := t.Bits()
		var hi uint64 = math.MaxUint64
		if bits < 64 {
			hi = uint64(1)<<bits - 1
		}
		for _, x := range uintBounds {
			if x <= hi {
				v := reflect.New(t).Elem()
				v.SetUint(x)
				out = append(out, v)
			}
		}
		vhi := reflect.New(t).Elem()
		vhi.SetUint(hi)
		out = append(out, vhi)
	case reflect.Float32:
		for _, x := range floatBounds {
			v := reflect.New(t).Elem()
			f := float32(x)
			v.SetFloat(float64(f))
			out = append(out, v)
		}
	case reflect.Float64:
		for _, x := range floatBounds {
			v := reflect.New(t).Elem()
			v.SetFloat(x)
			out = append(out, v)
		}
	case reflect.Complex64, reflect.Complex128:
		for _, c := range []complex128{0, 1, -2.5, complex(0, 1), complex(1.5, -2), complex(math.Inf(1), 0), complex(math.NaN(), 0), complex(1e10, 1e-10), complex(0, math.Inf(-1)), complex(math.Copysign(0, -1), 0), complex(3, math.NaN())} {
			v := reflect.New(t).Elem()
			if t.Kind() == reflect.Complex64 {
				c = complex128(complex64(c))
			}
			v.SetComplex(c)
			out = append(out, v)
		}
	case reflect.String:
		for _, s := range StringBounds {
			v := reflect.New(t).Elem()
			v.SetString(s)
			out = append(out, v)
		}
	case reflect.Slice:
		if t.Elem().Kind() == reflect.Uint8 {
			for _, b := range bytesBounds {
				v := reflect.New(t).Elem()
				if b != nil {
					v.SetBytes(append([]byte{}, b...))
				}
				out = append(out, v)
			}
			return out
		}
		return nil
	default:
		return nil
	}
	return out
}

// IsLeaf reports whether Bounds applies to t.
func (g *Gen) IsLeaf(t reflect.Type) bool {
	switch t {
	case TTime, TUUID, TBigIntP, TBigFloatP, TBigRatP, TBigInt, TBigFloat, TBigRat, TListP, TIface:
		return true
	}
	switch t.Kind() {
	case reflect.Bool, reflect.Int, reflect.Int8, reflect.Int16, reflect.Int32, reflect.Int64,
		reflect.Uint, reflect.Uint8, reflect.Uint16, reflect.Uint32, reflect.Uint64, reflect.Uintptr,
		reflect.Float32, reflect.Float64, reflect.Complex64, reflect.Complex128, reflect.String:
		return true
	case reflect.Slice:
		return t.Elem().Kind() == reflect.Uint8
	}
	return false
}

// Pick returns one value of t: a boundary value or (for numeric/string kinds) a random one.
// depth bounds recursion of containers and recursive struct types.
func (g *Gen) Pick(t reflect.Type, depth int) reflect.Value {
	return g.pick(t, depth, false)
}

func (g *Gen) pick(t reflect.Type, depth int, key bool) reflect.Value {
	r := g.Rng
	if g.IsLeaf(t) {
		if r.Intn(3) == 0 {
			if v, ok := g.random(t); ok {
				if !(key && hasNaN(v)) {
					return v
				}
			}
		}
		b := g.Bounds(t)
		for tries := 0; tries < 20; tries++ {
			v := b[r.Intn(len(b))]
			if key && (hasNaN(v) || !hashableValue(v)) {
				continue
			}
			return v
		}
		return reflect.Zero(t)
	}
	switch t.Kind() {
	case reflect.Ptr:
		if depth <= 0 || r.Intn(5) == 0 {
			return reflect.Zero(t)
		}
		p := reflect.New(t.Elem())
		p.Elem().Set(g.pick(t.Elem(), depth-1, false))
		return p
	case reflect.Slice:
		if depth <= 0 {
			return reflect.Zero(t)
		}
		switch r.Intn(6) {
		case 0:
			return reflect.Zero(t)
		case 1:
			return reflect.MakeSlice(t, 0, 0)
		}
		n := 1 + r.Intn(4)
		if r.Intn(10) == 0 {
			n = 11 + r.Intn(10)
		}
		s := reflect.MakeSlice(t, n, n)
		for i := 0; i < n; i++ {
			s.Index(i).Set(g.pick(t.Elem(), depth-1, false))
		}
		return s
	case reflect.Array:
		a := reflect.New(t).Elem()
		for i := 0; i < t.Len(); i++ {
			a.Index(i).Set(g.pick(t.Elem(), depth-1, key))
		}
		return a
	case reflect.Map:
		if depth <= 0 {
			return reflect.Zero(t)
		}
		switch r.Intn(6) {
		case 0:
			return reflect.Zero(t)
		case 1:
			return reflect.MakeMap(t)
		}
		n := 1 + r.Intn(4)
		m := reflect.MakeMap(t)
		seen := map[string]bool{}
		for i := 0; i < n; i++ {
			k := g.pick(t.Key(), depth-1, true)
			if !hashableValue(k) || hasNaN(k) {
				continue
			}
			setKey(m, seen, k, g.pick(t.Elem(), depth-1, false))
		}
		return m
	case reflect.Struct:
		s := reflect.New(t).Elem()
		for i := 0; i < t.NumField(); i++ {
			f := t.Field(i)
			if f.PkgPath != "" && f.Anonymous && f.Type.Kind() == reflect.Struct {
				// an embedded struct of an unexported type: its exported fields are promoted
				sub := g.pick(f.Type, depth, false)
				for j := 0; j < f.Type.NumField(); j++ {
					if f.Type.Field(j).PkgPath == "" {
						s.Field(i).Field(j).Set(sub.Field(j))
					}
				}
				continue
			}
			if f.PkgPath != "" {
				continue
			}
			switch f.Type.Kind() {
			case reflect.Func, reflect.Chan, reflect.UnsafePointer:
				continue
			}
			if tag := f.Tag.Get("hprose"); tag == "-" {
				continue
			}
			d := depth - 1
			if depth <= 0 {
				d = 0
			}
			s.Field(i).Set(g.pick(f.Type, d, false))
		}
		return s
	}
	return reflect.Zero(t)
}

func hasNaN(v reflect.Value) bool {
	switch v.Kind() {
	case reflect.Float32, reflect.Float64:
		return math.IsNaN(v.Float())
	case reflect.Interface:
		if v.IsNil() {
			return false
		}
		return hasNaN(v.Elem())
	case reflect.Array:
		for i := 0; i < v.Len(); i++ {
			if hasNaN(v.Index(i)) {
				return true
			}
		}
	case reflect.Complex64, reflect.Complex128:
		c := v.Complex()
		return math.IsNaN(real(c)) || math.IsNaN(imag(c))
	}
	return false
}

// hashableValue reports whether v can be a map key without a runtime panic and keeps its
// identity through a round trip (no pointers, slices, maps inside interfaces).
func hashableValue(v reflect.Value) bool {
	switch v.Kind() {
	case reflect.Interface:
		if v.IsNil() {
			return false // nil keys are legal Go but ambiguous on the wire (n); not generated
		}
		e := v.Elem()
		switch e.Kind() {
		case reflect.Bool, reflect.Int, reflect.Int8, reflect.Int16, reflect.Int32, reflect.Int64,
			reflect.Uint, reflect.Uint8, reflect.Uint16, reflect.Uint32, reflect.Uint64,
			reflect.Float32, reflect.Float64:
			return true
		case reflect.String:
			// a string that is not UTF-8 travels as bytes, and a byte slice cannot be the
			// key of a Go map: outside the domain of interface{}-keyed maps
			return validUTF8ish(e.String())
		}
		return e.Type() == TUUID
	case reflect.Array:
		for i := 0; i < v.Len(); i++ {
			if !hashableValue(v.Index(i)) {
				return false
			}
		}
		return true
	case reflect.Slice, reflect.Map, reflect.Func, reflect.Ptr:
		return false
	}
	return true
}

func (g *Gen) random(t reflect.Type) (reflect.Value, bool) {
	r := g.Rng
	v := reflect.New(t).Elem()
	switch t.Kind() {
	case reflect.Int, reflect.Int8, reflect.Int16, reflect.Int32, reflect.Int64:
		bits := uint(t.Bits())
		x := int64(r.Uint64()) >> (64 - bits) >> uint(r.Intn(int(bits)))
		v.SetInt(x)
	case reflect.Uint, reflect.Uint8, reflect.Uint16, reflect.Uint32, reflect.Uint64, reflect.Uintptr:
		bits := uint(t.Bits())
		x := r.Uint64() >> (64 - bits) >> uint(r.Intn(int(bits)))
		v.SetUint(x)
	case reflect.Float32:
		v.SetFloat(float64(randFloat32(r)))
	case reflect.Float64:
		v.SetFloat(randFloat64(r))
	case reflect.String:
		v.SetString(RandString(r))
	case reflect.Slice:
		if t.Elem().Kind() != reflect.Uint8 {
			return v, false
		}
		n := r.Intn(40)
		b := make([]byte, n)
		r.Read(b)
		v.SetBytes(b)
	case reflect.Struct:
		switch t {
		case TTime:
			loc := time.UTC
			if r.Intn(2) == 0 {
				loc = time.Local
			}
			ns := 0
			switch r.Intn(4) {
			case 1:
				ns = r.Intn(1000) * 1000000
			case 2:
				ns = r.Intn(1000000) * 1000
			case 3:
				ns = r.Intn(1000000000)
			}
			tm := time.Date(1+r.Intn(9999), time.Month(1+r.Intn(12)), 1+r.Intn(28), r.Intn(24), r.Intn(60), r.Intn(60), ns, loc)
			if r.Intn(4) == 0 {
				tm = time.Date(tm.Year(), tm.Month(), tm.Day(), 0, 0, 0, 0, loc)
			}
			return reflect.ValueOf(tm), true
		case TUUID:
			var u uuid.UUID
			r.Read(u[:])
			return reflect.ValueOf(u), true
		}
		return v, false
	default:
		return v, false
	}
	return v, true
}

func randFloat64(r *rand.Rand) float64 {
	switch r.Intn(4) {
	case 0:
		return float64(r.Intn(2000)-1000) / 8
	case 1:
		return r.NormFloat64() * math.Pow(10, float64(r.Intn(40)-20))
	case 2:
		for {
			f := math.Float64frombits(r.Uint64())
			if !math.IsNaN(f) {
				return f
			}
		}
	}
	return float64(r.Int63n(1 << 53))
}

func randFloat32(r *rand.Rand) float32 {
	switch r.Intn(3) {
	case 0:
		return float32(r.Intn(2000)-1000) / 8
	case 1:
		for {
			f := math.Float32frombits(r.Uint32())
			if f == f {
				return f
			}
		}
	}
	return float32(r.NormFloat64())
}

var runePool = []rune{'a', 'Z', '0', '"', ';', '{', ' ', 'é', 'ß', '中', '文', '€', '😀', '𝄞', '߿', 'ࠀ', '￿', '\U00010000', '\U0010ffff', 0x7f, 0x80}

// RandString draws a valid UTF-8 string with a mixed rune pool.
func RandString(r *rand.Rand) string {
	n := r.Intn(12)
	if r.Intn(12) == 0 {
		n = 250 + r.Intn(12)
	}
	var sb strings.Builder
	for i := 0; i < n; i++ {
		sb.WriteRune(runePool[r.Intn(len(runePool))])
	}
	return sb.String()
}

// Values returns the systematic value list for a type: every boundary of a leaf; for a
// container: nil, empty, and containers holding each child boundary (capped at max values,
// sampled with the PRNG when the child list is longer), plus random picks.
func (g *Gen) Values(t reflect.Type, max int) []reflect.Value {
	if g.IsLeaf(t) {
		b := g.Bounds(t)
		for i := 0; i < 3; i++ {
			if v, ok := g.random(t); ok {
				b = append(b, v)
			}
		}
		return capValues(g.Rng, b, max)
	}
	var out []reflect.Value
	child := func(ct reflect.Type, n int) []reflect.Value { return g.Values(ct, n) }
	switch t.Kind() {
	case reflect.Ptr:
		out = append(out, reflect.Zero(t))
		for _, c := range child(t.Elem(), max-1) {
			p := reflect.New(t.Elem())
			p.Elem().Set(c)
			out = append(out, p)
		}
	case reflect.Slice:
		out = append(out, reflect.Zero(t), reflect.MakeSlice(t, 0, 0))
		cs := child(t.Elem(), max)
		// one-element slices for a sample of children, then one slice holding all children
		for i, c := range cs {
			if i >= max/2 {
				break
			}
			s := reflect.MakeSlice(t, 1, 1)
			s.Index(0).Set(c)
			out = append(out, s)
		}
		if len(cs) > 0 {
			s := reflect.MakeSlice(t, len(cs), len(cs))
			for i, c := range cs {
				s.Index(i).Set(c)
			}
			out = append(out, s)
		}
	case reflect.Array:
		out = append(out, reflect.New(t).Elem())
		if t.Len() > 0 {
			cs := child(t.Elem(), max)
			for i := 0; i+t.Len() <= len(cs) && len(out) < max; i += t.Len() {
				a := reflect.New(t).Elem()
				for j := 0; j < t.Len(); j++ {
					a.Index(j).Set(cs[i+j])
				}
				out = append(out, a)
			}
			if len(cs) > 0 {
				a := reflect.New(t).Elem()
				for j := 0; j < t.Len(); j++ {
					a.Index(j).Set(cs[g.Rng.Intn(len(cs))])
				}
				out = append(out, a)
			}
		}
	case reflect.Map:
		out = append(out, reflect.Zero(t), reflect.MakeMap(t))
		ks := g.keyValues(t.Key(), max)
		vs := child(t.Elem(), max)
		if len(ks) > 0 && len(vs) > 0 {
			// singletons
			for i := 0; i < max/2 && i < len(ks); i++ {
				m := reflect.MakeMap(t)
				m.SetMapIndex(ks[i], vs[i%len(vs)])
				out = append(out, m)
			}
			// all keys, values cycled; and all values over cycled keys
			m := reflect.MakeMap(t)
			seen := map[string]bool{}
			for i, k := range ks {
				setKey(m, seen, k, vs[i%len(vs)])
			}
			out = append(out, m)
			m2 := reflect.MakeMap(t)
			seen2 := map[string]bool{}
			for i, v := range vs {
				setKey(m2, seen2, ks[i%len(ks)], v)
			}
			out = append(out, m2)
		}
	case reflect.Struct:
		out = append(out, reflect.New(t).Elem())
		for i := 0; i < max/3+1; i++ {
			out = append(out, g.Pick(t, 3))
		}
	}
	for i := 0; i < 2; i++ {
		out = append(out, g.Pick(t, 3))
	}
	return capValues(g.Rng, out, max)
}

func (g *Gen) keyValues(t reflect.Type, max int) []reflect.Value {
	var out []reflect.Value
	for _, v := range g.Values(t, max*2) {
		if hashableValue(v) && !hasNaN(v) {
			out = append(out, v)
		}
	}
	return capValues(g.Rng, out, max)
}

func capValues(r *rand.Rand, vs []reflect.Value, max int) []reflect.Value {
	if max <= 0 || len(vs) <= max {
		return vs
	}
	// keep the first max/2 (systematic) and a random sample of the rest
	keep := max / 2
	out := append([]reflect.Value{}, vs[:keep]...)
	rest := vs[keep:]
	perm := r.Perm(len(rest))
	for i := 0; i < max-keep; i++ {
		out = append(out, rest[perm[i]])
	}
	return out
}

func validUTF8ish(s string) bool {
	c := 0
	for i := 0; i < len(s); i++ {
		a := s[i]
		if c == 0 {
			switch {
			case a&0x80 == 0:
			case a&0xe0 == 0xc0:
				c = 1
			case a&0xf0 == 0xe0:
				c = 2
			case a&0xf8 == 0xf0:
				c = 3
			default:
				return false
			}
		} else {
			if a&0xc0 != 0x80 {
				return false
			}
			c--
		}
	}
	return c == 0
}

// keyDenotation is the wire identity of a map key held in an interface{}: int8(1), int(1) and
// float32(1) are distinct Go keys but one wire key.
func keyDenotation(v reflect.Value) string {
	for v.Kind() == reflect.Interface && !v.IsNil() {
		v = v.Elem()
	}
	switch v.Kind() {
	case reflect.Int, reflect.Int8, reflect.Int16, reflect.Int32, reflect.Int64:
		return fmt.Sprintf("n%d", v.Int())
	case reflect.Uint, reflect.Uint8, reflect.Uint16, reflect.Uint32, reflect.Uint64, reflect.Uintptr:
		return fmt.Sprintf("n%d", v.Uint())
	case reflect.Float32, reflect.Float64:
		f := v.Float()
		if f == math.Trunc(f) && math.Abs(f) < 1e15 {
			return fmt.Sprintf("n%d", int64(f))
		}
		return fmt.Sprintf("f%v", float32(f))
	case reflect.Array:
		s := "["
		for i := 0; i < v.Len(); i++ {
			s += keyDenotation(v.Index(i)) + ","
		}
		return s + "]"
	}
	return fmt.Sprintf("%T:%v", v.Interface(), v.Interface())
}

// setKey sets m[k]=v unless a key with the same wire identity is already present.
func setKey(m reflect.Value, seen map[string]bool, k, v reflect.Value) {
	if m.Type().Key().Kind() == reflect.Interface || m.Type().Key().Kind() == reflect.Array {
		d := keyDenotation(k)
		if seen[d] {
			return
		}
		seen[d] = true
	}
	m.SetMapIndex(k, v)
}
