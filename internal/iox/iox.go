// Package iox wraps the entry points of /repo/io used by several checks.
package iox

import (
	"bytes"
	"fmt"
	"io"
	"math"
	"math/big"
	"math/rand"
	"reflect"

	hio "github.com/hprose/hprose-golang/v3/io"
	"verif/internal/eqv"
)

// Setting is one combination of decoder settings.
type Setting struct {
	Long   hio.LongType
	Real   hio.RealType
	Map    hio.MapType
	Struct hio.StructType
	List   hio.ListType
}

func (s Setting) String() string {
	return fmt.Sprintf("L%dR%dM%dS%dT%d", s.Long, s.Real, s.Map, s.Struct, s.List)
}

// IsDefault reports whether all settings are the defaults.
func (s Setting) IsDefault() bool { return s == Setting{} }

// AllSettings enumerates all 5*3*2*2*2 = 120 combinations.
func AllSettings() []Setting {
	var out []Setting
	for l := 0; l < 5; l++ {
		for r := 0; r < 3; r++ {
			for m := 0; m < 2; m++ {
				for s := 0; s < 2; s++ {
					for t := 0; t < 2; t++ {
						out = append(out, Setting{hio.LongType(l), hio.RealType(r), hio.MapType(m), hio.StructType(s), hio.ListType(t)})
					}
				}
			}
		}
	}
	return out
}

// RandSetting draws one combination.
func RandSetting(r *rand.Rand) Setting {
	return Setting{hio.LongType(r.Intn(5)), hio.RealType(r.Intn(3)), hio.MapType(r.Intn(2)), hio.StructType(r.Intn(2)), hio.ListType(r.Intn(2))}
}

// Encode entry points.
const (
	EncMarshal = iota // io.Marshal / Formatter.Marshal (pooled encoder)
	EncEncode         // fresh Encoder, Encode
	EncWrite          // fresh Encoder, Write
	EncWriter         // fresh Encoder on an io.Writer, Encode + flush
	NEnc
)

// EncName names an encode entry point.
func EncName(e int) string { return [...]string{"Marshal", "Encode", "Write", "Writer"}[e] }

// Encode v through the chosen entry point.
func Encode(v interface{}, simple bool, entry int) ([]byte, error) {
	switch entry {
	case EncMarshal:
		return hio.Formatter{Simple: simple}.Marshal(v)
	case EncEncode:
		enc := new(hio.Encoder).Simple(simple)
		err := enc.Encode(v)
		return enc.Bytes(), err
	case EncWrite:
		enc := new(hio.Encoder).Simple(simple)
		err := enc.Write(v)
		return enc.Bytes(), err
	default:
		var buf bytes.Buffer
		enc := hio.NewEncoder(&buf).Simple(simple)
		err := enc.Encode(v)
		return buf.Bytes(), err
	}
}

// Decode entry points.
const (
	DecUnmarshal = iota // Formatter.Unmarshal (pooled decoder in reference mode); falls back to DecFresh when Struct/List settings are not default
	DecFresh            // NewDecoder(data)
	DecReader           // NewDecoderFromReader(bytes.Reader)
	NDec
)

// DecName names a decode entry point.
func DecName(e int) string { return [...]string{"Unmarshal", "NewDecoder", "FromReader"}[e] }

// Decode data into ptr.
func Decode(data []byte, ptr interface{}, simple bool, s Setting, entry int) error {
	if entry == DecUnmarshal && s.Struct == 0 && s.List == 0 {
		return hio.Formatter{Simple: simple, LongType: s.Long, RealType: s.Real, MapType: s.Map}.Unmarshal(data, ptr)
	}
	var dec *hio.Decoder
	if entry == DecReader {
		dec = hio.NewDecoderFromReader(bytes.NewReader(data))
	} else {
		dec = hio.NewDecoder(data)
	}
	dec.Simple(simple)
	dec.LongType, dec.RealType, dec.MapType, dec.StructType, dec.ListType = s.Long, s.Real, s.Map, s.Struct, s.List
	dec.Decode(ptr)
	return dec.Error
}

// EOFOK reports whether err is nil or the io.EOF the decoder sets when the input ends exactly
// after the value. (Callers that require a nil error do not use this.)
func EOFOK(err error) bool { return err == nil || err == io.EOF }

var (
	maxInt64  = big.NewInt(1<<63 - 1)
	minInt64  = new(big.Int).Neg(new(big.Int).Lsh(big.NewInt(1), 63))
	maxUint64 = new(big.Int).SetUint64(1<<64 - 1)
)

// SettingCanHold reports whether every number that sits in an interface{} position of v can be
// represented under the setting: integers beyond the int32 range travel as long tokens and are
// read into the setting's long type; NaN has no big.Float form. It is a conservative walk over
// the whole denotation (numbers in typed positions count too), so that the C01 oracle never
// asks more than the setting can deliver.
func SettingCanHold(d *eqv.D, s Setting) bool {
	ok := true
	var walk func(d *eqv.D)
	seen := map[*eqv.D]bool{}
	walk = func(d *eqv.D) {
		if d == nil || !ok || seen[d] {
			return
		}
		seen[d] = true
		switch d.K {
		case eqv.KInt:
			switch s.Long {
			case hio.LongTypeInt, hio.LongTypeInt64:
				if d.I.Cmp(maxInt64) > 0 || d.I.Cmp(minInt64) < 0 {
					ok = false
				}
			case hio.LongTypeUint, hio.LongTypeUint64:
				// negative values beyond int32 would be read as unsigned
				// (a whole-valued big.Rat or a *big.Int travels as a long token whatever its size)
				if d.I.Sign() < 0 {
					ok = false
				}
				if d.I.Cmp(maxUint64) > 0 {
					ok = false
				}
			}
		case eqv.KFloat:
			if s.Real == hio.RealTypeBigFloat && d.F != d.F {
				ok = false
			}
			// a finite double beyond the float32 range has no float32 form (the decoder reports a range error)
			if s.Real == hio.RealTypeFloat32 && !math.IsInf(d.F, 0) && math.Abs(d.F) > math.MaxFloat32 {
				ok = false
			}
		}
		if d.K == eqv.KList && s.List == hio.ListTypeSlice {
			// a typed slice is built when all non-nil elements agree: nil elements of a
			// scalar or struct-value slice become zero values
			nils, others := 0, 0
			for _, x := range d.List {
				if x.K == eqv.KNil || x.K == eqv.KList && len(x.List) == 0 || x.K == eqv.KMap && len(x.Keys) == 0 {
					// (an empty list or map is read as a nil slice or map, which the typed slice zero-fills)
					nils++
				} else {
					others++
				}
			}
			if nils > 0 && others > 0 {
				ok = false
			}
		}
		if d.K == eqv.KMap && s.Map == hio.MapTypeSIMap {
			// keys are converted to strings under this setting
			for _, k := range d.Keys {
				if k.K != eqv.KStr {
					ok = false
				}
			}
		}
		for _, x := range d.List {
			walk(x)
		}
		for _, x := range d.Keys {
			walk(x)
		}
		for _, x := range d.Vals {
			walk(x)
		}
	}
	walk(d)
	return ok
}

// ContainsInterface reports whether t has an interface{} position (settings matter only then).
func ContainsInterface(t reflect.Type) bool {
	return containsIface(t, map[reflect.Type]bool{})
}

func containsIface(t reflect.Type, seen map[reflect.Type]bool) bool {
	if seen[t] {
		return false
	}
	seen[t] = true
	switch t.Kind() {
	case reflect.Interface:
		return true
	case reflect.Ptr, reflect.Slice, reflect.Array:
		return containsIface(t.Elem(), seen)
	case reflect.Map:
		return containsIface(t.Key(), seen) || containsIface(t.Elem(), seen)
	case reflect.Struct:
		if t.PkgPath() == "container/list" {
			return true
		}
		for i := 0; i < t.NumField(); i++ {
			if t.Field(i).PkgPath == "" && containsIface(t.Field(i).Type, seen) {
				return true
			}
		}
	}
	return false
}
