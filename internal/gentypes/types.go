// Package gentypes declares the named Go types used by the generators: named scalars and
// named struct types with the field shapes, tags and embeddings the serializer supports.
package gentypes

import (
	"container/list"
	"math/big"
	"reflect"
	"time"

	"github.com/google/uuid"
	hio "github.com/hprose/hprose-golang/v3/io"
)

type MyBool bool
type MyInt int
type MyInt8 int8
type MyInt16 int16
type MyInt32 int32
type MyInt64 int64
type MyUint uint
type MyUint8 uint8
type MyUint16 uint16
type MyUint32 uint32
type MyUint64 uint64
type MyFloat32 float32
type MyFloat64 float64
type MyString string
type MyBytes []byte
type MyIntSlice []int
type MyStrMap map[string]int

// One field, scalar (value struct of one field is a special path in the encoder).
type One struct{ A int }

// One field, pointer (pointer-shaped struct when boxed in an interface).
type OnePtr struct{ P *int }

// One field, map (also pointer-shaped).
type OneMap struct{ M map[string]int }

// One field string.
type OneStr struct{ S string }

type Scalars struct {
	B   bool
	I   int
	I8  int8
	I16 int16
	I32 int32
	I64 int64
	U   uint
	U8  uint8
	U16 uint16
	U32 uint32
	U64 uint64
	F32 float32
	F64 float64
	S   string
}

type Ptrs struct {
	B   *bool
	I   *int
	I8  *int8
	I16 *int16
	I32 *int32
	I64 *int64
	U   *uint
	U8  *uint8
	U16 *uint16
	U32 *uint32
	U64 *uint64
	F32 *float32
	F64 *float64
	S   *string
	Bs  *[]byte
	T   *time.Time
	G   *uuid.UUID
	Any *interface{}
}

type Libs struct {
	T   time.Time
	G   uuid.UUID
	BI  *big.Int
	BF  *big.Float
	BR  *big.Rat
	L   *list.List
	Bs  []byte
	Any interface{}
}

type Slices struct {
	Is  []int
	Ss  []string
	Fs  []float64
	Bss [][]byte
	IIs [][]int
	As  []interface{}
	Ps  []*int
	Arr [3]int8
	B16 [4]byte
}

type Maps struct {
	SI map[string]int
	IS map[int]string
	SA map[string]interface{}
	AA map[interface{}]interface{}
	FP map[float64]*string
	SS map[string][]string
}

type Tagged struct {
	X       int    `hprose:"ex"`
	Y       string `json:"why,omitempty"`
	Z       int    `hprose:"-"`
	W       bool   `hprose:"double-u" json:"ignored"`
	hidden  int
	Fn      func()
	Ch      chan int
	Upper   string
	lower   string
	Unicode string `hprose:"名字"`
}

type Inner struct {
	IA int
	IB string
}

type InnerP struct {
	PA float64
}

type Embeds struct {
	Inner
	*InnerP
	Name string
}

// EmbedsLate embeds structs after other fields (non-zero offset) and two levels deep.
type EmbedsLate struct {
	Name string
	Inner
	X int
	InnerP
	Deep
}

type Deep struct {
	D1 int
	DeepInner
}

type DeepInner struct {
	DI string
	DJ *int
}

// audit is an unexported struct type with exported fields: embedding it promotes them.
type audit struct {
	By string
	At int64
}

type WithAudit struct {
	ID int
	audit
	Note string
}

type Node struct {
	V    int
	Next *Node
}

type Tree struct {
	Name string
	Kids []*Tree
	M    map[string]*Tree
	Arr  [2]*Tree
	Any  interface{}
	Up   *Tree
}

type MutA struct {
	Name string
	B    *MutB
}

type MutB struct {
	N int
	A *MutA
	L []*MutA
}

type Nested struct {
	One  One
	OneP *One
	Sc   Scalars
	ScP  *Scalars
	An   struct {
		Q int
		R string
	}
	An1 struct{ Q *int }
}

// G is the node type of the C02 graph generator: every field kind through which the encoder
// can reach another node, plus referable payloads.
type G struct {
	ID  int
	Str string
	P   *G
	Q   *G
	S   []*G
	M   map[string]*G
	A   [2]*G
	I   interface{}
	PS  *[]*G
	PM  *map[string]*G
	B   []byte
	T   time.Time
	U   uuid.UUID
}

// H is a second node type (mutual recursion with G through interface{} and pointers).
type H struct {
	N    int
	G    *G
	Next *H
	Any  []interface{}
}

// Unreg is never registered with io.Register: it can be decoded into typed destinations only.
type Unreg struct {
	A int
	S string
}

type Empty struct{}

// StructTypes lists the named struct types of the universe (all registered except Unreg).
var StructTypes = []reflect.Type{
	reflect.TypeOf(One{}), reflect.TypeOf(OnePtr{}), reflect.TypeOf(OneMap{}), reflect.TypeOf(OneStr{}),
	reflect.TypeOf(Scalars{}), reflect.TypeOf(Ptrs{}), reflect.TypeOf(Libs{}), reflect.TypeOf(Slices{}),
	reflect.TypeOf(Maps{}), reflect.TypeOf(Tagged{}), reflect.TypeOf(Embeds{}), reflect.TypeOf(EmbedsLate{}), reflect.TypeOf(WithAudit{}), reflect.TypeOf(Node{}),
	reflect.TypeOf(Tree{}), reflect.TypeOf(MutA{}), reflect.TypeOf(MutB{}), reflect.TypeOf(Nested{}),
	reflect.TypeOf(Unreg{}), reflect.TypeOf(Empty{}), reflect.TypeOf(G{}), reflect.TypeOf(H{}),
}

// NamedScalars lists the named non-struct types.
var NamedScalars = []reflect.Type{
	reflect.TypeOf(MyBool(false)), reflect.TypeOf(MyInt(0)), reflect.TypeOf(MyInt8(0)), reflect.TypeOf(MyInt16(0)),
	reflect.TypeOf(MyInt32(0)), reflect.TypeOf(MyInt64(0)), reflect.TypeOf(MyUint(0)), reflect.TypeOf(MyUint8(0)),
	reflect.TypeOf(MyUint16(0)), reflect.TypeOf(MyUint32(0)), reflect.TypeOf(MyUint64(0)), reflect.TypeOf(MyFloat32(0)),
	reflect.TypeOf(MyFloat64(0)), reflect.TypeOf(MyString("")),
}

// NamedContainers lists named slice/map types.
var NamedContainers = []reflect.Type{
	reflect.TypeOf(MyBytes(nil)), reflect.TypeOf(MyIntSlice(nil)), reflect.TypeOf(MyStrMap(nil)),
}

// Registered reports whether t (a struct type) was registered.
func Registered(t reflect.Type) bool { return t != reflect.TypeOf(Unreg{}) }

func init() {
	for _, t := range StructTypes {
		if Registered(t) {
			hio.Register(reflect.New(t).Interface())
		}
	}
}
