// Package eqv holds the equality oracles: typed equality up to the format's own
// normalisations (Equal) and denotation (Denote / DEqual) for positions where the Go types on
// the two sides legitimately differ (interface{} destinations, independent reader).
package eqv

import (
	"container/list"
	"fmt"
	"math"
	"math/big"
	"reflect"
	"sort"
	"strings"
	"time"
	"unicode/utf8"

	"github.com/google/uuid"
)

var (
	tTime     = reflect.TypeOf(time.Time{})
	tUUID     = reflect.TypeOf(uuid.UUID{})
	tBigInt   = reflect.TypeOf(big.Int{})
	tBigFloat = reflect.TypeOf(big.Float{})
	tBigRat   = reflect.TypeOf(big.Rat{})
	tList     = reflect.TypeOf(list.List{})
	tError    = reflect.TypeOf((*error)(nil)).Elem()
	tBytes    = reflect.TypeOf([]byte(nil))
	tUint8    = reflect.TypeOf(uint8(0))
)

// Opts are the decoder settings that influence what an interface{} destination holds.
type Opts struct {
	// AliasOf maps a struct field to its wire alias; nil uses the default rule.
	AliasOf func(f reflect.StructField) string
}

type visit struct {
	a, b uintptr
	t    reflect.Type
}

type eq struct {
	seen map[visit]bool
	path []string
	why  string
}

// Equal compares an original value with its decoded counterpart of the same static type.
// It returns "" when equal, else a description "path: reason".
func Equal(a, b reflect.Value) string {
	e := &eq{seen: map[visit]bool{}}
	if e.equal(a, b, 0) {
		return ""
	}
	return strings.Join(e.path, "") + ": " + e.why
}

func (e *eq) fail(format string, args ...interface{}) bool {
	if e.why == "" {
		e.why = fmt.Sprintf(format, args...)
	}
	return false
}

func isEmptyish(v reflect.Value) bool {
	switch v.Kind() {
	case reflect.Slice, reflect.Map:
		return v.Len() == 0
	}
	return false
}

// collapse follows pointers; a pointer chain ending in nil collapses to nil (ok=false).
func collapse(v reflect.Value) (reflect.Value, bool) {
	for v.Kind() == reflect.Ptr {
		if v.IsNil() {
			return v, false
		}
		v = v.Elem()
	}
	// a pointer to a nil (or empty) slice/map or to a nil interface is written as null (or
	// as an empty container) and is as nil-like as a pointer to a nil pointer
	switch v.Kind() {
	case reflect.Slice, reflect.Map:
		if v.Len() == 0 {
			return v, false
		}
	case reflect.Interface:
		if v.IsNil() {
			return v, false
		}
		return collapse(v.Elem())
	}
	return v, true
}

func floatEq(x, y float64) bool {
	return x == y || (math.IsNaN(x) && math.IsNaN(y))
}

func (e *eq) equal(a, b reflect.Value, depth int) bool {
	if depth > 200 {
		return e.fail("comparison depth exceeded")
	}
	if a.Type() != b.Type() {
		return e.fail("type %s vs %s", a.Type(), b.Type())
	}
	t := a.Type()
	switch t {
	case tTime:
		return e.timeEq(a.Interface().(time.Time), b.Interface().(time.Time))
	case tBigInt:
		x, y := a.Interface().(big.Int), b.Interface().(big.Int)
		if x.Cmp(&y) != 0 {
			return e.fail("big.Int %s vs %s", x.String(), y.String())
		}
		return true
	case tBigFloat:
		x, y := a.Interface().(big.Float), b.Interface().(big.Float)
		if x.Cmp(&y) != 0 {
			return e.fail("big.Float %s vs %s", x.Text('g', -1), y.Text('g', -1))
		}
		return true
	case tBigRat:
		x, y := a.Interface().(big.Rat), b.Interface().(big.Rat)
		if x.Cmp(&y) != 0 {
			return e.fail("big.Rat %s vs %s", x.String(), y.String())
		}
		return true
	case tList:
		return e.fail("list.List by value is not comparable")
	}
	switch t.Kind() {
	case reflect.Bool:
		if a.Bool() != b.Bool() {
			return e.fail("%v vs %v", a.Bool(), b.Bool())
		}
	case reflect.Int, reflect.Int8, reflect.Int16, reflect.Int32, reflect.Int64:
		if a.Int() != b.Int() {
			return e.fail("%d vs %d", a.Int(), b.Int())
		}
	case reflect.Uint, reflect.Uint8, reflect.Uint16, reflect.Uint32, reflect.Uint64, reflect.Uintptr:
		if a.Uint() != b.Uint() {
			return e.fail("%d vs %d", a.Uint(), b.Uint())
		}
	case reflect.Float32, reflect.Float64:
		if !floatEq(a.Float(), b.Float()) {
			return e.fail("%v vs %v", a.Float(), b.Float())
		}
	case reflect.Complex64, reflect.Complex128:
		x, y := a.Complex(), b.Complex()
		if !floatEq(real(x), real(y)) || !floatEq(imag(x), imag(y)) {
			return e.fail("%v vs %v", x, y)
		}
	case reflect.String:
		if a.String() != b.String() {
			return e.fail("%q vs %q", clip(a.String()), clip(b.String()))
		}
	case reflect.Ptr:
		ca, oka := collapse(a)
		cb, okb := collapse(b)
		if oka != okb {
			return e.fail("nil-ness differs: orig nil=%v decoded nil=%v", !oka, !okb)
		}
		if !oka {
			return true
		}
		// compare one level at a time so that types stay aligned
		if a.IsNil() || b.IsNil() {
			// collapse said both reach a value, so neither is nil here
			return e.fail("unexpected nil")
		}
		_ = ca
		_ = cb
		if a.Type() == reflect.PtrTo(tList) {
			return e.listEq(a.Interface().(*list.List), b.Interface().(*list.List), depth)
		}
		k := visit{a.Pointer(), b.Pointer(), t}
		if e.seen[k] {
			return true
		}
		e.seen[k] = true
		e.path = append(e.path, "*")
		if !e.equal(a.Elem(), b.Elem(), depth+1) {
			return false
		}
		e.path = e.path[:len(e.path)-1]
	case reflect.Interface:
		if a.IsNil() || b.IsNil() {
			// nil interface vs nil-ish dynamic value
			da, db := DenoteValue(a), DenoteValue(b)
			if why := DEqual(da, db); why != "" {
				return e.fail("interface: %s", why)
			}
			return true
		}
		da, db := DenoteValue(a.Elem()), DenoteValue(b.Elem())
		if why := DEqual(da, db); why != "" {
			return e.fail("interface holding %s vs %s: %s", a.Elem().Type(), b.Elem().Type(), why)
		}
	case reflect.Slice:
		if isEmptyish(a) && isEmptyish(b) {
			return true
		}
		if a.Len() != b.Len() {
			return e.fail("len %d vs %d", a.Len(), b.Len())
		}
		if t.Elem().Kind() == reflect.Uint8 {
			if string(a.Bytes()) != string(b.Bytes()) {
				return e.fail("bytes %q vs %q", clip(string(a.Bytes())), clip(string(b.Bytes())))
			}
			return true
		}
		for i := 0; i < a.Len(); i++ {
			e.path = append(e.path, fmt.Sprintf("[%d]", i))
			if !e.equal(a.Index(i), b.Index(i), depth+1) {
				return false
			}
			e.path = e.path[:len(e.path)-1]
		}
	case reflect.Array:
		for i := 0; i < a.Len(); i++ {
			e.path = append(e.path, fmt.Sprintf("[%d]", i))
			if !e.equal(a.Index(i), b.Index(i), depth+1) {
				return false
			}
			e.path = e.path[:len(e.path)-1]
		}
	case reflect.Map:
		if isEmptyish(a) && isEmptyish(b) {
			return true
		}
		if a.Len() != b.Len() {
			return e.fail("map len %d vs %d", a.Len(), b.Len())
		}
		if t.Key().Kind() == reflect.Interface {
			// keys may legitimately change dynamic type (int8(1) -> int(1)): compare by denotation
			da, db := DenoteValue(a), DenoteValue(b)
			if why := DEqual(da, db); why != "" {
				return e.fail("map: %s", why)
			}
			return true
		}
		it := a.MapRange()
		for it.Next() {
			bv := b.MapIndex(it.Key())
			if !bv.IsValid() {
				return e.fail("key %v missing after decode", clip(fmt.Sprint(it.Key().Interface())))
			}
			e.path = append(e.path, fmt.Sprintf("[%v]", clip(fmt.Sprint(it.Key().Interface()))))
			if !e.equal(it.Value(), bv, depth+1) {
				return false
			}
			e.path = e.path[:len(e.path)-1]
		}
	case reflect.Struct:
		for i := 0; i < t.NumField(); i++ {
			f := t.Field(i)
			if !Serializable(f) {
				continue
			}
			e.path = append(e.path, "."+f.Name)
			if !e.equal(a.Field(i), b.Field(i), depth+1) {
				return false
			}
			e.path = e.path[:len(e.path)-1]
		}
	default:
		return e.fail("unsupported kind %s", t.Kind())
	}
	return true
}

// Serializable reports whether the serializer is expected to carry this field.
func Serializable(f reflect.StructField) bool {
	if f.PkgPath != "" && !f.Anonymous {
		return false
	}
	if f.PkgPath != "" && f.Anonymous && f.Type.Kind() != reflect.Struct {
		return false
	}
	switch f.Type.Kind() {
	case reflect.Func, reflect.Chan, reflect.UnsafePointer:
		return false
	}
	if Alias(f) == "-" {
		return false
	}
	return true
}

// Alias computes the wire name of a field as documented: hprose tag, then json tag (options
// stripped), else the field name with a lower-cased first ASCII letter.
func Alias(f reflect.StructField) string {
	for _, tn := range []string{"hprose", "json"} {
		tag := f.Tag.Get(tn)
		if i := strings.Index(tag, ","); i >= 0 {
			tag = tag[:i]
		}
		tag = strings.Trim(tag, " ")
		if tag != "" {
			return tag
		}
	}
	n := f.Name
	if n[0] >= 'A' && n[0] <= 'Z' {
		n = string(n[0]-'A'+'a') + n[1:]
	}
	return n
}

func (e *eq) timeEq(x, y time.Time) bool {
	if !x.Equal(y) {
		return e.fail("instant differs: %s vs %s", x.Format(time.RFC3339Nano), y.Format(time.RFC3339Nano))
	}
	if (x.Location() == time.UTC) != (y.Location() == time.UTC) {
		return e.fail("UTC-ness differs: %s vs %s", x.Location(), y.Location())
	}
	return true
}

func (e *eq) listEq(x, y *list.List, depth int) bool {
	if x.Len() != y.Len() {
		return e.fail("list len %d vs %d", x.Len(), y.Len())
	}
	ex, ey := x.Front(), y.Front()
	for i := 0; ex != nil; i++ {
		da, db := Denote(ex.Value), Denote(ey.Value)
		if why := DEqual(da, db); why != "" {
			return e.fail("list[%d]: %s", i, why)
		}
		ex, ey = ex.Next(), ey.Next()
	}
	return true
}

func clip(s string) string {
	if len(s) > 60 {
		return s[:60] + "…"
	}
	return s
}

// ---------------------------------------------------------------------------------------------
// Denotation

// Kind of a denoted value.
type Kind int

const (
	KNil Kind = iota
	KBool
	KInt   // mathematical integer
	KFloat // IEEE double (incl. NaN, ±Inf); F32 marks single precision provenance
	KStr   // valid UTF-8 string
	KBytes
	KTime
	KUUID
	KList
	KMap
	KObj
	KRef // back-reference placeholder for cycles
)

// D is an abstract value.
type D struct {
	K     Kind
	B     bool
	I     *big.Int
	F     float64
	F32   bool
	Big   *big.Float // set for big.Float provenance (exact value); F holds the nearest double
	S     string
	T     time.Time
	UTC   bool
	List  []*D
	Keys  []*D // map keys (parallel to Vals)
	Vals  []*D
	Class string
	Field []string // object: field aliases (parallel to Vals)
	Ref   int      // KRef: depth distance is not tracked; cycles compare by position
}

func (d *D) String() string {
	var sb strings.Builder
	d.write(&sb, 0)
	s := sb.String()
	if len(s) > 300 {
		s = s[:300] + "…"
	}
	return s
}

func (d *D) write(sb *strings.Builder, depth int) {
	if depth > 6 {
		sb.WriteString("…")
		return
	}
	switch d.K {
	case KNil:
		sb.WriteString("nil")
	case KBool:
		fmt.Fprintf(sb, "%v", d.B)
	case KInt:
		sb.WriteString("int:" + d.I.String())
	case KFloat:
		fmt.Fprintf(sb, "float:%v", d.F)
	case KStr:
		fmt.Fprintf(sb, "str:%q", clip(d.S))
	case KBytes:
		fmt.Fprintf(sb, "bytes:%q", clip(d.S))
	case KTime:
		fmt.Fprintf(sb, "time:%s", d.T.Format(time.RFC3339Nano))
	case KUUID:
		sb.WriteString("uuid:" + d.S)
	case KList:
		sb.WriteString("[")
		for i, x := range d.List {
			if i > 0 {
				sb.WriteString(",")
			}
			if i > 8 {
				sb.WriteString("…")
				break
			}
			x.write(sb, depth+1)
		}
		sb.WriteString("]")
	case KMap, KObj:
		if d.K == KObj {
			sb.WriteString("obj " + d.Class)
		}
		sb.WriteString("{")
		for i := range d.Vals {
			if i > 0 {
				sb.WriteString(",")
			}
			if i > 8 {
				sb.WriteString("…")
				break
			}
			if d.K == KObj {
				sb.WriteString(d.Field[i])
			} else {
				d.Keys[i].write(sb, depth+1)
			}
			sb.WriteString(":")
			d.Vals[i].write(sb, depth+1)
		}
		sb.WriteString("}")
	case KRef:
		sb.WriteString("<cycle>")
	}
}

// Denote maps a Go value to the abstract value it stands for on the wire.
func Denote(v interface{}) *D {
	if v == nil {
		return &D{K: KNil}
	}
	return DenoteValue(reflect.ValueOf(v))
}

type denoter struct {
	memo map[memoKey]*D
}

type memoKey struct {
	p uintptr
	t reflect.Type
}

// DenoteValue is Denote for a reflect.Value.
func DenoteValue(v reflect.Value) *D {
	dn := &denoter{memo: map[memoKey]*D{}}
	return dn.denote(v, 0)
}

func intD(i *big.Int) *D { return &D{K: KInt, I: i} }

// StrD denotes a Go string: valid UTF-8 is a string, anything else travels as bytes.
func StrD(s string) *D {
	if !ValidHproseUTF8(s) {
		return &D{K: KBytes, S: s}
	}
	return &D{K: KStr, S: s}
}

// ValidHproseUTF8 reports whether s can be carried as an Hprose string: structurally valid
// UTF-8 sequences of 1 to 4 bytes (the format counts UTF-16 units and does not exclude
// surrogate code points or overlong forms).
func ValidHproseUTF8(s string) bool {
	c := 0
	for i := 0; i < len(s); i++ {
		a := s[i]
		if c == 0 {
			switch {
			case a&0x80 == 0:
			case a&0xe0 == 0xc0:
				c = 1
			case a&0xf0 == 0xe0:
				c = 2
			case a&0xf8 == 0xf0:
				c = 3
			default:
				return false
			}
		} else {
			if a&0xc0 != 0x80 {
				return false
			}
			c--
		}
	}
	return c == 0
}

func (dn *denoter) denote(v reflect.Value, depth int) *D {
	if !v.IsValid() {
		return &D{K: KNil}
	}
	if depth > 100000 {
		return &D{K: KRef}
	}
	t := v.Type()
	switch t {
	case tTime:
		tm := v.Interface().(time.Time)
		return &D{K: KTime, T: tm, UTC: tm.Location() == time.UTC}
	case tUUID:
		return &D{K: KUUID, S: v.Interface().(uuid.UUID).String()}
	case tBigInt:
		x := v.Interface().(big.Int)
		return intD(new(big.Int).Set(&x))
	case tBigFloat:
		x := v.Interface().(big.Float)
		f, _ := x.Float64()
		return &D{K: KFloat, F: f, Big: new(big.Float).Copy(&x)}
	case tBigRat:
		x := v.Interface().(big.Rat)
		if x.IsInt() {
			return intD(new(big.Int).Set(x.Num()))
		}
		return &D{K: KStr, S: x.String()}
	case tList:
		l := v.Addr().Interface().(*list.List)
		d := &D{K: KList}
		for e := l.Front(); e != nil; e = e.Next() {
			d.List = append(d.List, dn.denote(reflect.ValueOf(e.Value), depth+1))
		}
		return d
	}
	if t.Implements(tError) && t.Kind() != reflect.Interface && !(t.Kind() == reflect.Ptr && v.IsNil()) {
		if err, ok := v.Interface().(error); ok {
			return &D{K: KObj, Class: "!error", Field: []string{"message"}, Vals: []*D{{K: KStr, S: err.Error()}}}
		}
	}
	switch t.Kind() {
	case reflect.Bool:
		return &D{K: KBool, B: v.Bool()}
	case reflect.Int, reflect.Int8, reflect.Int16, reflect.Int32, reflect.Int64:
		return intD(big.NewInt(v.Int()))
	case reflect.Uint, reflect.Uint8, reflect.Uint16, reflect.Uint32, reflect.Uint64, reflect.Uintptr:
		return intD(new(big.Int).SetUint64(v.Uint()))
	case reflect.Float32:
		return &D{K: KFloat, F: v.Float(), F32: true}
	case reflect.Float64:
		return &D{K: KFloat, F: v.Float()}
	case reflect.Complex64, reflect.Complex128:
		c := v.Complex()
		f32 := t.Kind() == reflect.Complex64
		if imag(c) == 0 {
			return &D{K: KFloat, F: real(c), F32: f32}
		}
		return &D{K: KList, List: []*D{{K: KFloat, F: real(c), F32: f32}, {K: KFloat, F: imag(c), F32: f32}}}
	case reflect.String:
		return StrD(v.String())
	case reflect.Ptr:
		if v.IsNil() {
			return &D{K: KNil}
		}
		if t.Elem() == tList {
			return dn.denote(v.Elem(), depth+1)
		}
		// pointers have identity: shared and cyclic structures denote shared and cyclic
		// graphs (compared by bisimulation in DEqual)
		k := memoKey{v.Pointer(), t}
		if d, ok := dn.memo[k]; ok {
			return d
		}
		d := &D{}
		dn.memo[k] = d
		*d = *dn.denote(v.Elem(), depth+1)
		return d
	case reflect.Interface:
		if v.IsNil() {
			return &D{K: KNil}
		}
		return dn.denote(v.Elem(), depth+1)
	case reflect.Slice:
		if t == tBytes {
			// only the unnamed []byte travels as bytes; named byte slices are lists of integers
			if v.IsNil() {
				return &D{K: KNil}
			}
			return &D{K: KBytes, S: string(v.Bytes())}
		}
		if v.IsNil() {
			return &D{K: KNil}
		}
		d := &D{K: KList, List: []*D{}}
		for i := 0; i < v.Len(); i++ {
			d.List = append(d.List, dn.denote(v.Index(i), depth+1))
		}
		return d
	case reflect.Array:
		if t.Elem() == tUint8 {
			b := make([]byte, v.Len())
			reflect.Copy(reflect.ValueOf(b), v)
			return &D{K: KBytes, S: string(b)}
		}
		d := &D{K: KList, List: []*D{}}
		for i := 0; i < v.Len(); i++ {
			d.List = append(d.List, dn.denote(v.Index(i), depth+1))
		}
		return d
	case reflect.Map:
		if v.IsNil() {
			return &D{K: KNil}
		}
		d := &D{K: KMap}
		it := v.MapRange()
		for it.Next() {
			d.Keys = append(d.Keys, dn.denote(it.Key(), depth+1))
			d.Vals = append(d.Vals, dn.denote(it.Value(), depth+1))
		}
		return d
	case reflect.Struct:
		d := &D{K: KObj, Class: t.Name()}
		dn.structFields(v, d, depth)
		if t.Name() == "" {
			// anonymous structs travel as maps keyed by alias
			m := &D{K: KMap}
			for i, f := range d.Field {
				m.Keys = append(m.Keys, &D{K: KStr, S: f})
				m.Vals = append(m.Vals, d.Vals[i])
			}
			return m
		}
		return d
	}
	return &D{K: KNil}
}

func (dn *denoter) structFields(v reflect.Value, d *D, depth int) {
	t := v.Type()
	for i := 0; i < t.NumField(); i++ {
		f := t.Field(i)
		if f.Anonymous && f.Type.Kind() == reflect.Struct {
			dn.structFields(v.Field(i), d, depth)
			continue
		}
		if !Serializable(f) {
			continue
		}
		d.Field = append(d.Field, Alias(f))
		d.Vals = append(d.Vals, dn.denote(v.Field(i), depth+1))
	}
}

// DEqual compares two denotations; "" when equal.
//
// Normalisations granted: nil ≡ empty list/map; a float32-provenance number equals a
// number that rounds to the same float32; a string of one character equals itself however it was tagged; an
// object equals a map with the same alias→value pairs; NaN ≡ NaN; −0 ≡ +0.
func DEqual(a, b *D) string {
	c := &cmp{seen: map[[2]*D]bool{}}
	return c.dequal(a, b, 0, "", false)
}

type cmp struct {
	seen map[[2]*D]bool
}

// DEqualLoose additionally lets an integer equal a float that holds exactly that integer
// (used where the destination type, not the wire tag, decides the Go type).
func DEqualLoose(a, b *D) string {
	c := &cmp{seen: map[[2]*D]bool{}}
	return c.dequal(a, b, 0, "", true)
}

func emptyD(d *D) bool {
	switch d.K {
	case KNil:
		return true
	case KList:
		return len(d.List) == 0
	case KMap:
		return len(d.Vals) == 0
	case KBytes, KStr:
		return false
	}
	return false
}

func numEq(a, b *D, loose bool) bool {
	if a.K == KInt && b.K == KInt {
		return a.I.Cmp(b.I) == 0
	}
	fa, fb := a, b
	if a.K == KInt || b.K == KInt {
		if !loose {
			return false
		}
		// integer vs float: equal iff the float holds exactly that integer
		if a.K == KInt {
			fa, fb = b, a
		}
		if math.IsNaN(fa.F) || math.IsInf(fa.F, 0) {
			return false
		}
		if fa.Big != nil {
			if !fa.Big.IsInt() {
				return false
			}
			bi, _ := fa.Big.Int(nil)
			return bi.Cmp(fb.I) == 0
		}
		bf := new(big.Float).SetFloat64(fa.F)
		if !bf.IsInt() {
			return false
		}
		bi, _ := bf.Int(nil)
		return bi.Cmp(fb.I) == 0
	}
	if a.Big != nil && b.Big != nil {
		return a.Big.Cmp(b.Big) == 0
	}
	if floatEq(a.F, b.F) {
		return true
	}
	if a.F32 || b.F32 {
		x, y := float32(a.F), float32(b.F)
		return x == y || (x != x && y != y)
	}
	return false
}

func (c *cmp) dequal(a, b *D, depth int, path string, loose bool) string {
	if a.K == KList || a.K == KMap || a.K == KObj {
		k := [2]*D{a, b}
		if c.seen[k] {
			return "" // already being compared (cycle) or compared (sharing)
		}
		c.seen[k] = true
	}
	if len(path) > 200 {
		path = "…" + path[len(path)-150:]
	}
	if a.K == KRef || b.K == KRef {
		return "" // cycles are checked by the typed comparison / bisimulation, not here
	}
	if emptyD(a) && emptyD(b) {
		return ""
	}
	isNum := func(d *D) bool { return d.K == KInt || d.K == KFloat }
	switch {
	case isNum(a) && isNum(b):
		if !numEq(a, b, loose) {
			return fmt.Sprintf("%s: %s vs %s", path, a, b)
		}
		return ""
	case (a.K == KMap || a.K == KObj) && (b.K == KMap || b.K == KObj):
		return c.mapEq(a, b, depth, path, loose)
	}
	if a.K != b.K {
		return fmt.Sprintf("%s: %s vs %s", path, a, b)
	}
	switch a.K {
	case KBool:
		if a.B != b.B {
			return fmt.Sprintf("%s: %v vs %v", path, a.B, b.B)
		}
	case KStr, KBytes, KUUID:
		if a.S != b.S {
			return fmt.Sprintf("%s: %s vs %s", path, a, b)
		}
	case KTime:
		if !a.T.Equal(b.T) {
			return fmt.Sprintf("%s: instant %s vs %s", path, a.T.Format(time.RFC3339Nano), b.T.Format(time.RFC3339Nano))
		}
		if a.UTC != b.UTC {
			return fmt.Sprintf("%s: UTC flag %v vs %v", path, a.UTC, b.UTC)
		}
	case KList:
		if len(a.List) != len(b.List) {
			return fmt.Sprintf("%s: list len %d vs %d", path, len(a.List), len(b.List))
		}
		for i := range a.List {
			if why := c.dequal(a.List[i], b.List[i], depth+1, fmt.Sprintf("%s[%d]", path, i), loose); why != "" {
				return why
			}
		}
	}
	return ""
}

func keyString(d *D) string {
	switch d.K {
	case KInt:
		return "n:" + d.I.String()
	case KFloat:
		if d.F32 {
			return fmt.Sprintf("f:%v", float32(d.F))
		}
		return fmt.Sprintf("f:%v", d.F)
	case KStr:
		return "s:" + d.S
	case KBytes:
		return "b:" + d.S
	case KBool:
		return fmt.Sprintf("t:%v", d.B)
	case KUUID:
		return "g:" + d.S
	case KNil:
		return "nil"
	case KTime:
		return "T:" + d.T.UTC().Format(time.RFC3339Nano)
	case KList:
		var sb strings.Builder
		sb.WriteString("l:[")
		for _, x := range d.List {
			sb.WriteString(keyString(x))
			sb.WriteString(",")
		}
		sb.WriteString("]")
		return sb.String()
	}
	return fmt.Sprintf("?%d", d.K)
}

func (c *cmp) mapEq(a, b *D, depth int, path string, loose bool) string {
	ka := func(d *D, i int) string {
		if d.K == KObj {
			return "s:" + d.Field[i]
		}
		return keyString(d.Keys[i])
	}
	if a.K == KObj && b.K == KObj && a.Class != b.Class {
		return fmt.Sprintf("%s: class %q vs %q", path, a.Class, b.Class)
	}
	if len(a.Vals) != len(b.Vals) {
		return fmt.Sprintf("%s: %d entries vs %d (%s vs %s)", path, len(a.Vals), len(b.Vals), a, b)
	}
	idx := map[string]int{}
	for i := range b.Vals {
		idx[ka(b, i)] = i
	}
	keys := make([]string, 0, len(a.Vals))
	ai := map[string]int{}
	for i := range a.Vals {
		k := ka(a, i)
		keys = append(keys, k)
		ai[k] = i
	}
	sort.Strings(keys)
	for _, k := range keys {
		j, ok := idx[k]
		if !ok {
			// float32-provenance keys: fall back to a linear search with numeric equality
			found := -1
			i := ai[k]
			if a.K != KObj {
				for jj := range b.Vals {
					if b.K != KObj && (&cmp{seen: map[[2]*D]bool{}}).dequal(a.Keys[i], b.Keys[jj], depth+1, "", loose) == "" {
						found = jj
						break
					}
				}
			}
			if found < 0 {
				return fmt.Sprintf("%s: key %s missing on the other side (%s vs %s)", path, clip(k), a, b)
			}
			j = found
		}
		if why := c.dequal(a.Vals[ai[k]], b.Vals[j], depth+1, path+"["+clip(k)+"]", loose); why != "" {
			return why
		}
	}
	return ""
}

var _ = utf8.RuneError
