package hpref

import (
	"os"
	"path/filepath"
	"regexp"
	"strconv"
	"testing"
)

// Calibration: every literal expected stream in /repo/io/*_test.go of the form `"...stream..."`
// used with assert.Equal(t, `...`, sb.String()) must parse. We extract back-quoted and
// double-quoted literals that look like hprose streams and only require that those which
// the repository's own decoder tests treat as valid parse here too; this test prints
// statistics and fails only on the hand-written vectors below.
func TestVectors(t *testing.T) {
	good := []string{
		`0`, `9`, `i10;`, `i-2147483648;`, `l9223372036854775807;`, `d3.14;`, `d1e+21;`, `N`, `I+`, `I-`, `n`, `e`, `t`, `f`,
		`uA`, "u\xe4\xb8\xad", `s2"ab"`, "s2\"\xf0\x9f\x98\x80\"", `s""`, `b""`, `b2"ab"`, `g{550e8400-e29b-41d4-a716-446655440000}`,
		`D20220227;`, `D20220227Z`, `D20220227T235959.999Z`, `D20220227T235959.999999;`, `T123456Z`, `T123456.123456789;`,
		`a{}`, `a2{12}`, `a2{s2"ab"r1;}`, `m1{ua1}`, `m{}`, `c3"One"1{s1"a"}o0{1}`, `a2{c3"One"1{s1"a"}o0{1}o0{2}}`,
		`a2{c3"One"1{s1"a"}o0{s2"xx"}r3;}`, `Es5"error"`,
	}
	for _, g := range good {
		if _, _, err := Parse([]byte(g)); err != nil {
			t.Errorf("good vector %q rejected: %v", g, err)
		}
	}
	bad := []string{
		``, `i;`, `i1`, `i12a;`, `i2147483648;`, `dabc;`, `s2"a"`, `s1"ab"`, `s1"` + "\xf0\x9f\x98\x80" + `"`, `b3"ab"`, `a2{1}`, `a1{12}`, `a1{1`, `m1{1}`,
		`r0;`, `a1{r1;}`, `o0{}`, `c3"One"1{1}o0{1}`, `g{550e8400e29b41d4a716446655440000}`, `D20220230;`, `D20221301;`, `T250000;`, `D20220227`, `x`, `12`, `nn`,
		`T123456.12;`, `s-1""`, `a-1{}`, `I`, `Ix`, "u\xff",
	}
	for _, b := range bad {
		if _, _, err := Parse([]byte(b)); err == nil {
			t.Errorf("bad vector %q accepted", b)
		}
	}
}

// TestRepoLiterals extracts stream literals from the repository's encoder tests.
func TestRepoLiterals(t *testing.T) {
	files, _ := filepath.Glob("/repo/io/*encoder_test.go")
	re := regexp.MustCompile("assert\\.Equal\\(t, (`[^`]*`|\"(?:[^\"\\\\]|\\\\.)*\"), sb\\.String\\(\\)\\)")
	n, ok := 0, 0
	for _, f := range files {
		b, err := os.ReadFile(f)
		if err != nil {
			continue
		}
		for _, m := range re.FindAllSubmatch(b, -1) {
			lit := string(m[1])
			s, err := strconv.Unquote(lit)
			if err != nil {
				continue
			}
			n++
			if _, _, err := ParseAll([]byte(s), -1); err != nil {
				t.Logf("%s: literal %q: %v", filepath.Base(f), s, err)
			} else {
				ok++
			}
		}
	}
	t.Logf("repository encoder-test literals: %d found, %d parsed", n, ok)
	if n > 0 && ok*100/n < 95 {
		t.Errorf("fewer than 95%% of the repository's expected streams parse: %d/%d", ok, n)
	}
}
