// Package hpref is an independent reader and writer for the Hprose serialization format,
// written from the format grammar and sharing no code with /repo/io. It is the reference
// the checks use to decide whether a stream is well formed and what it denotes.
package hpref

import (
	"errors"
	"fmt"
	"math"
	"math/big"
	"strconv"
	"time"

	"verif/internal/eqv"
)

// Reader parses one stream with one reference scope.
type Reader struct {
	b       []byte
	pos     int
	refs    []*eqv.D
	classes []class
	// Stats
	NRefUse  int // number of r tokens resolved
	NRefable int // number of referable items defined
	NClass   int
	NObj     int // number of object bodies (o tokens)
	NList    int
	NMap     int
	MaxDepth int
	depth    int
	Loc      *time.Location // zone used for non-UTC times (default time.Local)
}

type class struct {
	name   string
	fields []string
}

// NewReader creates a reader over b.
func NewReader(b []byte) *Reader { return &Reader{b: b, Loc: time.Local} }

// Pos returns the current offset.
func (r *Reader) Pos() int { return r.pos }

// Rest returns the unread bytes.
func (r *Reader) Rest() []byte { return r.b[r.pos:] }

// ResetRefs starts a new reference scope (the RPC envelope has several).
func (r *Reader) ResetRefs() { r.refs = nil; r.classes = nil }

var errEOF = errors.New("hpref: unexpected end of stream")

func (r *Reader) errf(format string, args ...interface{}) error {
	return fmt.Errorf("hpref: at offset %d: %s", r.pos, fmt.Sprintf(format, args...))
}

func (r *Reader) next() (byte, error) {
	if r.pos >= len(r.b) {
		return 0, errEOF
	}
	c := r.b[r.pos]
	r.pos++
	return c, nil
}

func (r *Reader) expect(c byte) error {
	x, err := r.next()
	if err != nil {
		return err
	}
	if x != c {
		r.pos--
		return r.errf("expected %q, found %q", c, x)
	}
	return nil
}

// readUntil reads up to (not including) the delimiter, which is consumed.
func (r *Reader) readUntil(delim byte) (string, error) {
	start := r.pos
	for r.pos < len(r.b) {
		if r.b[r.pos] == delim {
			s := string(r.b[start:r.pos])
			r.pos++
			return s, nil
		}
		r.pos++
	}
	return "", errEOF
}

// readCount reads an optional non-negative decimal count terminated by delim (absent = 0).
func (r *Reader) readCount(delim byte) (int, error) {
	s, err := r.readUntil(delim)
	if err != nil {
		return 0, err
	}
	if s == "" {
		return 0, nil
	}
	for _, c := range []byte(s) {
		if c < '0' || c > '9' {
			return 0, r.errf("bad count %q", s)
		}
	}
	if len(s) > 9 {
		return 0, r.errf("count %q too large", s)
	}
	n, _ := strconv.Atoi(s)
	return n, nil
}

func isInt(s string) bool {
	if s == "" {
		return false
	}
	i := 0
	if s[0] == '-' || s[0] == '+' {
		i = 1
	}
	if i == len(s) {
		return false
	}
	for ; i < len(s); i++ {
		if s[i] < '0' || s[i] > '9' {
			return false
		}
	}
	return true
}

// readUTF16 reads n UTF-16 code units worth of UTF-8.
func (r *Reader) readUTF16(n int) (string, error) {
	start := r.pos
	for n > 0 {
		if r.pos >= len(r.b) {
			return "", errEOF
		}
		c := r.b[r.pos]
		var size, units int
		switch {
		case c&0x80 == 0:
			size, units = 1, 1
		case c&0xe0 == 0xc0:
			size, units = 2, 1
		case c&0xf0 == 0xe0:
			size, units = 3, 1
		case c&0xf8 == 0xf0:
			size, units = 4, 2
		default:
			return "", r.errf("invalid UTF-8 lead byte 0x%02x in string", c)
		}
		if r.pos+size > len(r.b) {
			return "", errEOF
		}
		for k := 1; k < size; k++ {
			if r.b[r.pos+k]&0xc0 != 0x80 {
				return "", r.errf("invalid UTF-8 continuation byte in string")
			}
		}
		if units > n {
			return "", r.errf("string length splits a surrogate pair")
		}
		r.pos += size
		n -= units
	}
	return string(r.b[start:r.pos]), nil
}

func (r *Reader) addRef(d *eqv.D) {
	r.refs = append(r.refs, d)
	r.NRefable++
}

func digits(s string) bool {
	for i := 0; i < len(s); i++ {
		if s[i] < '0' || s[i] > '9' {
			return false
		}
	}
	return true
}

func (r *Reader) readDateBody() (y, m, d int, err error) {
	if r.pos+8 > len(r.b) {
		return 0, 0, 0, errEOF
	}
	s := string(r.b[r.pos : r.pos+8])
	if !digits(s) {
		return 0, 0, 0, r.errf("bad date %q", s)
	}
	r.pos += 8
	y, _ = strconv.Atoi(s[0:4])
	m, _ = strconv.Atoi(s[4:6])
	d, _ = strconv.Atoi(s[6:8])
	return
}

func (r *Reader) readTimeBody() (h, mi, s, ns int, err error) {
	if r.pos+6 > len(r.b) {
		return 0, 0, 0, 0, errEOF
	}
	t := string(r.b[r.pos : r.pos+6])
	if !digits(t) {
		return 0, 0, 0, 0, r.errf("bad time %q", t)
	}
	r.pos += 6
	h, _ = strconv.Atoi(t[0:2])
	mi, _ = strconv.Atoi(t[2:4])
	s, _ = strconv.Atoi(t[4:6])
	if r.pos < len(r.b) && r.b[r.pos] == '.' {
		r.pos++
		start := r.pos
		for r.pos < len(r.b) && r.b[r.pos] >= '0' && r.b[r.pos] <= '9' {
			r.pos++
		}
		f := string(r.b[start:r.pos])
		if len(f) != 3 && len(f) != 6 && len(f) != 9 {
			return 0, 0, 0, 0, r.errf("fraction %q must have 3, 6 or 9 digits", f)
		}
		for len(f) < 9 {
			f += "0"
		}
		ns, _ = strconv.Atoi(f)
	}
	return
}

func (r *Reader) zone() (*time.Location, error) {
	c, err := r.next()
	if err != nil {
		return nil, err
	}
	switch c {
	case 'Z':
		return time.UTC, nil
	case ';':
		return r.Loc, nil
	}
	r.pos--
	return nil, r.errf("expected Z or ; after date/time, found %q", c)
}

func validDate(y, m, d int) bool {
	if m < 1 || m > 12 || d < 1 {
		return false
	}
	t := time.Date(y, time.Month(m), d, 0, 0, 0, 0, time.UTC)
	return t.Year() == y && int(t.Month()) == m && t.Day() == d
}

// ReadValue parses exactly one value.
func (r *Reader) ReadValue() (*eqv.D, error) {
	r.depth++
	if r.depth > r.MaxDepth {
		r.MaxDepth = r.depth
	}
	defer func() { r.depth-- }()
	if r.depth > 2000 {
		return nil, r.errf("nesting too deep")
	}
	tag, err := r.next()
	if err != nil {
		return nil, err
	}
	switch {
	case tag >= '0' && tag <= '9':
		return &eqv.D{K: eqv.KInt, I: big.NewInt(int64(tag - '0'))}, nil
	}
	switch tag {
	case 'n':
		return &eqv.D{K: eqv.KNil}, nil
	case 'e':
		return &eqv.D{K: eqv.KStr, S: ""}, nil
	case 't':
		return &eqv.D{K: eqv.KBool, B: true}, nil
	case 'f':
		return &eqv.D{K: eqv.KBool, B: false}, nil
	case 'N':
		return &eqv.D{K: eqv.KFloat, F: math.NaN()}, nil
	case 'I':
		c, err := r.next()
		if err != nil {
			return nil, err
		}
		switch c {
		case '+':
			return &eqv.D{K: eqv.KFloat, F: math.Inf(1)}, nil
		case '-':
			return &eqv.D{K: eqv.KFloat, F: math.Inf(-1)}, nil
		}
		r.pos--
		return nil, r.errf("expected + or - after I")
	case 'i', 'l':
		s, err := r.readUntil(';')
		if err != nil {
			return nil, err
		}
		if !isInt(s) {
			return nil, r.errf("bad integer %q", s)
		}
		bi, _ := new(big.Int).SetString(s, 10)
		if tag == 'i' && (bi.Cmp(big.NewInt(math.MaxInt32)) > 0 || bi.Cmp(big.NewInt(math.MinInt32)) < 0) {
			return nil, r.errf("integer token %q outside the 32-bit range", s)
		}
		return &eqv.D{K: eqv.KInt, I: bi}, nil
	case 'd':
		s, err := r.readUntil(';')
		if err != nil {
			return nil, err
		}
		f, perr := strconv.ParseFloat(s, 64)
		if perr != nil {
			if ne, ok := perr.(*strconv.NumError); !ok || ne.Err != strconv.ErrRange {
				return nil, r.errf("bad double %q", s)
			}
		}
		for i := 0; i < len(s); i++ {
			c := s[i]
			if !(c >= '0' && c <= '9') && c != '.' && c != '-' && c != '+' && c != 'e' && c != 'E' {
				return nil, r.errf("bad double %q", s)
			}
		}
		d := &eqv.D{K: eqv.KFloat, F: f}
		if bf, _, e := big.ParseFloat(s, 10, 2000, big.ToNearestEven); e == nil {
			d.Big = bf
		}
		return d, nil
	case 'D':
		y, m, dd, err := r.readDateBody()
		if err != nil {
			return nil, err
		}
		if !validDate(y, m, dd) {
			return nil, r.errf("invalid calendar date %04d-%02d-%02d", y, m, dd)
		}
		var h, mi, s, ns int
		if r.pos < len(r.b) && r.b[r.pos] == 'T' {
			r.pos++
			if h, mi, s, ns, err = r.readTimeBody(); err != nil {
				return nil, err
			}
		}
		if h > 23 || mi > 59 || s > 59 {
			return nil, r.errf("invalid clock %02d:%02d:%02d", h, mi, s)
		}
		loc, err := r.zone()
		if err != nil {
			return nil, err
		}
		d := &eqv.D{K: eqv.KTime, T: time.Date(y, time.Month(m), dd, h, mi, s, ns, loc), UTC: loc == time.UTC}
		r.addRef(d)
		return d, nil
	case 'T':
		h, mi, s, ns, err := r.readTimeBody()
		if err != nil {
			return nil, err
		}
		if h > 23 || mi > 59 || s > 59 {
			return nil, r.errf("invalid clock %02d:%02d:%02d", h, mi, s)
		}
		loc, err := r.zone()
		if err != nil {
			return nil, err
		}
		d := &eqv.D{K: eqv.KTime, T: time.Date(1970, 1, 1, h, mi, s, ns, loc), UTC: loc == time.UTC}
		r.addRef(d)
		return d, nil
	case 'b':
		n, err := r.readCount('"')
		if err != nil {
			return nil, err
		}
		if r.pos+n > len(r.b) {
			return nil, errEOF
		}
		d := &eqv.D{K: eqv.KBytes, S: string(r.b[r.pos : r.pos+n])}
		r.pos += n
		if err := r.expect('"'); err != nil {
			return nil, err
		}
		r.addRef(d)
		return d, nil
	case 'u':
		s, err := r.readUTF16(1)
		if err != nil {
			return nil, err
		}
		return &eqv.D{K: eqv.KStr, S: s}, nil
	case 's':
		s, err := r.readString()
		if err != nil {
			return nil, err
		}
		d := &eqv.D{K: eqv.KStr, S: s}
		r.addRef(d)
		return d, nil
	case 'g':
		if err := r.expect('{'); err != nil {
			return nil, err
		}
		if r.pos+36 > len(r.b) {
			return nil, errEOF
		}
		s := string(r.b[r.pos : r.pos+36])
		for i := 0; i < 36; i++ {
			c := s[i]
			if i == 8 || i == 13 || i == 18 || i == 23 {
				if c != '-' {
					return nil, r.errf("bad GUID %q", s)
				}
			} else if !((c >= '0' && c <= '9') || (c >= 'a' && c <= 'f') || (c >= 'A' && c <= 'F')) {
				return nil, r.errf("bad GUID %q", s)
			}
		}
		r.pos += 36
		if err := r.expect('}'); err != nil {
			return nil, err
		}
		d := &eqv.D{K: eqv.KUUID, S: lower(s)}
		r.addRef(d)
		return d, nil
	case 'a':
		n, err := r.readCount('{')
		if err != nil {
			return nil, err
		}
		d := &eqv.D{K: eqv.KList, List: []*eqv.D{}}
		r.addRef(d)
		r.NList++
		for i := 0; i < n; i++ {
			x, err := r.ReadValue()
			if err != nil {
				return nil, err
			}
			d.List = append(d.List, x)
		}
		if err := r.expect('}'); err != nil {
			return nil, err
		}
		return d, nil
	case 'm':
		n, err := r.readCount('{')
		if err != nil {
			return nil, err
		}
		d := &eqv.D{K: eqv.KMap}
		r.addRef(d)
		r.NMap++
		for i := 0; i < n; i++ {
			k, err := r.ReadValue()
			if err != nil {
				return nil, err
			}
			v, err := r.ReadValue()
			if err != nil {
				return nil, err
			}
			d.Keys = append(d.Keys, k)
			d.Vals = append(d.Vals, v)
		}
		if err := r.expect('}'); err != nil {
			return nil, err
		}
		return d, nil
	case 'c':
		name, err := r.readString()
		if err != nil {
			return nil, err
		}
		n, err := r.readCount('{')
		if err != nil {
			return nil, err
		}
		c := class{name: name}
		for i := 0; i < n; i++ {
			f, err := r.ReadValue()
			if err != nil {
				return nil, err
			}
			if f.K != eqv.KStr {
				return nil, r.errf("class field name is not a string")
			}
			c.fields = append(c.fields, f.S)
		}
		if err := r.expect('}'); err != nil {
			return nil, err
		}
		r.classes = append(r.classes, c)
		r.NClass++
		// a class definition is followed by the value it was written for
		return r.ReadValue()
	case 'o':
		idx, err := r.readCount('{')
		if err != nil {
			return nil, err
		}
		if idx >= len(r.classes) {
			return nil, r.errf("object uses class %d but only %d classes are defined", idx, len(r.classes))
		}
		c := r.classes[idx]
		d := &eqv.D{K: eqv.KObj, Class: c.name}
		r.addRef(d)
		r.NObj++
		for _, f := range c.fields {
			v, err := r.ReadValue()
			if err != nil {
				return nil, err
			}
			d.Field = append(d.Field, f)
			d.Vals = append(d.Vals, v)
		}
		if err := r.expect('}'); err != nil {
			return nil, err
		}
		return d, nil
	case 'r':
		s, err := r.readUntil(';')
		if err != nil {
			return nil, err
		}
		if s == "" || !digits(s) || len(s) > 9 {
			return nil, r.errf("bad reference index %q", s)
		}
		idx, _ := strconv.Atoi(s)
		if idx >= len(r.refs) {
			return nil, r.errf("reference %d points at an item that has not been written (only %d so far)", idx, len(r.refs))
		}
		r.NRefUse++
		return r.refs[idx], nil
	case 'E':
		// error value: E followed by a string value
		v, err := r.ReadValue()
		if err != nil {
			return nil, err
		}
		if v.K != eqv.KStr {
			return nil, r.errf("E must be followed by a string")
		}
		return &eqv.D{K: eqv.KObj, Class: "!error", Field: []string{"message"}, Vals: []*eqv.D{v}}, nil
	}
	r.pos--
	return nil, r.errf("illegal tag %q (0x%02x)", tag, tag)
}

func lower(s string) string {
	b := []byte(s)
	for i, c := range b {
		if c >= 'A' && c <= 'F' {
			b[i] = c + 32
		}
	}
	return string(b)
}

// readString reads <len>"<utf8>" after an s or c tag.
func (r *Reader) readString() (string, error) {
	n, err := r.readCount('"')
	if err != nil {
		return "", err
	}
	s, err := r.readUTF16(n)
	if err != nil {
		return "", err
	}
	if err := r.expect('"'); err != nil {
		return "", err
	}
	return s, nil
}

// ParseAll parses a stream that must consist of exactly n values (n < 0: any number ≥ 1)
// with nothing after them.
func ParseAll(b []byte, n int) ([]*eqv.D, *Reader, error) {
	r := NewReader(b)
	var out []*eqv.D
	for r.pos < len(r.b) {
		v, err := r.ReadValue()
		if err != nil {
			return out, r, err
		}
		out = append(out, v)
		if n >= 0 && len(out) > n {
			return out, r, fmt.Errorf("hpref: more than %d values in stream", n)
		}
	}
	if n >= 0 && len(out) != n {
		return out, r, fmt.Errorf("hpref: %d values in stream, expected %d", len(out), n)
	}
	if len(out) == 0 {
		return out, r, errEOF
	}
	return out, r, nil
}

// Parse parses a stream holding exactly one value.
func Parse(b []byte) (*eqv.D, *Reader, error) {
	vs, r, err := ParseAll(b, 1)
	if err != nil {
		return nil, r, err
	}
	return vs[0], r, nil
}
