package hpref

import (
	"math"
	"sort"
	"strconv"
	"strings"

	"verif/internal/eqv"
)

// Writer serialises denotations to Hprose, independently of /repo/io. It writes the plain
// ("simple mode") spelling: no back-references; class definitions are emitted before their
// first instance. Spell selects alternative legal spellings.
type Writer struct {
	b       []byte
	classes map[string]int
	// LongInts writes small integers in their long form (i5; instead of 5).
	LongInts bool
	// LongStrings writes empty and one-character strings as s""/s1"a" instead of e/ua.
	LongStrings bool
	// SortKeys writes map entries in a deterministic order.
	SortKeys bool
}

// NewWriter returns a writer.
func NewWriter() *Writer { return &Writer{classes: map[string]int{}, SortKeys: true} }

// Bytes returns what was written.
func (w *Writer) Bytes() []byte { return w.b }

func utf16len(s string) int {
	n := 0
	for _, r := range s {
		if r >= 0x10000 {
			n += 2
		} else {
			n++
		}
	}
	return n
}

func (w *Writer) str(s string) {
	n := utf16len(s)
	if !w.LongStrings {
		if n == 0 {
			w.b = append(w.b, 'e')
			return
		}
		if n == 1 {
			w.b = append(w.b, 'u')
			w.b = append(w.b, s...)
			return
		}
	}
	w.rawStr('s', s, n)
}

func (w *Writer) rawStr(tag byte, s string, n int) {
	w.b = append(w.b, tag)
	if n > 0 {
		w.b = strconv.AppendInt(w.b, int64(n), 10)
	}
	w.b = append(w.b, '"')
	w.b = append(w.b, s...)
	w.b = append(w.b, '"')
}

// Write appends one value.
func (w *Writer) Write(d *eqv.D) {
	switch d.K {
	case eqv.KNil:
		w.b = append(w.b, 'n')
	case eqv.KBool:
		if d.B {
			w.b = append(w.b, 't')
		} else {
			w.b = append(w.b, 'f')
		}
	case eqv.KInt:
		if d.I.IsInt64() {
			v := d.I.Int64()
			if v >= 0 && v <= 9 && !w.LongInts {
				w.b = append(w.b, byte('0'+v))
				return
			}
			if v >= math.MinInt32 && v <= math.MaxInt32 {
				w.b = append(w.b, 'i')
				w.b = strconv.AppendInt(w.b, v, 10)
				w.b = append(w.b, ';')
				return
			}
		}
		w.b = append(w.b, 'l')
		w.b = append(w.b, d.I.String()...)
		w.b = append(w.b, ';')
	case eqv.KFloat:
		switch {
		case math.IsNaN(d.F):
			w.b = append(w.b, 'N')
		case math.IsInf(d.F, 1):
			w.b = append(w.b, 'I', '+')
		case math.IsInf(d.F, -1):
			w.b = append(w.b, 'I', '-')
		default:
			w.b = append(w.b, 'd')
			bits := 64
			if d.F32 {
				bits = 32
			}
			w.b = strconv.AppendFloat(w.b, d.F, 'g', -1, bits)
			w.b = append(w.b, ';')
		}
	case eqv.KStr:
		w.str(d.S)
	case eqv.KBytes:
		w.rawStr('b', d.S, len(d.S))
	case eqv.KUUID:
		w.b = append(w.b, 'g', '{')
		w.b = append(w.b, d.S...)
		w.b = append(w.b, '}')
	case eqv.KTime:
		t := d.T
		y, mo, da := t.Date()
		h, mi, s := t.Clock()
		ns := t.Nanosecond()
		two := func(v int) { w.b = append(w.b, byte('0'+v/10), byte('0'+v%10)) }
		date := func() {
			w.b = append(w.b, 'D')
			two(y / 100)
			two(y % 100)
			two(int(mo))
			two(da)
		}
		clock := func() {
			w.b = append(w.b, 'T')
			two(h)
			two(mi)
			two(s)
			if ns != 0 {
				f := strconv.Itoa(1000000000 + ns)[1:]
				switch {
				case ns%1000000 == 0:
					f = f[:3]
				case ns%1000 == 0:
					f = f[:6]
				}
				w.b = append(w.b, '.')
				w.b = append(w.b, f...)
			}
		}
		switch {
		case h == 0 && mi == 0 && s == 0 && ns == 0:
			date()
		case y == 1970 && mo == 1 && da == 1:
			clock()
		default:
			date()
			clock()
		}
		if d.UTC {
			w.b = append(w.b, 'Z')
		} else {
			w.b = append(w.b, ';')
		}
	case eqv.KList:
		w.b = append(w.b, 'a')
		if len(d.List) > 0 {
			w.b = strconv.AppendInt(w.b, int64(len(d.List)), 10)
		}
		w.b = append(w.b, '{')
		for _, x := range d.List {
			w.Write(x)
		}
		w.b = append(w.b, '}')
	case eqv.KMap:
		w.b = append(w.b, 'm')
		if len(d.Vals) > 0 {
			w.b = strconv.AppendInt(w.b, int64(len(d.Vals)), 10)
		}
		w.b = append(w.b, '{')
		idx := make([]int, len(d.Vals))
		for i := range idx {
			idx[i] = i
		}
		if w.SortKeys {
			sort.Slice(idx, func(a, b int) bool { return d.Keys[idx[a]].String() < d.Keys[idx[b]].String() })
		}
		for _, i := range idx {
			w.Write(d.Keys[i])
			w.Write(d.Vals[i])
		}
		w.b = append(w.b, '}')
	case eqv.KObj:
		key := d.Class + "\x00" + strings.Join(d.Field, "\x00")
		ci, ok := w.classes[key]
		if !ok {
			ci = len(w.classes)
			w.classes[key] = ci
			w.rawStr('c', d.Class, utf16len(d.Class))
			if len(d.Field) > 0 {
				w.b = strconv.AppendInt(w.b, int64(len(d.Field)), 10)
			}
			w.b = append(w.b, '{')
			for _, f := range d.Field {
				w.rawStr('s', f, utf16len(f))
			}
			w.b = append(w.b, '}')
		}
		w.b = append(w.b, 'o')
		w.b = strconv.AppendInt(w.b, int64(ci), 10)
		w.b = append(w.b, '{')
		for _, v := range d.Vals {
			w.Write(v)
		}
		w.b = append(w.b, '}')
	}
}

// Marshal writes one denotation (acyclic) in the plain spelling.
func Marshal(d *eqv.D) []byte {
	w := NewWriter()
	w.Write(d)
	return w.Bytes()
}
