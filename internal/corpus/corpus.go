// Package corpus enumerates the (type, value) universe shared by the io checks.
package corpus

import (
	"fmt"
	"math/rand"
	"reflect"

	"verif/internal/gen"
	"verif/internal/gentypes"
)

// IfaceExtra are named-type values placed in interface{} positions.
func IfaceExtra() []interface{} {
	one, two := 1, 2
	n2 := &gentypes.Node{V: 2}
	n1 := &gentypes.Node{V: 1, Next: n2}
	return []interface{}{
		&gentypes.One{A: 5}, gentypes.One{A: 6}, &gentypes.OnePtr{P: &one}, gentypes.OnePtr{P: &one}, gentypes.OneMap{M: map[string]int{"k": 1}},
		&gentypes.Scalars{B: true, I: -1, I8: -8, U64: 1 << 63, F32: 0.1, F64: 1e100, S: "s"}, gentypes.Scalars{S: "value"},
		n1, &gentypes.Tagged{X: 1, Y: "y", Z: 0, W: true, Upper: "U", Unicode: "名"}, &gentypes.Embeds{Inner: gentypes.Inner{IA: 1, IB: "b"}, InnerP: &gentypes.InnerP{PA: 2.5}, Name: "n"},
		&gentypes.Empty{}, gentypes.Empty{},
		[]*gentypes.One{{A: 1}, nil, {A: 2}}, []gentypes.One{{A: 1}}, map[string]*gentypes.One{"a": {A: 1}},
		gentypes.MyInt(5), gentypes.MyString("named"), gentypes.MyFloat32(1.5), gentypes.MyBytes("nb"), gentypes.MyIntSlice{1, 2}, gentypes.MyStrMap{"k": 2},
		// lists whose elements have one type (typed slices under ListTypeSlice), of struct values
		// and pointers of every one-field shape, and lists whose elements only share their kind
		[]interface{}{gentypes.OnePtr{P: &one}, gentypes.OnePtr{P: &two}}, []interface{}{&gentypes.OnePtr{P: &one}, &gentypes.OnePtr{P: &two}},
		[]interface{}{gentypes.One{A: 1}, gentypes.One{A: 2}}, []interface{}{gentypes.OneMap{M: map[string]int{"a": 1}}, gentypes.OneMap{M: map[string]int{"b": 2}}},
		[]interface{}{gentypes.OneStr{S: "x"}, gentypes.OneStr{S: "y"}}, []interface{}{gentypes.Scalars{S: "p"}, gentypes.Scalars{S: "q", I: 4}},
		[]interface{}{&gentypes.One{A: 1}, &gentypes.OneStr{S: "other type"}}, []interface{}{gentypes.One{A: 1}, gentypes.OneStr{S: "other type"}},
		[]interface{}{[]int{1, 2}, []string{"abc"}}, []interface{}{[]interface{}{1, 2}, []interface{}{"abc"}}, []interface{}{map[string]int{"a": 1}, map[int]string{1: "x"}},
		[]interface{}{map[string]interface{}{"a": 1}, map[string]interface{}{"b": "x"}}, []interface{}{int8(1), int8(2)}, []interface{}{"s", "t"}, []interface{}{1.5, 2.5}, []interface{}{1, 2.5},
	}
}

// Entry is one type of the universe.
type Entry struct {
	gen.Labeled
	Block string // leaf, depth1, mapcell, depth2, random
	Max   int    // cap of the systematic value list (0 = no cap)
}

// Universe lists the types: every leaf, every constructor applied to every leaf (depth 1),
// every pair of constructors (depth 2), all 225 specialised map cells, and nRandom seeded
// random types up to the given depth.
func Universe(seed int64, depth2Max, nRandom, depth int) []Entry {
	var out []Entry
	for _, l := range gen.Leaves() {
		out = append(out, Entry{gen.Labeled{T: l, Label: l.String()}, "leaf", 0})
	}
	for _, l := range gen.Depth1() {
		out = append(out, Entry{l, "depth1", 48})
	}
	for _, l := range gen.MapCells() {
		out = append(out, Entry{l, "mapcell", 40})
	}
	for _, l := range gen.Depth2() {
		out = append(out, Entry{l, "depth2", depth2Max})
	}
	rng := rand.New(rand.NewSource(seed*7919 + 13))
	for i := 0; i < nRandom; i++ {
		l := gen.RandomType(rng, depth)
		l.Label = fmt.Sprintf("rnd%d:%s", i, l.Label)
		out = append(out, Entry{l, "random", 8})
	}
	return out
}

// Values returns the value list of an entry under the case's PRNG.
func Values(e Entry, rng *rand.Rand) []reflect.Value {
	g := &gen.Gen{Rng: rng, IfaceExtra: IfaceExtra()}
	if e.Block == "leaf" || e.Block == "depth1" {
		g.AllTimes = true
	}
	return g.Values(e.T, e.Max)
}

// Clip renders a value for replay records.
func Clip(v reflect.Value, n int) string {
	if v.Kind() == reflect.Interface && v.IsNil() {
		return "nil"
	}
	s := fmt.Sprintf("%#v", v.Interface())
	if len(s) > n {
		s = s[:n] + "…"
	}
	return s
}

// Iface returns v as interface{} (nil for a nil interface value).
func Iface(v reflect.Value) interface{} {
	if v.Kind() == reflect.Interface && v.IsNil() {
		return nil
	}
	return v.Interface()
}
