// Package peer starts real hprose servers on ephemeral loopback endpoints for every transport
// and provides raw (scripted) peers that speak the transports' frame formats, written from the
// wire formats and independent of the repository's transport code.
package peer

import (
	"context"
	"encoding/binary"
	"errors"
	"fmt"
	"hash/crc32"
	"io"
	"net"
	nethttp "net/http"
	"os"
	"path/filepath"
	"sync"
	"sync/atomic"
	"time"

	fws "github.com/fasthttp/websocket"
	"github.com/hprose/hprose-golang/v3/rpc/core"
	"github.com/hprose/hprose-golang/v3/rpc/http"
	rfasthttp "github.com/hprose/hprose-golang/v3/rpc/http/fasthttp"
	"github.com/hprose/hprose-golang/v3/rpc/mock"
	"github.com/hprose/hprose-golang/v3/rpc/socket"
	"github.com/hprose/hprose-golang/v3/rpc/udp"
	"github.com/hprose/hprose-golang/v3/rpc/websocket"
	"github.com/valyala/fasthttp"
)

// FastHTTPClient reports whether the fasthttp client transport was registered in this
// process (it re-maps the http scheme process-wide, so it gets processes of its own).
var FastHTTPClient = os.Getenv("VERIF_FASTHTTP") == "1"

var once sync.Once

// Register registers handlers and transports (idempotent).
func Register() {
	once.Do(func() {
		mock.RegisterHandler()
		mock.RegisterTransport()
		http.RegisterHandler()
		http.RegisterTransport()
		socket.RegisterHandler()
		socket.RegisterTransport()
		udp.RegisterHandler()
		udp.RegisterTransport()
		websocket.RegisterHandler()
		websocket.RegisterTransport()
		if FastHTTPClient {
			rfasthttp.RegisterTransport()
		}
	})
}

// Kinds lists the transport configurations. "http" and "ws" use a net/http server,
// "fasthttp" and "ws-fasthttp" a fasthttp server.
var Kinds = []string{"mock", "tcp", "unix", "udp", "http", "fasthttp", "ws", "ws-fasthttp"}

// Multiplexed are the kinds that multiplex calls on one connection.
var Multiplexed = []string{"tcp", "unix", "udp", "ws", "ws-fasthttp"}

// Server is a running server.
type Server struct {
	Kind    string
	URL     string // for core.NewClient
	Addr    string // host:port, unix path or mock name
	Service *core.Service
	close   func()
}

// Close stops the server.
func (s *Server) Close() {
	if s.close != nil {
		s.close()
	}
}

var seq int64

// Dir is the scratch directory for unix sockets.
func Dir() string {
	d := os.Getenv("VERIF_OUT")
	if d == "" {
		d = os.TempDir()
	}
	return d
}

// Start binds svc to a fresh endpoint of the given kind.
func Start(kind string, svc *core.Service) (*Server, error) {
	Register()
	n := atomic.AddInt64(&seq, 1)
	s := &Server{Kind: kind, Service: svc}
	switch kind {
	case "mock":
		s.Addr = fmt.Sprintf("peer-%d-%d", os.Getpid(), n)
		if err := svc.Bind(mock.Server{Address: s.Addr}); err != nil {
			return nil, err
		}
		s.URL = "mock://" + s.Addr
		s.close = func() { mock.Server{Address: s.Addr}.Close() }
	case "tcp":
		ln, err := net.Listen("tcp", "127.0.0.1:0")
		if err != nil {
			return nil, err
		}
		if err := svc.Bind(ln); err != nil {
			return nil, err
		}
		s.Addr = ln.Addr().String()
		s.URL = "tcp://" + s.Addr
		s.close = func() { ln.Close() }
	case "unix":
		path := filepath.Join(Dir(), fmt.Sprintf("p%d-%d.sock", os.Getpid()%100000, n))
		os.Remove(path)
		ln, err := net.Listen("unix", path)
		if err != nil {
			return nil, err
		}
		if err := svc.Bind(ln); err != nil {
			return nil, err
		}
		s.Addr = path
		s.URL = "unix://" + path
		s.close = func() { ln.Close(); os.Remove(path) }
	case "udp":
		conn, err := net.ListenUDP("udp", &net.UDPAddr{IP: net.IPv4(127, 0, 0, 1), Port: 0})
		if err != nil {
			return nil, err
		}
		conn.SetReadBuffer(8 << 20)
		conn.SetWriteBuffer(8 << 20)
		if err := svc.Bind(conn); err != nil {
			return nil, err
		}
		s.Addr = conn.LocalAddr().String()
		s.URL = "udp://" + s.Addr
		s.close = func() { conn.Close() }
	case "http", "ws":
		ln, err := net.Listen("tcp", "127.0.0.1:0")
		if err != nil {
			return nil, err
		}
		server := &nethttp.Server{}
		if err := svc.Bind(server); err != nil {
			return nil, err
		}
		go server.Serve(ln)
		s.Addr = ln.Addr().String()
		if kind == "http" {
			s.URL = "http://" + s.Addr + "/"
		} else {
			s.URL = "ws://" + s.Addr + "/"
		}
		s.close = func() { server.Close() }
	case "fasthttp", "ws-fasthttp":
		ln, err := net.Listen("tcp", "127.0.0.1:0")
		if err != nil {
			return nil, err
		}
		server := &fasthttp.Server{MaxRequestBodySize: 64 << 20, StreamRequestBody: false}
		if err := svc.Bind(server); err != nil {
			return nil, err
		}
		go server.Serve(ln)
		s.Addr = ln.Addr().String()
		if kind == "fasthttp" {
			s.URL = "http://" + s.Addr + "/"
		} else {
			s.URL = "ws://" + s.Addr + "/"
		}
		s.close = func() { ln.Close(); go server.Shutdown() }
	default:
		return nil, errors.New("unknown kind " + kind)
	}
	return s, nil
}

// NewClient returns a client for the server with no client-side timeout unless set.
func (s *Server) NewClient() *core.Client {
	Register()
	c := core.NewClient(s.URL)
	return c
}

// Ctx returns a context carrying an initialised ClientContext for raw Request calls.
func Ctx(c *core.Client, timeout time.Duration) (context.Context, *core.ClientContext) {
	cc := core.NewClientContext()
	cc.Timeout = timeout
	cc.Init(c)
	if timeout < 0 {
		cc.Timeout = 0
	}
	return core.WithContext(context.Background(), cc), cc
}

// ---- frame formats (written from the wire format) ----

// TCPFrame builds a tcp/unix frame: 4 bytes CRC32(IEEE) of bytes 4..11, 4 bytes length with
// the top bit set, 4 bytes index (top bit = error flag), body.
func TCPFrame(index uint32, body []byte, errFlag bool) []byte {
	return TCPFrameDeclared(index, uint32(len(body)), body, errFlag)
}

// TCPFrameDeclared declares another length than the body carries.
func TCPFrameDeclared(index, declared uint32, body []byte, errFlag bool) []byte {
	h := make([]byte, 12, 12+len(body))
	binary.BigEndian.PutUint32(h[4:], declared|0x80000000)
	if errFlag {
		index |= 0x80000000
	}
	binary.BigEndian.PutUint32(h[8:], index)
	binary.BigEndian.PutUint32(h[0:], crc32.ChecksumIEEE(h[4:12]))
	return append(h, body...)
}

// ReadTCPFrame reads one frame.
func ReadTCPFrame(r io.Reader) (index uint32, body []byte, errFlag bool, err error) {
	var h [12]byte
	if _, err = io.ReadFull(r, h[:]); err != nil {
		return
	}
	if crc32.ChecksumIEEE(h[4:12]) != binary.BigEndian.Uint32(h[0:]) {
		err = errors.New("peer: bad frame CRC")
		return
	}
	length := binary.BigEndian.Uint32(h[4:]) & 0x7fffffff
	index = binary.BigEndian.Uint32(h[8:])
	errFlag = index&0x80000000 != 0
	index &= 0x7fffffff
	if length > 64<<20 {
		err = errors.New("peer: frame too long")
		return
	}
	body = make([]byte, length)
	_, err = io.ReadFull(r, body)
	return
}

// UDPFrame builds a datagram: 4 bytes CRC32 of bytes 4..7, 2 bytes length, 2 bytes index
// (top bit = error flag), body.
func UDPFrame(index uint16, body []byte, errFlag bool) []byte {
	return UDPFrameDeclared(index, uint16(len(body)), body, errFlag)
}

// UDPFrameDeclared declares another length than the body carries.
func UDPFrameDeclared(index, declared uint16, body []byte, errFlag bool) []byte {
	h := make([]byte, 8, 8+len(body))
	binary.BigEndian.PutUint16(h[4:], declared)
	if errFlag {
		index |= 0x8000
	}
	binary.BigEndian.PutUint16(h[6:], index)
	binary.BigEndian.PutUint32(h[0:], crc32.ChecksumIEEE(h[4:8]))
	return append(h, body...)
}

// ParseUDPFrame parses a datagram.
func ParseUDPFrame(d []byte) (index uint16, declared int, body []byte, errFlag bool, err error) {
	if len(d) < 8 {
		err = errors.New("peer: short datagram")
		return
	}
	if crc32.ChecksumIEEE(d[4:8]) != binary.BigEndian.Uint32(d[0:]) {
		err = errors.New("peer: bad datagram CRC")
		return
	}
	declared = int(binary.BigEndian.Uint16(d[4:]))
	index = binary.BigEndian.Uint16(d[6:])
	errFlag = index&0x8000 != 0
	index &= 0x7fff
	body = d[8:]
	return
}

// WSFrame builds a websocket binary message payload: 4 bytes index (top bit error flag), body.
func WSFrame(index uint32, body []byte, errFlag bool) []byte {
	h := make([]byte, 4, 4+len(body))
	if errFlag {
		index |= 0x80000000
	}
	binary.BigEndian.PutUint32(h, index)
	return append(h, body...)
}

// ---- scripted raw servers ----

// RawReq is one request frame received by a RawServer.
type RawReq struct {
	Index uint32
	Body  []byte
	Conn  *RawConn
}

// RawConn is one accepted connection (or one udp peer address) of a RawServer.
type RawConn struct {
	ID    int
	write func(frame []byte) error // one frame / datagram / websocket message
	raw   func(b []byte) error     // arbitrary bytes (stream transports)
	close func()
	mu    sync.Mutex
}

// RawServer accepts connections of one transport kind and hands every request frame to Reqs.
type RawServer struct {
	Kind  string
	URL   string
	Addr  string
	Reqs  chan RawReq
	Conns chan *RawConn // every accepted connection
	stop  func()
	frame func(index uint32, body []byte, errFlag bool) []byte
}

// Close stops the server and closes every connection.
func (s *RawServer) Close() { s.stop() }

// Reply sends a well-formed response frame on the request's connection.
func (s *RawServer) Reply(c *RawConn, index uint32, body []byte, errFlag bool) error {
	c.mu.Lock()
	defer c.mu.Unlock()
	return c.write(s.frame(index, body, errFlag))
}

// Frame builds a response frame of the server's transport.
func (s *RawServer) Frame(index uint32, body []byte, errFlag bool) []byte {
	return s.frame(index, body, errFlag)
}

// WriteFrame sends one prebuilt frame / datagram / websocket message.
func (s *RawServer) WriteFrame(c *RawConn, frame []byte) error {
	c.mu.Lock()
	defer c.mu.Unlock()
	return c.write(frame)
}

// WriteRaw writes arbitrary bytes to a stream connection (tcp/unix; for the others it equals WriteFrame).
func (s *RawServer) WriteRaw(c *RawConn, b []byte) error {
	c.mu.Lock()
	defer c.mu.Unlock()
	if c.raw != nil {
		return c.raw(b)
	}
	return c.write(b)
}

// CloseConn closes one connection.
func (s *RawServer) CloseConn(c *RawConn) {
	if c.close != nil {
		c.close()
	}
}

// StartRaw starts a scripted server: kind in {tcp, unix, udp, ws}.
func StartRaw(kind string) (*RawServer, error) {
	Register()
	s := &RawServer{Kind: kind, Reqs: make(chan RawReq, 1<<16), Conns: make(chan *RawConn, 1024)}
	var connSeq int64
	var mu sync.Mutex
	var conns []*RawConn
	track := func(c *RawConn) {
		mu.Lock()
		conns = append(conns, c)
		mu.Unlock()
		select {
		case s.Conns <- c:
		default:
		}
	}
	closeAll := func() {
		mu.Lock()
		cs := conns
		conns = nil
		mu.Unlock()
		for _, c := range cs {
			if c.close != nil {
				c.close()
			}
		}
	}
	switch kind {
	case "tcp", "unix":
		var ln net.Listener
		var err error
		if kind == "tcp" {
			ln, err = net.Listen("tcp", "127.0.0.1:0")
			if err == nil {
				s.Addr = ln.Addr().String()
				s.URL = "tcp://" + s.Addr
			}
		} else {
			path := filepath.Join(Dir(), fmt.Sprintf("r%d-%d.sock", os.Getpid()%100000, atomic.AddInt64(&seq, 1)))
			os.Remove(path)
			ln, err = net.Listen("unix", path)
			s.Addr = path
			s.URL = "unix://" + path
		}
		if err != nil {
			return nil, err
		}
		s.frame = func(index uint32, body []byte, errFlag bool) []byte { return TCPFrame(index, body, errFlag) }
		go func() {
			for {
				conn, err := ln.Accept()
				if err != nil {
					return
				}
				rc := &RawConn{ID: int(atomic.AddInt64(&connSeq, 1))}
				rc.write = func(f []byte) error { _, err := conn.Write(f); return err }
				rc.raw = rc.write
				rc.close = func() { conn.Close() }
				track(rc)
				go func() {
					for {
						index, body, _, err := ReadTCPFrame(conn)
						if err != nil {
							return
						}
						s.Reqs <- RawReq{Index: index, Body: body, Conn: rc}
					}
				}()
			}
		}()
		s.stop = func() { ln.Close(); closeAll() }
	case "udp":
		pc, err := net.ListenUDP("udp", &net.UDPAddr{IP: net.IPv4(127, 0, 0, 1)})
		if err != nil {
			return nil, err
		}
		pc.SetReadBuffer(8 << 20)
		pc.SetWriteBuffer(8 << 20)
		s.Addr = pc.LocalAddr().String()
		s.URL = "udp://" + s.Addr
		s.frame = func(index uint32, body []byte, errFlag bool) []byte { return UDPFrame(uint16(index), body, errFlag) }
		peers := map[string]*RawConn{}
		go func() {
			buf := make([]byte, 65536)
			for {
				n, addr, err := pc.ReadFromUDP(buf)
				if err != nil {
					return
				}
				index, _, body, _, err := ParseUDPFrame(buf[:n])
				if err != nil {
					continue
				}
				rc := peers[addr.String()]
				if rc == nil {
					a := *addr
					rc = &RawConn{ID: int(atomic.AddInt64(&connSeq, 1))}
					rc.write = func(f []byte) error { _, err := pc.WriteToUDP(f, &a); return err }
					peers[addr.String()] = rc
					track(rc)
				}
				s.Reqs <- RawReq{Index: uint32(index), Body: append([]byte(nil), body...), Conn: rc}
			}
		}()
		s.stop = func() { pc.Close() }
	case "ws":
		ln, err := net.Listen("tcp", "127.0.0.1:0")
		if err != nil {
			return nil, err
		}
		s.Addr = ln.Addr().String()
		s.URL = "ws://" + s.Addr + "/"
		s.frame = func(index uint32, body []byte, errFlag bool) []byte { return WSFrame(index, body, errFlag) }
		up := fws.Upgrader{Subprotocols: []string{"hprose"}}
		server := &nethttp.Server{Handler: nethttp.HandlerFunc(func(w nethttp.ResponseWriter, req *nethttp.Request) {
			conn, err := up.Upgrade(w, req, nil)
			if err != nil {
				return
			}
			rc := &RawConn{ID: int(atomic.AddInt64(&connSeq, 1))}
			rc.write = func(f []byte) error { return conn.WriteMessage(fws.BinaryMessage, f) }
			rc.raw = func(b []byte) error { _, err := conn.UnderlyingConn().Write(b); return err }
			rc.close = func() { conn.Close() }
			track(rc)
			for {
				_, data, err := conn.ReadMessage()
				if err != nil {
					return
				}
				if len(data) < 4 {
					continue
				}
				s.Reqs <- RawReq{Index: binary.BigEndian.Uint32(data) & 0x7fffffff, Body: data[4:], Conn: rc}
			}
		})}
		go server.Serve(ln)
		s.stop = func() { server.Close(); closeAll() }
	default:
		return nil, errors.New("unknown raw kind " + kind)
	}
	return s, nil
}

// NewClient returns a client for the raw server.
func (s *RawServer) NewClient() *core.Client {
	Register()
	return core.NewClient(s.URL)
}
