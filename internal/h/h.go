// Package h is the child-side harness library shared by all checks.
//
// A check is a Go test package with one test function that calls h.Start, then a sequence of
// r.Case(id, fn) and finally r.Finish(). The parent (cmd/vcheck) runs the compiled test binary
// as several shard processes; the journal written here lets the parent attribute a process
// death (SIGSEGV, fatal error, sanitizer abort) to the case that was running.
package h

import (
	"encoding/json"
	"fmt"
	"hash/fnv"
	"math/rand"
	"os"
	"path/filepath"
	"runtime"
	"runtime/debug"
	"sort"
	"strconv"
	"strings"
	"sync"
	"sync/atomic"
	"testing"
	"time"
)

// Violation is one observed refutation of the property.
type Violation struct {
	Prop   string      `json:"property"`
	Sig    string      `json:"sig"`    // structured signature used for known-finding matching and dedup
	Case   string      `json:"case"`   // case id (replayable with the same seed/tier)
	Index  int64       `json:"index"`  // case index
	Detail string      `json:"detail"` // human readable: observed vs expected
	Replay interface{} `json:"replay,omitempty"`
	Seed   int64       `json:"seed"`
	Tier   string      `json:"tier"`
	Pass   string      `json:"pass"`
}

// Summary is what a shard writes for the parent.
type Summary struct {
	Prop        string                 `json:"property"`
	Shard       int                    `json:"shard"`
	NShard      int                    `json:"nshard"`
	Done        bool                   `json:"done"`
	Evaluations int64                  `json:"evaluations"`
	Cases       int64                  `json:"cases"`
	Stats       map[string]int64       `json:"stats"`
	Sets        map[string][]string    `json:"sets"`
	Samples     []interface{}          `json:"samples"`
	Meta        map[string]interface{} `json:"meta"`
	Inconcl     []string               `json:"inconclusive"`
	NViol       int64                  `json:"violations"`
}

// Run is the per-process state of a check.
type Run struct {
	T         *testing.T
	Prop      string
	Seed      int64
	Tier      string
	Pass      string
	Shard     int
	NShard    int
	Resume    int64 // skip cases with index < Resume, and sub-steps <= ResumeSub of case Resume
	ResumeSub int64
	Only      string // run only the case with this id (replay)
	OnlySub   int64  // and only this sub-step, if >= 0
	OutDir    string

	mu      sync.Mutex
	idx     int64
	sum     Summary
	keys    map[uint64]struct{}
	sets    map[string]map[string]struct{}
	journal *os.File
	violF   *os.File
	nviol   map[string]int
	curCase atomic.Value // string
	curT0   atomic.Int64
	stop    chan struct{}
	caseMax time.Duration
	hangSig string
}

func envInt(name string, def int64) int64 {
	if s := os.Getenv(name); s != "" {
		if v, err := strconv.ParseInt(s, 10, 64); err == nil {
			return v
		}
	}
	return def
}

// Start initialises the run from the environment set by vcheck. When run by hand (plain
// `go test`), it uses a temporary output directory, one shard, seed 1, tier quick.
func Start(t *testing.T, prop string) *Run {
	r := &Run{T: t, Prop: prop}
	r.Seed = envInt("VERIF_SEED", 1)
	r.Tier = os.Getenv("VERIF_TIER")
	if r.Tier != "thorough" {
		r.Tier = "quick"
	}
	r.Pass = os.Getenv("VERIF_PASS")
	r.Shard = int(envInt("VERIF_SHARD", 0))
	r.NShard = int(envInt("VERIF_NSHARD", 1))
	r.Resume = envInt("VERIF_RESUME", -1)
	r.ResumeSub = envInt("VERIF_RESUME_SUB", -1)
	r.Only = os.Getenv("VERIF_ONLY")
	r.OnlySub = -1
	if i := strings.LastIndex(r.Only, "#"); i > 0 {
		if v, err := strconv.ParseInt(r.Only[i+1:], 10, 64); err == nil {
			r.OnlySub = v
			r.Only = r.Only[:i]
		}
	}
	r.OutDir = os.Getenv("VERIF_OUT")
	if r.OutDir == "" {
		d, err := os.MkdirTemp("", "verif-"+prop+"-")
		if err != nil {
			t.Fatal(err)
		}
		r.OutDir = d
		t.Logf("VERIF_OUT not set; writing to %s", d)
	}
	r.sum = Summary{Prop: prop, Shard: r.Shard, NShard: r.NShard, Stats: map[string]int64{}, Meta: map[string]interface{}{}}
	r.keys = map[uint64]struct{}{}
	r.sets = map[string]map[string]struct{}{}
	r.nviol = map[string]int{}
	var err error
	r.journal, err = os.OpenFile(filepath.Join(r.OutDir, "journal"), os.O_CREATE|os.O_WRONLY, 0o644)
	if err != nil {
		t.Fatal(err)
	}
	r.violF, err = os.OpenFile(filepath.Join(r.OutDir, "violations.jsonl"), os.O_CREATE|os.O_WRONLY|os.O_APPEND, 0o644)
	if err != nil {
		t.Fatal(err)
	}
	r.stop = make(chan struct{})
	r.caseMax = time.Duration(envInt("VERIF_CASE_TIMEOUT_S", 120)) * time.Second
	r.hangSig = os.Getenv("VERIF_HANG_SIG") // non-empty: a case exceeding the watchdog is a violation with this sig
	r.curCase.Store("")
	go r.background()
	return r
}

// Quick reports whether the tier is quick.
func (r *Run) Quick() bool { return r.Tier == "quick" }

// Pick returns q in the quick tier and t in the thorough tier.
func (r *Run) Pick(q, t int) int {
	if r.Quick() {
		return q
	}
	return t
}

func (r *Run) background() {
	tick := time.NewTicker(1 * time.Second)
	defer tick.Stop()
	for {
		select {
		case <-r.stop:
			return
		case <-tick.C:
			r.writeSummary(false)
			t0 := r.curT0.Load()
			if t0 != 0 && time.Since(time.Unix(0, t0)) > r.caseMax {
				// Per-case watchdog. The dump goes to stderr for the parent; the exit code
				// tells the parent what happened (3 = case watchdog).
				id, _ := r.curCase.Load().(string)
				fmt.Fprintf(os.Stderr, "\nVERIF-WATCHDOG case=%s exceeded %s\n", id, r.caseMax)
				buf := make([]byte, 1<<20)
				n := runtime.Stack(buf, true)
				os.Stderr.Write(buf[:n])
				os.Exit(3)
			}
		}
	}
}

// Meta records free-form metadata for the evidence file (rule, assumptions, explanation).
func (r *Run) Meta(key string, v interface{}) {
	r.mu.Lock()
	r.sum.Meta[key] = v
	r.mu.Unlock()
}

// Stat adds n to a named counter shown in the evidence.
func (r *Run) Stat(key string, n int64) {
	r.mu.Lock()
	r.sum.Stats[key] += n
	r.mu.Unlock()
}

// StatMax keeps the maximum of a named gauge.
func (r *Run) StatMax(key string, n int64) {
	r.mu.Lock()
	if n > r.sum.Stats[key] {
		r.sum.Stats[key] = n
	}
	r.mu.Unlock()
}

// Eval counts n evaluations (executions of the system under an oracle).
func (r *Run) Eval(n int64) {
	r.mu.Lock()
	r.sum.Evaluations += n
	r.mu.Unlock()
}

// Distinct records a distinct non-trivial case key (hashed; the parent unions across shards).
func (r *Run) Distinct(key string) {
	hh := fnv.New64a()
	hh.Write([]byte(key))
	k := hh.Sum64()
	r.mu.Lock()
	r.keys[k] = struct{}{}
	r.mu.Unlock()
}

// SetAdd adds an element to a named small set that is listed in the evidence (cells hit,
// schedules executed, completion orders seen ...). Sets are capped at 5000 elements.
func (r *Run) SetAdd(set, elem string) {
	r.mu.Lock()
	m := r.sets[set]
	if m == nil {
		m = map[string]struct{}{}
		r.sets[set] = m
	}
	if len(m) < 5000 {
		m[elem] = struct{}{}
	}
	r.mu.Unlock()
}

// Sample keeps up to 6 samples per shard for the evidence.
func (r *Run) Sample(v interface{}) {
	r.mu.Lock()
	if len(r.sum.Samples) < 6 {
		r.sum.Samples = append(r.sum.Samples, v)
	}
	r.mu.Unlock()
}

// Inconclusive records a reason why this run cannot give a verdict.
func (r *Run) Inconclusive(reason string) {
	r.mu.Lock()
	r.sum.Inconcl = append(r.sum.Inconcl, reason)
	r.mu.Unlock()
}

// Case is the context of one case.
type Case struct {
	R     *Run
	ID    string
	Index int64
	rng   *rand.Rand
}

// Rand returns a PRNG determined by (seed, case id) only.
func (c *Case) Rand() *rand.Rand {
	if c.rng == nil {
		hh := fnv.New64a()
		fmt.Fprintf(hh, "%d|%s", c.R.Seed, c.ID)
		c.rng = rand.New(rand.NewSource(int64(hh.Sum64())))
	}
	return c.rng
}

// Violation reports a violation for this case. At most 50 per signature are written.
func (c *Case) Violation(sig, detail string, replay interface{}) {
	c.R.violation(c.ID, c.Index, sig, detail, replay)
}

func (r *Run) violation(id string, index int64, sig, detail string, replay interface{}) {
	r.mu.Lock()
	defer r.mu.Unlock()
	r.sum.NViol++
	r.nviol[sig]++
	if r.nviol[sig] > 50 {
		return
	}
	if len(detail) > 4000 {
		detail = detail[:4000] + "…"
	}
	v := Violation{Prop: r.Prop, Sig: sig, Case: id, Index: index, Detail: detail, Replay: replay, Seed: r.Seed, Tier: r.Tier, Pass: r.Pass}
	b, err := json.Marshal(v)
	if err != nil {
		v.Replay = fmt.Sprintf("%v", replay)
		b, _ = json.Marshal(v)
	}
	b = append(b, '\n')
	r.violF.Write(b)
}

// Mine reports whether case index i belongs to this shard and is not skipped by resume.
func (r *Run) mine(i int64, id string) bool {
	if r.Only != "" {
		return id == r.Only
	}
	if int(i%int64(r.NShard)) != r.Shard {
		return false
	}
	if i == r.Resume {
		return r.ResumeSub >= 0 // re-enter a case that has sub-steps; a case without is skipped
	}
	return i > r.Resume
}

// Case runs fn as one journaled case. A panic escaping fn is reported as a violation with a
// crash-site signature "panic:<class>@<first /repo frame>".
func (r *Run) Case(id string, fn func(c *Case)) {
	i := r.idx
	r.idx++
	if !r.mine(i, id) {
		return
	}
	r.begin(i, id)
	c := &Case{R: r, ID: id, Index: i}
	func() {
		defer func() {
			if e := recover(); e != nil {
				st := string(debug.Stack())
				c.Violation(PanicSig(e, st), fmt.Sprintf("panic escaped: %v\n%s", e, TrimStack(st)), nil)
			}
		}()
		fn(c)
	}()
	r.end()
}

// Sub runs fn as sub-step j of the case: the journal names the sub-step, so a process death
// is attributed to it and the parent resumes the case after it. Panics are reported like in Case.
func (c *Case) Sub(j int64, fn func()) {
	r := c.R
	if c.Index == r.Resume && j <= r.ResumeSub && r.Only == "" {
		return
	}
	if r.Only != "" && r.OnlySub >= 0 && j != r.OnlySub {
		return
	}
	r.journalWrite(c.Index, j, c.ID)
	func() {
		defer func() {
			if e := recover(); e != nil {
				st := string(debug.Stack())
				c.Violation(PanicSig(e, st), fmt.Sprintf("sub-step %d: panic escaped: %v\n%s", j, e, TrimStack(st)), nil)
			}
		}()
		fn()
	}()
}

// CaseAll is Case for work that every shard process must run (per-process phenomena such
// as the first use of a type): the case is not distributed by index.
func (r *Run) CaseAll(id string, fn func(c *Case)) {
	i := r.idx
	r.idx++
	if r.Only != "" {
		if id != r.Only {
			return
		}
	} else if i < r.Resume || (i == r.Resume && r.ResumeSub < 0) {
		return
	}
	r.begin(i, id)
	c := &Case{R: r, ID: id, Index: i}
	func() {
		defer func() {
			if e := recover(); e != nil {
				st := string(debug.Stack())
				c.Violation(PanicSig(e, st), fmt.Sprintf("panic escaped: %v\n%s", e, TrimStack(st)), nil)
			}
		}()
		fn(c)
	}()
	r.end()
}

// Skip advances the case index by n without running anything (used when a whole block of
// cases is disabled in a pass but indices must stay aligned between passes).
func (r *Run) Skip(n int64) { r.idx += n }

func (r *Run) journalWrite(i, sub int64, id string) {
	var b [200]byte
	s := fmt.Sprintf("%d %d %s", i, sub, id)
	if len(s) > 198 {
		s = s[:198]
	}
	n := copy(b[:], s)
	for j := n; j < 199; j++ {
		b[j] = ' '
	}
	b[199] = '\n'
	r.journal.WriteAt(b[:], 0)
}

func (r *Run) begin(i int64, id string) {
	r.journalWrite(i, -1, id)
	r.curCase.Store(id)
	r.curT0.Store(time.Now().UnixNano())
	r.mu.Lock()
	r.sum.Cases++
	r.mu.Unlock()
}

func (r *Run) end() {
	r.curT0.Store(0)
}

// Finish writes the final summary. The journal is marked done.
func (r *Run) Finish() {
	close(r.stop)
	r.journal.WriteAt([]byte(fmt.Sprintf("%-199s\n", "DONE")), 0)
	r.writeSummary(true)
	r.journal.Close()
	r.violF.Close()
}

func (r *Run) writeSummary(done bool) {
	r.mu.Lock()
	s := r.sum
	s.Done = done
	s.Sets = map[string][]string{}
	for k, m := range r.sets {
		l := make([]string, 0, len(m))
		for e := range m {
			l = append(l, e)
		}
		sort.Strings(l)
		s.Sets[k] = l
	}
	b, _ := json.Marshal(s)
	kb := make([]byte, 0, len(r.keys)*17)
	for k := range r.keys {
		kb = strconv.AppendUint(kb, k, 16)
		kb = append(kb, '\n')
	}
	r.mu.Unlock()
	writeAtomic(filepath.Join(r.OutDir, "summary.json"), b)
	writeAtomic(filepath.Join(r.OutDir, "keys.txt"), kb)
}

func writeAtomic(path string, b []byte) {
	tmp := path + ".tmp"
	if err := os.WriteFile(tmp, b, 0o644); err == nil {
		os.Rename(tmp, path)
	}
}

// PanicSig builds "panic:<class>@<function of first /repo frame>".
func PanicSig(e interface{}, stack string) string {
	return "panic:" + PanicClass(fmt.Sprint(e)) + "@" + FirstRepoFrame(stack)
}

// PanicClass normalises a panic message: digits and quoted parts are stripped.
func PanicClass(msg string) string {
	if i := strings.IndexByte(msg, '\n'); i >= 0 {
		msg = msg[:i]
	}
	var b strings.Builder
	lastHash := false
	for _, ch := range msg {
		if ch >= '0' && ch <= '9' {
			if !lastHash {
				b.WriteByte('#')
				lastHash = true
			}
			continue
		}
		lastHash = false
		if ch == ' ' {
			b.WriteByte('_')
			continue
		}
		b.WriteRune(ch)
	}
	s := b.String()
	if len(s) > 80 {
		s = s[:80]
	}
	return s
}

// RepoPrefix is the import path prefix of the system under test.
const RepoPrefix = "github.com/hprose/hprose-golang/v3/"

// FirstRepoFrame extracts the function name of the first stack frame that belongs to /repo.
func FirstRepoFrame(stack string) string {
	for _, line := range strings.Split(stack, "\n") {
		line = strings.TrimSpace(line)
		if strings.HasPrefix(line, RepoPrefix) {
			fn := strings.TrimPrefix(line, RepoPrefix)
			if i := strings.LastIndex(fn, "("); i > 0 {
				// strip argument list "(0x..., ...)" but keep receiver "(*Decoder)"
				if strings.HasPrefix(fn[i:], "(0x") || strings.HasPrefix(fn[i:], "(...") || fn[i:] == "()" || strings.Contains(fn[i:], "{") || strings.Contains(fn[i:], ", ") {
					fn = fn[:i]
				}
			}
			return fn
		}
	}
	return "?"
}

// TrimStack keeps the frames of a stack dump up to the harness.
func TrimStack(st string) string {
	lines := strings.Split(st, "\n")
	if len(lines) > 40 {
		lines = lines[:40]
	}
	return strings.Join(lines, "\n")
}

// Try runs f and returns the recovered panic (nil if none) and the stack.
func Try(f func()) (p interface{}, stack string) {
	defer func() {
		if e := recover(); e != nil {
			p = e
			if p == nil {
				p = "nil panic"
			}
			stack = string(debug.Stack())
		}
	}()
	f()
	return nil, ""
}

// Hex renders bytes for replay records: printable ASCII kept, others \xNN.
func Hex(b []byte) string {
	var sb strings.Builder
	for _, c := range b {
		if c >= 0x20 && c < 0x7f && c != '\\' {
			sb.WriteByte(c)
		} else {
			fmt.Fprintf(&sb, "\\x%02x", c)
		}
	}
	return sb.String()
}
