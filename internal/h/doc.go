// Package h is the child-side harness library shared by all checks.
package h
