// C03 — encoder output is well-formed Hprose and denotes the encoded value, as read by an
// independent implementation of the grammar (internal/hpref).
package c03

import (
	"container/list"
	"errors"
	"fmt"
	"math/big"
	"time"

	"github.com/google/uuid"
	"reflect"
	"strings"
	"testing"
	"verif/internal/gentypes"

	hio "github.com/hprose/hprose-golang/v3/io"
	"verif/internal/corpus"
	"verif/internal/eqv"
	"verif/internal/h"
	"verif/internal/hpref"
	"verif/internal/iox"
)

func typeClass(t reflect.Type) string {
	s := t.String()
	if len(s) > 90 {
		s = s[:90]
	}
	return s
}

func TestCheck(t *testing.T) {
	r := h.Start(t, "C03")
	defer r.Finish()
	r.Meta("rule", "the C01 type/value universe (depth<=2 exhaustive, map cells, seeded random types) x {simple, reference} x {Marshal, Encode, Write, Writer}; each stream is parsed by the independent reader hpref (strict well-formedness, full consumption) and its denotation compared with the denotation of the Go value; plus sequences of 2..5 values written to one encoder (must parse as exactly k values, each denoting its value, with back-references across values resolved). distinct_nontrivial = distinct (type, value index, mode) with a non-zero value Added: what an encoder writes after Reset() parses alone as a well-formed message denoting the values (19x19 value pairs x {simple, reference} x {Encode, Write}).")
	r.Meta("assumptions", []string{
		"hpref is the trusted reading of the grammar: calibrated on the 266 expected streams of the repository's encoder tests (all parse) and on hand-written malformed vectors (all rejected)",
		"times with a year outside 0..9999 are not encodable (known finding of C01) and are skipped here when the encoder reports an error",
		"error values are written as E + string (messages are valid UTF-8; an error is not one of the C01 types, it is included because C02 lists it among the reference-counted items); a named []byte is written as a list of integers",
	})
	for _, ue := range corpus.Universe(r.Seed, r.Pick(8, 24), r.Pick(1500, 30000), r.Pick(5, 7)) {
		ue := ue
		r.Case(ue.Label, func(c *h.Case) {
			vals := corpus.Values(ue, c.Rand())
			for j, v := range vals {
				j, v := j, v
				c.Sub(int64(j), func() { checkValue(c, ue, j, v) })
			}
			// sequences: k values of this type written to one encoder
			c.Sub(int64(len(vals)), func() { checkSequence(c, ue, vals) })
		})
	}
	// error values and values only reachable through Encoder methods
	r.Case("errors-and-specials", func(c *h.Case) { specials(c) })
	r.Case("pair-matrix", func(c *h.Case) { pairMatrix(c) })
	r.Case("reset-matrix", func(c *h.Case) { resetMatrix(c) })
}

func checkValue(c *h.Case, ue corpus.Entry, j int, v reflect.Value) {
	want := eqv.DenoteValue(v)
	for _, simple := range []bool{true, false} {
		for enc := 0; enc < iox.NEnc; enc++ {
			var data []byte
			var err error
			p, st := h.Try(func() { data, err = iox.Encode(corpus.Iface(v), simple, enc) })
			c.R.Eval(1)
			if p != nil {
				c.Violation("encode-panic:"+typeClass(ue.T)+":"+h.PanicClass(fmt.Sprint(p))+"@"+h.FirstRepoFrame(st), fmt.Sprintf("encoding panicked: %v\n%s", p, h.TrimStack(st)), nil)
				return
			}
			if err != nil {
				c.R.Stat("encoder_error_skipped", 1)
				return
			}
			got, rd, perr := hpref.Parse(data)
			rep := map[string]interface{}{"type": ue.T.String(), "value_index": j, "value": corpus.Clip(v, 400), "simple": simple, "enc": iox.EncName(enc), "bytes": h.Hex(clipb(data, 800))}
			if perr != nil {
				c.Violation("malformed:"+errClass(perr)+":"+typeClass(ue.T), fmt.Sprintf("independent reader rejects the stream: %v\nvalue=%s\nbytes=%s", perr, corpus.Clip(v, 400), h.Hex(clipb(data, 600))), rep)
				continue
			}
			if why := eqv.DEqual(want, got); why != "" {
				c.Violation("denotation:"+typeClass(ue.T), fmt.Sprintf("stream denotes another value: %s\nvalue=%s\nbytes=%s", why, corpus.Clip(v, 400), h.Hex(clipb(data, 600))), rep)
				continue
			}
			if simple && rd.NRefUse > 0 {
				c.Violation("ref-in-simple-mode:"+typeClass(ue.T), fmt.Sprintf("simple mode emitted a back-reference\nbytes=%s", h.Hex(clipb(data, 600))), rep)
			}
			c.R.Stat("refs_resolved", int64(rd.NRefUse))
			c.R.Stat("class_definitions", int64(rd.NClass))
		}
		if !v.IsZero() {
			c.R.Distinct(fmt.Sprintf("%s|%d|%v", ue.Label, j, simple))
		}
	}
	if j == 2 && c.Index%131 == 0 {
		data, _ := iox.Encode(corpus.Iface(v), false, iox.EncEncode)
		c.R.Sample(map[string]string{"type": ue.T.String(), "value": corpus.Clip(v, 200), "stream": h.Hex(clipb(data, 200)), "denotes": want.String()})
	}
}

func checkSequence(c *h.Case, ue corpus.Entry, vals []reflect.Value) {
	if len(vals) == 0 {
		return
	}
	rng := c.Rand()
	for _, simple := range []bool{true, false} {
		for _, wmode := range []int{0, 1, 2, 2} { // all Encode, all Write, mixed per value (twice)
			useWrite := wmode == 1
			k := 2 + rng.Intn(4)
			enc := new(hio.Encoder).Simple(simple)
			var want []*eqv.D
			var picked []reflect.Value
			failed := false
			for i := 0; i < k; i++ {
				v := vals[rng.Intn(len(vals))]
				if i > 0 && rng.Intn(3) == 0 {
					v = picked[rng.Intn(len(picked))] // repeat an earlier value: back-references across values
				}
				picked = append(picked, v)
				var err error
				if wmode == 2 {
					useWrite = rng.Intn(2) == 0
				}
				p, st := h.Try(func() {
					if useWrite {
						err = enc.Write(corpus.Iface(v))
					} else {
						err = enc.Encode(corpus.Iface(v))
					}
				})
				if p != nil {
					c.Violation("encode-panic-seq:"+typeClass(ue.T)+":"+h.PanicClass(fmt.Sprint(p))+"@"+h.FirstRepoFrame(st), fmt.Sprintf("encoding value %d of a sequence panicked: %v\n%s", i, p, h.TrimStack(st)), nil)
					failed = true
					break
				}
				if err != nil {
					failed = true
					break
				}
				want = append(want, eqv.DenoteValue(v))
			}
			c.R.Eval(1)
			if failed {
				continue
			}
			data := enc.Bytes()
			got, _, perr := hpref.ParseAll(data, k)
			if perr != nil {
				c.Violation("malformed-seq:"+errClass(perr)+":"+typeClass(ue.T), fmt.Sprintf("sequence of %d values does not parse as %d values: %v\nbytes=%s", k, k, perr, h.Hex(clipb(data, 800))), map[string]interface{}{"type": ue.T.String(), "simple": simple, "write_mode": wmode, "bytes": h.Hex(clipb(data, 800))})
				continue
			}
			for i := range want {
				if why := eqv.DEqual(want[i], got[i]); why != "" {
					c.Violation("denotation-seq:"+typeClass(ue.T), fmt.Sprintf("value %d of a sequence denotes another value: %s\nbytes=%s", i, why, h.Hex(clipb(data, 800))), map[string]interface{}{"type": ue.T.String(), "simple": simple, "write_mode": wmode, "bytes": h.Hex(clipb(data, 800))})
					break
				}
			}
			c.R.Stat("sequences", 1)
		}
	}
}

type myErr struct{ msg string }

func (e *myErr) Error() string { return e.msg }

func specials(c *h.Case) {
	msgs := []string{"", "e", "err", "错误", "😀", "with \"quotes\"", strings.Repeat("x", 300)}
	for i, m := range msgs {
		for _, simple := range []bool{true, false} {
			for _, ev := range []interface{}{errors.New(m), &myErr{m}} {
				enc := new(hio.Encoder).Simple(simple)
				// an error between two equal strings: the reference count of E+string must be honoured
				items := []interface{}{"probe-string", ev, "probe-string", ev, "tail"}
				var perr error
				p, st := h.Try(func() {
					for _, it := range items {
						if err := enc.Encode(it); err != nil {
							perr = err
						}
					}
				})
				c.R.Eval(1)
				if p != nil {
					c.Violation("encode-panic:error:"+h.PanicClass(fmt.Sprint(p))+"@"+h.FirstRepoFrame(st), fmt.Sprintf("encoding an error value panicked: %v", p), nil)
					continue
				}
				if perr != nil {
					continue
				}
				data := enc.Bytes()
				got, _, err := hpref.ParseAll(data, len(items))
				if err != nil {
					c.Violation("malformed:error-value:"+errClass(err), fmt.Sprintf("stream with error values rejected: %v\nbytes=%s", err, h.Hex(clipb(data, 600))), nil)
					continue
				}
				for k, it := range items {
					var want *eqv.D
					if e, ok := it.(error); ok {
						want = &eqv.D{K: eqv.KObj, Class: "!error", Field: []string{"message"}, Vals: []*eqv.D{eqv.StrD(e.Error())}}
						if !eqv.ValidHproseUTF8(e.Error()) {
							// invalid UTF-8 message travels as bytes; hpref requires a string after E
							continue
						}
					} else {
						want = eqv.Denote(it)
					}
					if why := eqv.DEqual(want, got[k]); why != "" {
						c.Violation("denotation:error-value", fmt.Sprintf("item %d: %s\nbytes=%s", k, why, h.Hex(clipb(data, 600))), nil)
					}
				}
				c.R.Distinct(fmt.Sprintf("error|%d|%v|%T", i, simple, ev))
			}
		}
	}
}

// pairMatrix: for every ordered pair (x, y) of a pool of values of every referable and
// non-referable kind and every assignment of Write/Encode to the three positions, the
// sequence x, y, y is written to one encoder: the third item must resolve to y, whatever x
// did to the reference count.
// resetMatrix: what an encoder writes after Reset() is a message of its own (the RPC codecs
// write headers, Reset, then the body, and the reader resets likewise): well-formed when parsed
// alone, class definitions before their instances again, references counted from zero, in both
// modes and whatever was written before the Reset.
func resetMatrix(c *h.Case) {
	one := 5
	tm := time.Date(2021, 3, 4, 5, 6, 7, 0, time.UTC)
	pool := []interface{}{
		"ab", "long string", []byte("b"), 12345, big.NewInt(7), tm, &tm, []string{"ab", "ab"}, map[string]int{"k": 1},
		&gentypes.One{A: 1}, gentypes.One{A: 2}, &gentypes.Scalars{S: "ab"}, gentypes.Scalars{S: "cd"}, &gentypes.Empty{}, []gentypes.One{{A: 1}, {A: 2}},
		[]interface{}{&gentypes.One{A: 3}, "ab", "ab"}, struct{ S string }{"ab"}, &struct{ A, B int }{1, 2}, &one,
	}
	for xi, x := range pool {
		for yi, y := range pool {
			for _, simple := range []bool{true, false} {
				for w := 0; w < 2; w++ {
					enc := new(hio.Encoder).Simple(simple)
					var mark int
					failed := false
					put := func(it interface{}) {
						var err error
						if w == 1 {
							err = enc.Write(it)
						} else {
							err = enc.Encode(it)
						}
						if err != nil {
							failed = true
						}
					}
					p, _ := h.Try(func() {
						put(x)
						put(y)
						enc.Reset()
						mark = len(enc.Bytes())
						put(y)
						put(x)
						put(y)
					})
					c.R.Eval(1)
					if p != nil {
						c.Violation("reset-matrix-panic:"+h.PanicClass(fmt.Sprint(p)), fmt.Sprintf("x=%#v y=%#v: %v", x, y, p), nil)
						continue
					}
					if failed {
						continue
					}
					tail := append([]byte(nil), enc.Bytes()[mark:]...)
					items := []interface{}{y, x, y}
					got, _, err := hpref.ParseAll(tail, 3)
					rep := map[string]interface{}{"x": fmt.Sprintf("%#v", x), "y": fmt.Sprintf("%#v", y), "simple": simple, "write": w == 1, "bytes_after_reset": h.Hex(clipb(tail, 400))}
					if err != nil {
						c.Violation(fmt.Sprintf("after-reset-malformed:%T-then-%T", x, y), fmt.Sprintf("x=%#v y=%#v simple=%v: what the encoder wrote after Reset() is not a well-formed message of its own: %v\nbytes=%s", x, y, simple, err, h.Hex(clipb(tail, 400))), rep)
						continue
					}
					for k, it := range items {
						if why := eqv.DEqual(eqv.Denote(it), got[k]); why != "" {
							c.Violation(fmt.Sprintf("after-reset-denotation:%T-then-%T", x, y), fmt.Sprintf("item %d after Reset() of x=%#v y=%#v simple=%v denotes another value: %s\nbytes=%s", k, x, y, simple, why, h.Hex(clipb(tail, 400))), rep)
							break
						}
					}
					c.R.Distinct(fmt.Sprintf("reset|%d|%d|%v|%d", xi, yi, simple, w))
				}
			}
		}
	}
}

func pairMatrix(c *h.Case) {
	one := 5
	tm := time.Date(2021, 3, 4, 5, 6, 7, 0, time.UTC)
	u := uuid.MustParse("550e8400-e29b-41d4-a716-446655440000")
	l := list.New()
	l.PushBack("le")
	pool := []interface{}{
		"", "a", "中", "😀", "ab", "long string", "\xff\xfe", []byte{}, []byte("b"), []byte(nil),
		0, 12345, 1.5, true, nil, big.NewInt(7), big.NewRat(1, 3), big.NewRat(2, 1), complex(1, 2), complex(3, 0),
		tm, &tm, u, &u, l, []int{1}, []int{}, []string{"ab", "ab"}, [][]int{{1}, nil}, [2]string{"ab", "cd"}, &[1]int{1},
		map[string]int{"k": 1}, map[string]int{}, &gentypes.One{A: 1}, gentypes.One{A: 2}, &gentypes.Scalars{S: "ab"}, &gentypes.Empty{},
		struct{ S string }{"ab"}, &struct{ A, B int }{1, 2}, &one, errors.New("err"),
	}
	for xi, x := range pool {
		for yi, y := range pool {
			for w := 0; w < 8; w++ {
				enc := new(hio.Encoder).Simple(false)
				items := []interface{}{x, y, y}
				failed := false
				p, _ := h.Try(func() {
					for k, it := range items {
						var err error
						if w&(1<<uint(k)) != 0 {
							err = enc.Write(it)
						} else {
							err = enc.Encode(it)
						}
						if err != nil {
							failed = true
						}
					}
				})
				c.R.Eval(1)
				if p != nil {
					c.Violation("pair-matrix-panic:"+h.PanicClass(fmt.Sprint(p)), fmt.Sprintf("x=%#v y=%#v w=%03b: %v", x, y, w, p), nil)
					continue
				}
				if failed {
					continue
				}
				data := enc.Bytes()
				got, _, err := hpref.ParseAll(data, 3)
				rep := map[string]interface{}{"x": fmt.Sprintf("%#v", x), "y": fmt.Sprintf("%#v", y), "write_mask": w, "bytes": h.Hex(clipb(data, 400))}
				if err != nil {
					c.Violation(fmt.Sprintf("pair-matrix-malformed:%T-then-%T", x, y), fmt.Sprintf("x=%#v y=%#v write-mask=%03b: %v\nbytes=%s", x, y, w, err, h.Hex(clipb(data, 400))), rep)
					continue
				}
				for k, it := range items {
					want := eqv.Denote(it)
					if e, ok := it.(error); ok {
						want = &eqv.D{K: eqv.KObj, Class: "!error", Field: []string{"message"}, Vals: []*eqv.D{eqv.StrD(e.Error())}}
					}
					if why := eqv.DEqual(want, got[k]); why != "" {
						c.Violation(fmt.Sprintf("pair-matrix-denotation:%T-then-%T", x, y), fmt.Sprintf("item %d of x=%#v y=%#v write-mask=%03b denotes another value: %s\nbytes=%s", k, x, y, w, why, h.Hex(clipb(data, 400))), rep)
						break
					}
				}
				c.R.Distinct(fmt.Sprintf("pair|%d|%d|%d", xi, yi, w))
			}
		}
	}
}

func errClass(err error) string {
	s := err.Error()
	if i := strings.Index(s, ": "); i >= 0 && strings.HasPrefix(s, "hpref: at offset") {
		s = s[i+2:]
	}
	return h.PanicClass(s)
}

func clipb(b []byte, n int) []byte {
	if len(b) > n {
		return b[:n]
	}
	return b
}
