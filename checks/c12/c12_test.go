// C12 — transports deliver exactly the bytes that were sent, or nothing.
package c12

import (
	"bytes"
	"context"
	"encoding/binary"
	"fmt"
	"io"
	"math/rand"
	"net"
	nethttp "net/http"
	"os"
	"strings"
	"sync"
	"testing"
	"time"

	"github.com/fasthttp/websocket"
	"github.com/hprose/hprose-golang/v3/rpc/core"
	"github.com/hprose/hprose-golang/v3/rpc/socket"
	"verif/internal/h"
	"verif/internal/peer"
)

// The service's outermost IO plugin records what it is handed and answers with bytes that
// are a function of the request: request = [4 bytes wanted response length][1 byte pattern]...
type recorder struct {
	mu   sync.Mutex
	seen [][]byte
	// the slices the service was handed, as handed, with a private copy of what they held: a
	// service may keep a request after answering it (a queue for a background worker)
	kept     [][]byte
	keptCopy [][]byte
}

func (r *recorder) handler(ctx context.Context, request []byte, next core.NextIOHandler) ([]byte, error) {
	r.mu.Lock()
	cp := append([]byte(nil), request...)
	r.seen = append(r.seen, cp)
	if len(request) > 0 {
		if len(r.kept) >= 64 {
			r.kept, r.keptCopy = r.kept[1:], r.keptCopy[1:]
		}
		r.kept = append(r.kept, request)
		r.keptCopy = append(r.keptCopy, cp)
	}
	r.mu.Unlock()
	return expectedResponse(request), nil
}

// retained reports the first kept request whose bytes changed after the service had answered it.
func (r *recorder) retained() string {
	r.mu.Lock()
	defer r.mu.Unlock()
	for i := range r.kept {
		if !bytes.Equal(r.kept[i], r.keptCopy[i]) {
			return describeDiff("request kept by the service", r.keptCopy[i], r.kept[i])
		}
	}
	return ""
}

// waitFor waits (up to 5 s) until n requests have been recorded: on a loaded machine the
// service may be late; expectations of the form "must have been delivered" use it.
func (r *recorder) waitFor(n int) {
	for i := 0; i < 500; i++ {
		r.mu.Lock()
		k := len(r.seen)
		r.mu.Unlock()
		if k >= n {
			return
		}
		time.Sleep(10 * time.Millisecond)
	}
}

func (r *recorder) take() [][]byte {
	r.mu.Lock()
	defer r.mu.Unlock()
	s := r.seen
	r.seen = nil
	return s
}

func expectedResponse(request []byte) []byte {
	if len(request) < 5 {
		return []byte("tiny-request-response")
	}
	n := int(binary.BigEndian.Uint32(request))
	if n > 1<<24 {
		n = 1 << 24
	}
	return fill(n, request[4], request)
}

func fill(n int, pattern byte, seed []byte) []byte {
	out := make([]byte, n)
	switch pattern % 5 {
	case 0: // zeros
	case 1:
		for i := range out {
			out[i] = 0xff
		}
	case 2: // pseudo random from the seed
		x := uint32(2166136261)
		for _, b := range seed[:minInt(len(seed), 64)] {
			x = (x ^ uint32(b)) * 16777619
		}
		for i := range out {
			x = x*1664525 + 1013904223
			out[i] = byte(x >> 24)
		}
	case 3: // looks like frame headers
		hdr := peer.TCPFrame(7, []byte("xx"), false)
		for i := range out {
			out[i] = hdr[i%len(hdr)]
		}
	case 4: // looks like hprose
		s := []byte(`Rs5"hello"zCs3"abc"a2{12}z`)
		for i := range out {
			out[i] = s[i%len(s)]
		}
	}
	return out
}

func minInt(a, b int) int {
	if a < b {
		return a
	}
	return b
}

func mkRequest(n int, respLen int, pattern byte, rng *rand.Rand) []byte {
	req := fill(n, pattern, []byte{byte(n), byte(n >> 8), pattern})
	if n >= 5 {
		binary.BigEndian.PutUint32(req, uint32(respLen))
		req[4] = pattern
	}
	return req
}

var light = os.Getenv("VERIF_LIGHT") == "1"

func lengths(quick bool, udp bool) []int {
	set := map[int]bool{}
	top := 1100
	if !quick {
		top = 5000
	}
	if light {
		top = 40
	}
	for i := 0; i <= top; i++ {
		set[i] = true
	}
	for k := 9; k <= 20; k++ {
		for d := -2; d <= 2; d++ {
			set[(1<<k)+d] = true
		}
	}
	for _, x := range []int{255, 256, 4095, 4096, 4097, 65499, 65500, 65507, 65534, 65535, 65536, 65537, 1 << 20} {
		set[x] = true
	}
	var out []int
	for x := range set {
		if udp && x > 65499 {
			continue
		}
		if quick && x > 70000 && x != 1<<20 {
			continue
		}
		out = append(out, x)
	}
	// deterministic order
	for i := 0; i < len(out); i++ {
		for j := i + 1; j < len(out); j++ {
			if out[j] < out[i] {
				out[i], out[j] = out[j], out[i]
			}
		}
	}
	return out
}

func kinds() []string {
	if peer.FastHTTPClient {
		return []string{"fasthttp", "http"} // the fasthttp client transport against both servers
	}
	return peer.Kinds
}

func TestCheck(t *testing.T) {
	peer.Register()
	r := h.Start(t, "C12")
	defer r.Finish()
	r.Meta("rule", "real client <-> real server on every transport {mock, tcp, unix, udp, net/http, fasthttp server, websocket on net/http and on fasthttp; the fasthttp client transport in processes of its own}: request lengths 0..1100 exhaustively (0..5000 in the thorough tier, 0..40 under the race detector), +-2 around every power of two up to 2^20, 255/256, 4095..4097, 65499/65500/65507, 64 KiB +-2, 1 MiB x contents {zeros, 0xff, pseudo-random, frame-header look-alikes, hprose look-alikes} x response lengths from the same set; an IO-level recorder inside the service must see exactly the submitted bytes and the caller must get exactly the bytes the service produced (the in-process result of Service.Handle for the same request). Hand-crafted frames from raw peers: every single-bit flip of the 12-byte tcp/unix header and the 8-byte udp header (exhaustive), declared vs actual body length for all pairs in {0,1,5,100,65499} (udp preceded by another client's datagram full of a marker), http Content-Length larger than the bytes sent followed by half-close, tcp close mid-body; mirror set from raw servers to real clients; a late answer to an abandoned call whose body forges a well-formed frame for the call that is pending now (tcp, unix, udp, ws; five alignments). Oracle: nothing delivered, or exactly the declared self-consistent frame; never truncated, padded or completed with foreign bytes. distinct_nontrivial = distinct (transport, direction, length, content) cells and (transport, corruption) cases Added: a late answer to an abandoned call whose body forges a well-formed frame for the call pending now; udp declared/actual deliveries are judged by the datagram's own fill byte, so that late processing on a loaded machine cannot be misattributed. Round 3 additions: write time-outs inside a frame followed by further requests; the service-side recorder keeps the slices it was handed and verifies them at the end.")
	r.Meta("assumptions", []string{
		"payload sizes up to 1 MiB (udp up to 65499 bytes)",
		"for a frame that is self-consistent after corruption (declared length shorter than what follows) the declared prefix may be delivered; the rest must not be",
	})
	for _, kind := range kinds() {
		kind := kind
		isUDP := kind == "udp"
		ls := lengths(r.Quick(), isUDP)
		// split into chunks so that a crash loses little
		const chunk = 40
		for i := 0; i < len(ls); i += chunk {
			part := ls[i:minInt(i+chunk, len(ls))]
			r.Case(fmt.Sprintf("exact/%s/%d-%d", kind, part[0], part[len(part)-1]), func(c *h.Case) { exactCase(c, kind, part) })
		}
		if !peer.FastHTTPClient {
			r.Case("oversized/"+kind, func(c *h.Case) { oversizedCase(c, kind) })
		}
	}
	if peer.FastHTTPClient {
		return
	}
	for _, kind := range []string{"tcp", "unix"} {
		kind := kind
		r.Case("raw-client/header-bit-flips/"+kind, func(c *h.Case) { tcpBitFlips(c, kind) })
		r.Case("raw-client/declared-vs-actual/"+kind, func(c *h.Case) { tcpDeclared(c, kind) })
		r.Case("raw-server/corrupt-responses/"+kind, func(c *h.Case) { tcpRawServer(c, kind) })
	}
	for _, kind := range []string{"tcp", "unix", "udp", "ws"} {
		kind := kind
		r.Case("raw-server/late-response-forging-a-frame/"+kind, func(c *h.Case) { lateResponse(c, kind) })
	}
	for _, kind := range []string{"tcp", "unix"} {
		kind := kind
		r.Case("partial-write-then-next-call/"+kind, func(c *h.Case) { partialWrite(c, kind) })
	}
	r.Case("raw-client/header-bit-flips/udp", func(c *h.Case) { udpBitFlips(c) })
	r.Case("raw-client/declared-vs-actual/udp", func(c *h.Case) { udpDeclared(c) })
	r.Case("raw-server/corrupt-responses/udp", func(c *h.Case) { udpRawServer(c) })
	for _, kind := range []string{"http", "fasthttp"} {
		kind := kind
		r.Case("raw-client/content-length/"+kind, func(c *h.Case) { httpContentLength(c, kind) })
	}
	r.Case("raw-server/content-length/http", func(c *h.Case) { httpRawServer(c) })
	for _, kind := range []string{"ws", "ws-fasthttp"} {
		kind := kind
		r.Case("raw-client/frames/"+kind, func(c *h.Case) { wsRawClient(c, kind) })
	}
	r.Case("raw-server/frames/ws", func(c *h.Case) { wsRawServer(c) })
}

func newRecordingService() (*core.Service, *recorder) {
	svc := core.NewService()
	rec := &recorder{}
	svc.Use(core.IOHandler(rec.handler))
	return svc, rec
}

func exactCase(c *h.Case, kind string, ls []int) {
	r := c.R
	rng := c.Rand()
	svc, rec := newRecordingService()
	srv, err := peer.Start(kind, svc)
	if err != nil {
		r.Inconclusive("cannot start " + kind + " server: " + err.Error())
		return
	}
	defer srv.Close()
	client := srv.NewClient()
	defer client.Abort()
	maxLen := 1 << 20
	if kind == "udp" {
		maxLen = 65499
	}
	for _, n := range ls {
		for _, pattern := range []byte{0, 1, 2, 3, 4} {
			// response length: mirror the request length, plus a few from the boundary set
			respLens := []int{n}
			if pattern == 2 {
				respLens = append(respLens, ls[rng.Intn(len(ls))], 0, 1)
			}
			for _, rl := range respLens {
				if rl > maxLen || n < 5 && rl != n {
					continue
				}
				req := mkRequest(n, rl, pattern, rng)
				ctx, _ := peer.Ctx(client, 20*time.Second)
				resp, err := client.Request(ctx, req)
				r.Eval(1)
				seen := rec.take()
				rep := map[string]interface{}{"transport": kind, "request_len": n, "response_len": rl, "pattern": pattern, "request_head": h.Hex(clip(req, 64))}
				sig := kind
				if err != nil {
					c.Violation("exchange-failed:"+sig, fmt.Sprintf("request of %d bytes (response %d): %v", n, rl, err), rep)
					continue
				}
				if len(seen) != 1 {
					c.Violation("service-saw-wrong-number-of-requests:"+sig, fmt.Sprintf("%d requests recorded for one call", len(seen)), rep)
				} else if !bytes.Equal(seen[0], req) {
					c.Violation("request-bytes-changed:"+sig, describeDiff("request", req, seen[0]), rep)
				}
				// what Service.Handle produces for this request (empty response substitution included)
				want, _ := svc.Handle(core.WithContext(context.Background(), core.NewServiceContext(svc)), req)
				rec.take()
				if !bytes.Equal(resp, want) {
					c.Violation("response-bytes-changed:"+sig, describeDiff("response", want, resp), rep)
				}
				r.Distinct(fmt.Sprintf("%s|%d|%d|%d", kind, n, rl, pattern))
			}
		}
	}
	if why := rec.retained(); why != "" {
		c.Violation("request-bytes-change-after-the-service-was-handed-them:"+kind, "a request the service kept after answering it (as a queueing plugin does) no longer holds what it was handed: "+why, map[string]interface{}{"transport": kind})
	}
	if ls[0] == 0 {
		r.Sample(map[string]interface{}{"transport": kind, "lengths_first_chunk": ls, "patterns": "zeros,0xff,pseudo-random,frame-header look-alike,hprose look-alike"})
	}
}

func describeDiff(what string, want, got []byte) string {
	i := 0
	for i < len(want) && i < len(got) && want[i] == got[i] {
		i++
	}
	return fmt.Sprintf("%s: sent %d bytes, delivered %d bytes, first difference at offset %d (sent …%s, delivered …%s)", what, len(want), len(got), i, h.Hex(clip(want[minInt(i, len(want)):], 24)), h.Hex(clip(got[minInt(i, len(got)):], 24)))
}

func clip(b []byte, n int) []byte {
	if len(b) > n {
		return b[:n]
	}
	return b
}

// oversizedCase: payloads beyond what the transport can carry must fail, not be truncated.
func oversizedCase(c *h.Case, kind string) {
	if kind != "udp" {
		return
	}
	r := c.R
	svc, rec := newRecordingService()
	srv, err := peer.Start(kind, svc)
	if err != nil {
		r.Inconclusive(err.Error())
		return
	}
	defer srv.Close()
	client := srv.NewClient()
	defer client.Abort()
	// responses too large for a datagram
	for _, rl := range []int{65500, 65507, 70000} {
		req := mkRequest(100, rl, 2, nil)
		ctx, _ := peer.Ctx(client, 2*time.Second)
		resp, err := client.Request(ctx, req)
		r.Eval(1)
		rec.take()
		if err == nil {
			want := expectedResponse(req)
			if !bytes.Equal(resp, want) {
				c.Violation("oversized-response-delivered-changed:udp", describeDiff("response", want, resp), map[string]interface{}{"response_len": rl})
			}
		}
		// the server must still be there for everybody
		ctx2, _ := peer.Ctx(client, 2*time.Second)
		small := mkRequest(10, 10, 1, nil)
		if _, err := client.Request(ctx2, small); err != nil {
			c.Violation("server-gone-after-oversized-response:udp", fmt.Sprintf("after a %d-byte response the next small call failed: %v", rl, err), map[string]interface{}{"response_len": rl})
		}
		rec.take()
		r.Distinct(fmt.Sprintf("oversized-resp|%d", rl))
	}
}

// ---- raw tcp/unix peers ----

func dialRaw(kind, addr string) (net.Conn, error) {
	if kind == "unix" {
		return net.DialTimeout("unix", addr, 2*time.Second)
	}
	return net.DialTimeout("tcp", addr, 2*time.Second)
}

// settle waits briefly for the server to process what was sent.
func settle() { time.Sleep(30 * time.Millisecond) }

func tcpBitFlips(c *h.Case, kind string) {
	r := c.R
	svc, rec := newRecordingService()
	srv, err := peer.Start(kind, svc)
	if err != nil {
		r.Inconclusive(err.Error())
		return
	}
	defer srv.Close()
	for _, body := range [][]byte{[]byte("0123456789abcdefghij"), {}} {
		for bit := 0; bit < 96; bit++ {
			conn, err := dialRaw(kind, srv.Addr)
			if err != nil {
				r.Inconclusive(err.Error())
				return
			}
			frame := peer.TCPFrame(5, body, false)
			frame[bit/8] ^= 1 << uint(bit%8)
			conn.Write(frame)
			// followed by an intact frame from the same peer: it must not be used to complete the broken one
			conn.Write(peer.TCPFrame(6, []byte("second-frame"), false))
			conn.SetReadDeadline(time.Now().Add(300 * time.Millisecond))
			io.ReadAll(conn)
			conn.Close()
			settle()
			r.Eval(1)
			for _, s := range rec.take() {
				if !bytes.Equal(s, body) && !bytes.Equal(s, []byte("second-frame")) {
					c.Violation("corrupted-header-frame-delivered:"+kind, fmt.Sprintf("header bit %d flipped: the service was handed %d bytes %q", bit, len(s), clip(s, 40)), map[string]interface{}{"bit": bit})
				}
				if bytes.Equal(s, body) {
					c.Violation("corrupted-header-frame-delivered:"+kind, fmt.Sprintf("header bit %d flipped but the frame body was delivered", bit), map[string]interface{}{"bit": bit})
				}
			}
			r.Distinct(fmt.Sprintf("%s|bitflip|%d|%d", kind, bit, len(body)))
		}
	}
}

func tcpDeclared(c *h.Case, kind string) {
	r := c.R
	svc, rec := newRecordingService()
	srv, err := peer.Start(kind, svc)
	if err != nil {
		r.Inconclusive(err.Error())
		return
	}
	defer srv.Close()
	sizes := []int{0, 1, 5, 100, 65499}
	for _, declared := range sizes {
		for _, actual := range sizes {
			conn, err := dialRaw(kind, srv.Addr)
			if err != nil {
				r.Inconclusive(err.Error())
				return
			}
			body := bytes.Repeat([]byte{0xAB}, actual)
			conn.Write(peer.TCPFrameDeclared(9, uint32(declared), body, false))
			// close the write side: no more bytes will come
			if cw, ok := conn.(interface{ CloseWrite() error }); ok {
				cw.CloseWrite()
			}
			conn.SetReadDeadline(time.Now().Add(300 * time.Millisecond))
			io.ReadAll(conn)
			conn.Close()
			settle()
			r.Eval(1)
			seen := rec.take()
			rep := map[string]interface{}{"declared": declared, "actual": actual}
			for _, s := range seen {
				ok := declared <= actual && bytes.Equal(s, body[:declared])
				if !ok {
					c.Violation("inconsistent-frame-delivered:"+kind, fmt.Sprintf("declared %d, sent %d then closed: the service was handed %d bytes (zero-padded=%v)", declared, actual, len(s), len(s) > actual), rep)
				}
			}
			if declared > actual && len(seen) > 0 {
				c.Violation("truncated-frame-delivered:"+kind, fmt.Sprintf("declared %d but only %d bytes arrived before close: delivered anyway", declared, actual), rep)
			}
			r.Distinct(fmt.Sprintf("%s|declared|%d|%d", kind, declared, actual))
		}
	}
}

// tcpRawServer: a raw server answers real clients with corrupted frames.
func tcpRawServer(c *h.Case, kind string) {
	r := c.R
	peer.Register()
	type variant struct {
		name  string
		reply func(index uint32) []byte
		// acceptable: the caller gets an error, or exactly `exact`
		exact []byte
	}
	good := []byte("the-real-response-body")
	variants := []variant{
		{"intact", func(i uint32) []byte { return peer.TCPFrame(i, good, false) }, good},
		{"crc-flipped", func(i uint32) []byte { f := peer.TCPFrame(i, good, false); f[1] ^= 0x10; return f }, nil},
		{"length-bit-flipped", func(i uint32) []byte { f := peer.TCPFrame(i, good, false); f[7] ^= 0x01; return f }, nil},
		{"index-bit-flipped", func(i uint32) []byte { f := peer.TCPFrame(i, good, false); f[11] ^= 0x01; return f }, nil},
		{"declared-longer-then-close", func(i uint32) []byte { return peer.TCPFrameDeclared(i, uint32(len(good)+10), good, false) }, nil},
		{"declared-shorter", func(i uint32) []byte { return peer.TCPFrameDeclared(i, uint32(len(good)-5), good, false) }, good[:len(good)-5]},
		{"error-flag", func(i uint32) []byte { return peer.TCPFrame(i, []byte("some error text"), true) }, nil},
		{"header-only-then-close", func(i uint32) []byte { return peer.TCPFrame(i, good, false)[:12] }, nil},
		{"half-header-then-close", func(i uint32) []byte { return peer.TCPFrame(i, good, false)[:6] }, nil},
	}
	for _, v := range variants {
		var ln net.Listener
		var err error
		var url string
		if kind == "unix" {
			path := fmt.Sprintf("%s/raw-%d.sock", peer.Dir(), time.Now().UnixNano()%1000000)
			ln, err = net.Listen("unix", path)
			url = "unix://" + path
		} else {
			ln, err = net.Listen("tcp", "127.0.0.1:0")
			if err == nil {
				url = "tcp://" + ln.Addr().String()
			}
		}
		if err != nil {
			r.Inconclusive(err.Error())
			return
		}
		go func() {
			for {
				conn, err := ln.Accept()
				if err != nil {
					return
				}
				go func() {
					defer conn.Close()
					index, _, _, err := peer.ReadTCPFrame(conn)
					if err != nil {
						return
					}
					conn.Write(v.reply(index))
					time.Sleep(50 * time.Millisecond)
				}()
			}
		}()
		client := core.NewClient(url)
		ctx, _ := peer.Ctx(client, 2*time.Second)
		resp, err := client.Request(ctx, []byte("request-bytes"))
		r.Eval(1)
		rep := map[string]interface{}{"variant": v.name, "transport": kind}
		if err == nil {
			if v.exact == nil || !bytes.Equal(resp, v.exact) {
				c.Violation("corrupt-response-delivered:"+kind+":"+v.name, fmt.Sprintf("the caller was handed %d bytes %q without error", len(resp), clip(resp, 40)), rep)
			}
		} else if v.name == "intact" {
			c.Violation("intact-response-refused:"+kind, err.Error(), rep)
		}
		client.Abort()
		ln.Close()
		r.Distinct(kind + "|rawserver|" + v.name)
	}
}

// ---- raw udp peers ----

func udpBitFlips(c *h.Case) {
	r := c.R
	svc, rec := newRecordingService()
	srv, err := peer.Start("udp", svc)
	if err != nil {
		r.Inconclusive(err.Error())
		return
	}
	defer srv.Close()
	body := []byte("0123456789abcdefghij")
	conn, err := net.Dial("udp", srv.Addr)
	if err != nil {
		r.Inconclusive(err.Error())
		return
	}
	defer conn.Close()
	for _, body := range [][]byte{body, {}} {
		for bit := 0; bit < 64; bit++ {
			f := peer.UDPFrame(5, body, false)
			f[bit/8] ^= 1 << uint(bit%8)
			conn.Write(f)
			settle()
			r.Eval(1)
			for _, s := range rec.take() {
				c.Violation("corrupted-header-frame-delivered:udp", fmt.Sprintf("header bit %d flipped: the service was handed %d bytes %q", bit, len(s), clip(s, 40)), map[string]interface{}{"bit": bit})
			}
			r.Distinct(fmt.Sprintf("udp|bitflip|%d|%d", bit, len(body)))
		}
	}
	// the server must still serve
	conn.Write(peer.UDPFrame(6, body, false))
	rec.waitFor(1)
	settle()
	if seen := rec.take(); len(seen) != 1 || !bytes.Equal(seen[0], body) {
		c.Violation("server-gone-after-corrupt-datagrams:udp", fmt.Sprintf("an intact datagram after the corrupted ones was recorded %d times", len(seen)), nil)
	}
}

func udpDeclared(c *h.Case) {
	r := c.R
	svc, rec := newRecordingService()
	srv, err := peer.Start("udp", svc)
	if err != nil {
		r.Inconclusive(err.Error())
		return
	}
	defer srv.Close()
	other, _ := net.Dial("udp", srv.Addr)
	defer other.Close()
	conn, _ := net.Dial("udp", srv.Addr)
	defer conn.Close()
	sizes := []int{0, 1, 5, 100, 65499}
	marker := bytes.Repeat([]byte("MARKER-OF-ANOTHER-CLIENT"), 2000)[:40000]
	var pairs []udpPair
	markers := 0
	// every datagram carries its own fill byte, so that a record is judged by what it is,
	// whenever the (possibly loaded) service gets round to it
	for _, declared := range sizes {
		for _, actual := range sizes {
			// another client's datagram first: a reused receive buffer shows as marker bytes
			other.Write(peer.UDPFrame(1, marker, false))
			markers++
			rec.waitFor(markers + countTruthful(pairs))
			fillByte := byte(0x10 + len(pairs))
			pairs = append(pairs, udpPair{declared, actual})
			body := bytes.Repeat([]byte{fillByte}, actual)
			conn.Write(peer.UDPFrameDeclared(9, uint16(declared), body, false))
			settle()
			r.Eval(1)
			r.Distinct(fmt.Sprintf("udp|declared|%d|%d", declared, actual))
		}
	}
	time.Sleep(300 * time.Millisecond)
	empties := 0
	for _, s := range rec.take() {
		if bytes.Equal(s, marker) {
			continue
		}
		if len(s) == 0 {
			empties++
			continue
		}
		idx := int(s[0]) - 0x10
		if idx < 0 || idx >= len(pairs) {
			c.Violation("inconsistent-frame-delivered:udp", fmt.Sprintf("the service was handed %d bytes that no datagram carried: %q", len(s), clip(s, 40)), nil)
			continue
		}
		p := pairs[idx]
		rep := map[string]interface{}{"declared": p.declared, "actual": p.actual}
		switch {
		case p.declared == p.actual && bytes.Equal(s, bytes.Repeat([]byte{s[0]}, p.actual)):
		case bytes.Contains(s, []byte("MARKER")):
			c.Violation("frame-completed-with-another-clients-bytes:udp", fmt.Sprintf("declared %d, datagram carried %d: the service was handed %d bytes containing the previous client's data", p.declared, p.actual, len(s)), rep)
		default:
			c.Violation("inconsistent-frame-delivered:udp", fmt.Sprintf("declared %d, datagram carried %d: the service was handed %d bytes", p.declared, p.actual, len(s)), rep)
		}
	}
	// exactly one datagram was empty and said so
	if empties > 1 {
		c.Violation("inconsistent-frame-delivered:udp", fmt.Sprintf("%d empty requests were delivered, one datagram declared and carried nothing (others declared 0 and carried more)", empties), nil)
	}
}

type udpPair struct{ declared, actual int }

func countTruthful(ps []udpPair) int {
	n := 0
	for _, p := range ps {
		if p.declared == p.actual {
			n++
		}
	}
	return n
}

func udpRawServer(c *h.Case) {
	r := c.R
	peer.Register()
	good := []byte("the-real-response-body")
	marker := bytes.Repeat([]byte("MARKER"), 5000)
	type variant struct {
		name  string
		reply func(index uint16) [][]byte
		exact []byte
	}
	variants := []variant{
		{"intact", func(i uint16) [][]byte { return [][]byte{peer.UDPFrame(i, good, false)} }, good},
		{"crc-flipped", func(i uint16) [][]byte { f := peer.UDPFrame(i, good, false); f[2] ^= 4; return [][]byte{f} }, nil},
		{"declared-longer", func(i uint16) [][]byte {
			return [][]byte{peer.UDPFrame(i^1, marker, false), peer.UDPFrameDeclared(i, uint16(len(good)+50), good, false)}
		}, nil},
		{"declared-shorter", func(i uint16) [][]byte { return [][]byte{peer.UDPFrameDeclared(i, uint16(len(good)-5), good, false)} }, nil},
		{"short-datagram", func(i uint16) [][]byte { return [][]byte{{1, 2, 3}} }, nil},
		{"error-flag", func(i uint16) [][]byte { return [][]byte{peer.UDPFrame(i, []byte("error text"), true)} }, nil},
	}
	for _, v := range variants {
		pc, err := net.ListenUDP("udp", &net.UDPAddr{IP: net.IPv4(127, 0, 0, 1)})
		if err != nil {
			r.Inconclusive(err.Error())
			return
		}
		go func() {
			buf := make([]byte, 65536)
			for {
				n, addr, err := pc.ReadFromUDP(buf)
				if err != nil {
					return
				}
				index, _, _, _, err := peer.ParseUDPFrame(buf[:n])
				if err != nil {
					continue
				}
				for _, d := range v.reply(index) {
					pc.WriteToUDP(d, addr)
				}
			}
		}()
		client := core.NewClient("udp://" + pc.LocalAddr().String())
		ctx, _ := peer.Ctx(client, time.Second)
		resp, err := client.Request(ctx, []byte("request-bytes"))
		r.Eval(1)
		rep := map[string]interface{}{"variant": v.name}
		if err == nil {
			if v.exact == nil || !bytes.Equal(resp, v.exact) {
				kind := "corrupt-response-delivered"
				if bytes.Contains(resp, []byte("MARKER")) {
					kind = "response-completed-with-foreign-bytes"
				}
				c.Violation(kind+":udp:"+v.name, fmt.Sprintf("the caller was handed %d bytes %q without error", len(resp), clip(resp, 40)), rep)
			}
		} else if v.name == "intact" {
			c.Violation("intact-response-refused:udp", err.Error(), rep)
		}
		client.Abort()
		pc.Close()
		r.Distinct("udp|rawserver|" + v.name)
	}
}

// ---- raw http ----

func httpContentLength(c *h.Case, kind string) {
	r := c.R
	svc, rec := newRecordingService()
	srv, err := peer.Start(kind, svc)
	if err != nil {
		r.Inconclusive(err.Error())
		return
	}
	defer srv.Close()
	for _, declared := range []int{1, 5, 100, 5000} {
		for _, actual := range []int{0, 1, 4, 99} {
			if actual >= declared {
				continue
			}
			conn, err := net.DialTimeout("tcp", srv.Addr, 2*time.Second)
			if err != nil {
				r.Inconclusive(err.Error())
				return
			}
			body := bytes.Repeat([]byte{0xAB}, actual)
			fmt.Fprintf(conn, "POST / HTTP/1.1\r\nHost: x\r\nContent-Length: %d\r\nConnection: close\r\n\r\n", declared)
			conn.Write(body)
			conn.(*net.TCPConn).CloseWrite()
			conn.SetReadDeadline(time.Now().Add(500 * time.Millisecond))
			io.ReadAll(conn)
			conn.Close()
			settle()
			r.Eval(1)
			for _, s := range rec.take() {
				c.Violation("truncated-frame-delivered:"+kind, fmt.Sprintf("Content-Length %d but only %d bytes arrived before half-close: the service was handed %d bytes (padded=%v)", declared, actual, len(s), len(s) > actual), map[string]interface{}{"declared": declared, "actual": actual})
			}
			r.Distinct(fmt.Sprintf("%s|content-length|%d|%d", kind, declared, actual))
		}
	}
	// chunked (no declared length): must be delivered exactly
	for _, n := range []int{0, 1, 100, 70000} {
		body := bytes.Repeat([]byte{0xCD}, n)
		conn, err := net.DialTimeout("tcp", srv.Addr, 2*time.Second)
		if err != nil {
			return
		}
		fmt.Fprintf(conn, "POST / HTTP/1.1\r\nHost: x\r\nTransfer-Encoding: chunked\r\nConnection: close\r\n\r\n")
		for off := 0; off < n; off += 1000 {
			e := minInt(off+1000, n)
			fmt.Fprintf(conn, "%x\r\n", e-off)
			conn.Write(body[off:e])
			conn.Write([]byte("\r\n"))
		}
		conn.Write([]byte("0\r\n\r\n"))
		conn.SetReadDeadline(time.Now().Add(time.Second))
		io.ReadAll(conn)
		conn.Close()
		settle()
		r.Eval(1)
		seen := rec.take()
		if len(seen) == 1 && !bytes.Equal(seen[0], body) {
			c.Violation("request-bytes-changed:"+kind+":chunked", describeDiff("request", body, seen[0]), map[string]interface{}{"chunked_len": n})
		}
		r.Distinct(fmt.Sprintf("%s|chunked|%d", kind, n))
	}
}

func httpRawServer(c *h.Case) {
	r := c.R
	peer.Register()
	good := []byte("the-real-response-body")
	variants := []struct {
		name  string
		reply string
		exact []byte
	}{
		{"intact", fmt.Sprintf("HTTP/1.1 200 OK\r\nContent-Length: %d\r\nConnection: close\r\n\r\n%s", len(good), good), good},
		{"content-length-longer-then-close", fmt.Sprintf("HTTP/1.1 200 OK\r\nContent-Length: %d\r\nConnection: close\r\n\r\n%s", len(good)+10, good), nil},
		{"no-content-length", fmt.Sprintf("HTTP/1.1 200 OK\r\nConnection: close\r\n\r\n%s", good), good},
		{"status-500", "HTTP/1.1 500 Internal Server Error\r\nContent-Length: 3\r\nConnection: close\r\n\r\nerr", nil},
	}
	for _, v := range variants {
		ln, err := net.Listen("tcp", "127.0.0.1:0")
		if err != nil {
			r.Inconclusive(err.Error())
			return
		}
		go func() {
			for {
				conn, err := ln.Accept()
				if err != nil {
					return
				}
				go func() {
					defer conn.Close()
					buf := make([]byte, 4096)
					conn.SetReadDeadline(time.Now().Add(time.Second))
					conn.Read(buf)
					conn.Write([]byte(v.reply))
				}()
			}
		}()
		client := core.NewClient("http://" + ln.Addr().String() + "/")
		ctx, _ := peer.Ctx(client, 2*time.Second)
		resp, err := client.Request(ctx, []byte("request-bytes"))
		r.Eval(1)
		if err == nil {
			if v.exact == nil || !bytes.Equal(resp, v.exact) {
				c.Violation("corrupt-response-delivered:http:"+v.name, fmt.Sprintf("the caller was handed %d bytes %q without error (padded=%v)", len(resp), clip(resp, 40), len(resp) > len(good)), map[string]interface{}{"variant": v.name})
			}
		} else if v.exact != nil {
			c.Violation("intact-response-refused:http:"+v.name, err.Error(), nil)
		}
		ln.Close()
		r.Distinct("http|rawserver|" + v.name)
	}
}

// ---- raw websocket ----

func wsRawClient(c *h.Case, kind string) {
	r := c.R
	svc, rec := newRecordingService()
	srv, err := peer.Start(kind, svc)
	if err != nil {
		r.Inconclusive(err.Error())
		return
	}
	defer srv.Close()
	d := websocket.Dialer{HandshakeTimeout: 2 * time.Second}
	type variant struct {
		name string
		mt   int
		data []byte
		want []byte // nil: nothing may be delivered
	}
	body := []byte("0123456789abcdefghij")
	variants := []variant{
		{"intact", websocket.BinaryMessage, peer.WSFrame(5, body, false), body},
		{"empty-body", websocket.BinaryMessage, peer.WSFrame(5, nil, false), []byte{}},
		{"three-bytes", websocket.BinaryMessage, []byte{0, 0, 1}, nil},
		{"zero-bytes", websocket.BinaryMessage, []byte{}, nil},
		{"text-message", websocket.TextMessage, []byte("hello text"), nil},
		{"error-flag-from-client", websocket.BinaryMessage, peer.WSFrame(5, body, true), nil},
	}
	for _, v := range variants {
		conn, resp, err := d.Dial("ws://"+srv.Addr+"/", nethttp.Header{"Sec-WebSocket-Protocol": []string{"hprose"}})
		if resp != nil {
			resp.Body.Close()
		}
		if err != nil {
			r.Inconclusive("ws dial: " + err.Error())
			return
		}
		conn.WriteMessage(v.mt, v.data)
		if v.want != nil {
			rec.waitFor(1)
		}
		conn.SetReadDeadline(time.Now().Add(300 * time.Millisecond))
		conn.ReadMessage()
		conn.Close()
		settle()
		r.Eval(1)
		seen := rec.take()
		rep := map[string]interface{}{"variant": v.name, "transport": kind}
		for _, s := range seen {
			if v.want == nil || !bytes.Equal(s, v.want) {
				c.Violation("malformed-frame-delivered:"+kind+":"+v.name, fmt.Sprintf("the service was handed %d bytes %q", len(s), clip(s, 40)), rep)
			}
		}
		if v.want != nil && len(seen) != 1 {
			c.Violation("intact-frame-not-delivered:"+kind+":"+v.name, fmt.Sprintf("recorded %d times", len(seen)), rep)
		}
		r.Distinct(kind + "|rawclient|" + v.name)
	}
	// the server must still serve others
	client := srv.NewClient()
	ctx, _ := peer.Ctx(client, 2*time.Second)
	if _, err := client.Request(ctx, mkRequest(10, 10, 1, nil)); err != nil {
		c.Violation("server-gone-after-malformed-frames:"+kind, err.Error(), nil)
	}
	client.Abort()
}

func wsRawServer(c *h.Case) {
	r := c.R
	peer.Register()
	good := []byte("the-real-response-body")
	up := websocket.Upgrader{Subprotocols: []string{"hprose"}}
	type variant struct {
		name  string
		mt    int
		reply func(index uint32) []byte
		exact []byte
	}
	variants := []variant{
		{"intact", websocket.BinaryMessage, func(i uint32) []byte { return peer.WSFrame(i, good, false) }, good},
		{"three-bytes", websocket.BinaryMessage, func(i uint32) []byte { return []byte{0, 0, 1} }, nil},
		{"zero-bytes", websocket.BinaryMessage, func(i uint32) []byte { return []byte{} }, nil},
		{"text", websocket.TextMessage, func(i uint32) []byte { return []byte("text reply") }, nil},
		{"error-flag", websocket.BinaryMessage, func(i uint32) []byte { return peer.WSFrame(i, []byte("error text"), true) }, nil},
		{"other-index", websocket.BinaryMessage, func(i uint32) []byte { return peer.WSFrame(i+1, good, false) }, nil},
	}
	for _, v := range variants {
		ln, err := net.Listen("tcp", "127.0.0.1:0")
		if err != nil {
			r.Inconclusive(err.Error())
			return
		}
		server := &nethttp.Server{Handler: nethttp.HandlerFunc(func(w nethttp.ResponseWriter, req *nethttp.Request) {
			conn, err := up.Upgrade(w, req, nil)
			if err != nil {
				return
			}
			defer conn.Close()
			_, data, err := conn.ReadMessage()
			if err != nil || len(data) < 4 {
				return
			}
			index := binary.BigEndian.Uint32(data) & 0x7fffffff
			conn.WriteMessage(v.mt, v.reply(index))
			time.Sleep(100 * time.Millisecond)
		})}
		go server.Serve(ln)
		client := core.NewClient("ws://" + ln.Addr().String() + "/")
		ctx, _ := peer.Ctx(client, time.Second)
		resp, err := client.Request(ctx, []byte("request-bytes"))
		r.Eval(1)
		if err == nil {
			if v.exact == nil || !bytes.Equal(resp, v.exact) {
				c.Violation("corrupt-response-delivered:ws:"+v.name, fmt.Sprintf("the caller was handed %d bytes %q without error", len(resp), clip(resp, 40)), map[string]interface{}{"variant": v.name})
			}
		} else if v.exact != nil {
			c.Violation("intact-response-refused:ws", err.Error(), nil)
		}
		client.Abort()
		server.Close()
		r.Distinct("ws|rawserver|" + v.name)
	}
}

var _ = strings.Join

// lateResponse: a caller gives up on call 1; the peer answers it late, with a body that is
// itself a well-formed frame addressed to the call that is pending now. The pending call must
// get its own answer and nothing of the late one.
func lateResponse(c *h.Case, kind string) {
	r := c.R
	srv, err := peer.StartRaw(kind)
	if err != nil {
		r.Inconclusive(err.Error())
		return
	}
	defer srv.Close()
	client := srv.NewClient()
	defer client.Abort()
	for round := 0; round < 5; round++ {
		// call 1: abandoned after 30 ms
		ctx, _ := peer.Ctx(client, 30*time.Millisecond)
		type res1 struct {
			b   []byte
			err error
		}
		ch1 := make(chan res1, 1)
		go func() { b, err := client.Request(ctx, []byte("first call")); ch1 <- res1{b, err} }()
		var q1 peer.RawReq
		select {
		case q1 = <-srv.Reqs:
		case <-time.After(5 * time.Second):
			r.Inconclusive("request not received")
			return
		}
		if r1 := <-ch1; r1.err == nil {
			// nobody answered this call yet: whatever it returned belongs to another message
			c.Violation("response-completed-with-bytes-of-another-message:"+kind, fmt.Sprintf("round %d: a call that the peer had not answered returned %q without error (a late answer of an earlier, abandoned call?)", round, clip(r1.b, 80)), map[string]interface{}{"transport": kind, "round": round})
		}
		// call 2: pending
		ctx2, _ := peer.Ctx(client, 5*time.Second)
		type res struct {
			b   []byte
			err error
		}
		ch2 := make(chan res, 1)
		go func() { b, err := client.Request(ctx2, []byte("second call")); ch2 <- res{b, err} }()
		var q2 peer.RawReq
		select {
		case q2 = <-srv.Reqs:
		case <-time.After(5 * time.Second):
			r.Inconclusive("second request not received")
			return
		}
		// the late answer to call 1: its body is a frame for call 2's index carrying foreign bytes,
		// padded so that several header alignments are tried over the rounds
		forged := srv.Frame(q2.Index, []byte("these bytes belong to the answer of call 1"), false)
		late := append(make([]byte, 0, len(forged)+round), forged...)
		srv.Reply(q1.Conn, q1.Index, late, false)
		time.Sleep(20 * time.Millisecond)
		srv.Reply(q2.Conn, q2.Index, []byte("the answer of call 2"), false)
		r.Eval(1)
		select {
		case got := <-ch2:
			if got.err == nil && string(got.b) != "the answer of call 2" {
				c.Violation("response-completed-with-bytes-of-another-message:"+kind, fmt.Sprintf("call 2 was handed %q", clip(got.b, 80)), map[string]interface{}{"transport": kind, "round": round})
			}
			if got.err != nil {
				c.Violation("pending-call-failed-by-a-late-response:"+kind, fmt.Sprintf("a late, well-formed answer to an abandoned call made the pending call fail: %v", got.err), map[string]interface{}{"transport": kind, "round": round})
			}
		case <-time.After(8 * time.Second):
			c.Violation("pending-call-lost-after-a-late-response:"+kind, "call 2 did not return", map[string]interface{}{"transport": kind})
			return
		}
		r.Distinct(fmt.Sprintf("%s|late-response|%d", kind, round))
	}
}

// halfWriter lets a write through up to a byte budget, then fails it with a time-out error
// (what a write deadline does), once; later writes are whole again.
type halfWriter struct {
	net.Conn
	mu     sync.Mutex
	budget int // bytes still allowed before the single failure; < 0 = failure spent
}

type timeoutErr struct{}

func (timeoutErr) Error() string   { return "injected write time-out in the middle of a frame" }
func (timeoutErr) Timeout() bool   { return true }
func (timeoutErr) Temporary() bool { return true }

func (w *halfWriter) Write(p []byte) (int, error) {
	w.mu.Lock()
	b := w.budget
	if b >= 0 {
		if len(p) <= b {
			w.budget -= len(p)
			w.mu.Unlock()
			return w.Conn.Write(p)
		}
		w.budget = -1
		w.mu.Unlock()
		n, _ := w.Conn.Write(p[:b])
		return n, timeoutErr{}
	}
	w.mu.Unlock()
	return w.Conn.Write(p)
}

// partialWrite: a write of the client times out after part of a frame has gone out; then the same
// client sends further requests. The service must never be handed a request made of the broken
// frame completed with bytes of the following ones.
func partialWrite(c *h.Case, kind string) {
	r := c.R
	for _, budget := range []int{0, 5, 12, 12 + 1, 12 + 500, 12 + 999} {
		svc, rec := newRecordingService()
		srv, err := peer.Start(kind, svc)
		if err != nil {
			r.Inconclusive(err.Error())
			return
		}
		client := srv.NewClient()
		first := true
		var wmu sync.Mutex
		client.GetTransport("socket").(*socket.Transport).OnConnect = func(conn net.Conn) net.Conn {
			wmu.Lock()
			defer wmu.Unlock()
			if first {
				first = false
				// the warm-up call passes (12 + 10 bytes), the budget then runs out inside the next frame
				return &halfWriter{Conn: conn, budget: 22 + budget}
			}
			return conn
		}
		submitted := map[string]bool{}
		send := func(body []byte) {
			submitted[string(body)] = true
			ctx, _ := peer.Ctx(client, 2*time.Second)
			client.Request(ctx, body)
			r.Eval(1)
		}
		send(bytes.Repeat([]byte{'w'}, 10))
		send(bytes.Repeat([]byte{'a'}, 1000)) // broken in the middle
		send(bytes.Repeat([]byte{'b'}, 488))
		send(bytes.Repeat([]byte{'c'}, 1000))
		settle()
		for _, s := range rec.take() {
			if !submitted[string(s)] {
				c.Violation("frame-completed-with-bytes-of-the-next-request:"+kind, fmt.Sprintf("a write timed out %d bytes into a frame and the client went on: the service was handed %d bytes that no caller submitted: %q…", budget, len(s), clip(s, 48)), map[string]interface{}{"transport": kind, "bytes_written_of_the_broken_frame": budget})
			}
		}
		client.Abort()
		srv.Close()
		r.Distinct(fmt.Sprintf("%s|partial-write|%d", kind, budget))
	}
}
