package c06

import (
	"fmt"
	"math"
	"math/big"
	"strconv"
	"time"

	"verif/internal/eqv"
)

// token is one wire spelling of a value, written by hand from the grammar (never by the
// repository's encoder), with the value it denotes.
type token struct {
	name  string
	b     string
	d     *eqv.D
	class string // int, double, special-float, nil, empty, bool, char, string, bytes, date, guid, list, map, object
}

func bi(s string) *big.Int { x, _ := new(big.Int).SetString(s, 10); return x }

func intTok(tag byte, s string) token {
	b := string(tag) + s + ";"
	if tag == 0 {
		b = s
	}
	return token{name: "int:" + b, b: b, d: &eqv.D{K: eqv.KInt, I: bi(s)}, class: "int"}
}

func dblTok(s string) token {
	f, _ := strconv.ParseFloat(s, 64)
	d := &eqv.D{K: eqv.KFloat, F: f}
	if bf, _, err := big.ParseFloat(s, 10, 2000, big.ToNearestEven); err == nil {
		d.Big = bf
	}
	return token{name: "double:d" + s + ";", b: "d" + s + ";", d: d, class: "double"}
}

func utf16len(s string) int {
	n := 0
	for _, r := range s {
		if r >= 0x10000 {
			n += 2
		} else {
			n++
		}
	}
	return n
}

func strTok(s string) token {
	n := utf16len(s)
	b := "s" + strconv.Itoa(n) + `"` + s + `"`
	if n == 0 {
		b = `s""`
	}
	return token{name: "string:" + b, b: b, d: &eqv.D{K: eqv.KStr, S: s}, class: "string"}
}

func bytesTok(s string) token {
	b := "b" + strconv.Itoa(len(s)) + `"` + s + `"`
	if len(s) == 0 {
		b = `b""`
	}
	return token{name: "bytes:" + fmt.Sprintf("%q", b), b: b, d: &eqv.D{K: eqv.KBytes, S: s}, class: "bytes"}
}

func timeTok(b string, t time.Time) token {
	return token{name: "date:" + b, b: b, d: &eqv.D{K: eqv.KTime, T: t, UTC: t.Location() == time.UTC}, class: "date"}
}

func listTok(b string, items ...*eqv.D) token {
	if items == nil {
		items = []*eqv.D{}
	}
	return token{name: "list:" + b, b: b, d: &eqv.D{K: eqv.KList, List: items}, class: "list"}
}

func iD(i int64) *eqv.D   { return &eqv.D{K: eqv.KInt, I: big.NewInt(i)} }
func sD(s string) *eqv.D  { return &eqv.D{K: eqv.KStr, S: s} }
func fD(f float64) *eqv.D { return &eqv.D{K: eqv.KFloat, F: f} }
func nilD() *eqv.D        { return &eqv.D{K: eqv.KNil} }

func mapTok(b string, kv ...*eqv.D) token {
	d := &eqv.D{K: eqv.KMap}
	for i := 0; i+1 < len(kv); i += 2 {
		d.Keys = append(d.Keys, kv[i])
		d.Vals = append(d.Vals, kv[i+1])
	}
	return token{name: "map:" + b, b: b, d: d, class: "map"}
}

func objTok(b, class string, fv ...interface{}) token {
	d := &eqv.D{K: eqv.KObj, Class: class}
	for i := 0; i+1 < len(fv); i += 2 {
		d.Field = append(d.Field, fv[i].(string))
		d.Vals = append(d.Vals, fv[i+1].(*eqv.D))
	}
	return token{name: "object:" + b, b: b, d: d, class: "object"}
}

// tokens returns every token form: each tag class, its alternative spellings and boundary values.
func tokens() []token {
	var ts []token
	for i := 0; i <= 9; i++ {
		ts = append(ts, intTok(0, strconv.Itoa(i)))
	}
	for _, s := range []string{"0", "7", "10", "-1", "-9", "127", "128", "-128", "-129", "255", "256", "32767", "32768", "-32768", "-32769", "65535", "65536", "2147483647", "-2147483648", "16777217"} {
		ts = append(ts, intTok('i', s))
	}
	for _, s := range []string{"0", "5", "-1", "255", "2147483648", "-2147483649", "4294967295", "4294967296", "9007199254740993", "9223372036854775807", "9223372036854775808", "-9223372036854775808", "-9223372036854775809",
		"18446744073709551615", "18446744073709551616", "123456789012345678901234567890", "-123456789012345678901234567890"} {
		ts = append(ts, intTok('l', s))
	}
	for _, s := range []string{"0", "1", "-1", "1.5", "-2.5", "0.1", "1e2", "1E2", "3.0", "255", "256", "-0", "127", "128", "-129", "65536", "16777217", "4294967296", "9007199254740993", "1e19", "-1e19", "1e20",
		"3.4028235e38", "1e39", "5e-324", "1e-50", "1.7976931348623157e308", "2147483647", "2147483648", "0.5", "1e400", "123456789.125"} {
		ts = append(ts, dblTok(s))
	}
	ts = append(ts,
		token{"special:N", "N", &eqv.D{K: eqv.KFloat, F: math.NaN()}, "special-float"},
		token{"special:I+", "I+", &eqv.D{K: eqv.KFloat, F: math.Inf(1)}, "special-float"},
		token{"special:I-", "I-", &eqv.D{K: eqv.KFloat, F: math.Inf(-1)}, "special-float"},
		token{"nil:n", "n", nilD(), "nil"},
		token{"empty:e", "e", sD(""), "empty"},
		token{"bool:t", "t", &eqv.D{K: eqv.KBool, B: true}, "bool"},
		token{"bool:f", "f", &eqv.D{K: eqv.KBool, B: false}, "bool"},
	)
	for _, c := range []string{"A", "5", "0", "t", "中", "é", "\x00", "\"", "-"} {
		ts = append(ts, token{"char:u" + c, "u" + c, sD(c), "char"})
	}
	for _, s := range []string{"", "a", "7", "abc", "123", "-45", "300", "70000", "5000000000", "99999999999999999999", "1.5", "1e2", "true", "false", "😀", "中文", "a😀", "NaN", "+Inf", " 1", "1 ", "0x10",
		"550e8400-e29b-41d4-a716-446655440000", "1/3", "-7/2", "(1+2i)", "2022-02-27", "Mon Jan  2 15:04:05 MST 2006", "02 Jan 06 15:04 PST", "Monday, 02-Jan-06 15:04:05 CEST", "Mon, 02 Jan 2006 15:04:05 AEST", "2022-02-27 01:02:03+08:00", "2022-02-27T01:02:03.5Z", "12345678901234567890123", "t", "T", "1", "0"} {
		ts = append(ts, strTok(s))
	}
	for _, s := range []string{"", "a", "abc", "123", "\xff\xfe", "\x00\x01\x02", "0123456789abcdef", "550e8400-e29b-41d4-a716-446655440000", "true", "中"} {
		ts = append(ts, bytesTok(s))
	}
	L := time.Local
	ts = append(ts,
		timeTok("D20220227;", time.Date(2022, 2, 27, 0, 0, 0, 0, L)),
		timeTok("D20220227Z", time.Date(2022, 2, 27, 0, 0, 0, 0, time.UTC)),
		timeTok("D20220227T010203;", time.Date(2022, 2, 27, 1, 2, 3, 0, L)),
		timeTok("D20220227T010203.123Z", time.Date(2022, 2, 27, 1, 2, 3, 123000000, time.UTC)),
		timeTok("D20220227T010203.123456;", time.Date(2022, 2, 27, 1, 2, 3, 123456000, L)),
		timeTok("D19700101T000000.000000001Z", time.Date(1970, 1, 1, 0, 0, 0, 1, time.UTC)),
		timeTok("T010203;", time.Date(1970, 1, 1, 1, 2, 3, 0, L)),
		timeTok("T235959.999999999Z", time.Date(1970, 1, 1, 23, 59, 59, 999999999, time.UTC)),
		timeTok("D00010101Z", time.Date(1, 1, 1, 0, 0, 0, 0, time.UTC)),
		timeTok("D99991231T235959Z", time.Date(9999, 12, 31, 23, 59, 59, 0, time.UTC)),
		token{"guid", "g{550e8400-e29b-41d4-a716-446655440000}", &eqv.D{K: eqv.KUUID, S: "550e8400-e29b-41d4-a716-446655440000"}, "guid"},
		token{"guid-upper", "g{550E8400-E29B-41D4-A716-446655440000}", &eqv.D{K: eqv.KUUID, S: "550e8400-e29b-41d4-a716-446655440000"}, "guid"},
		token{"guid-nil", "g{00000000-0000-0000-0000-000000000000}", &eqv.D{K: eqv.KUUID, S: "00000000-0000-0000-0000-000000000000"}, "guid"},
	)
	ts = append(ts,
		listTok("a{}"),
		listTok("a1{1}", iD(1)),
		listTok("a2{12}", iD(1), iD(2)),
		listTok("a3{i10;i20;i30;}", iD(10), iD(20), iD(30)),
		listTok(`a3{1s1"a"n}`, iD(1), sD("a"), nilD()),
		listTok("a2{d1.5;d2.5;}", fD(1.5), fD(2.5)),
		listTok(`a2{s2"ab"s2"cd"}`, sD("ab"), sD("cd")),
		listTok("a2{a1{1}a{}}", &eqv.D{K: eqv.KList, List: []*eqv.D{iD(1)}}, &eqv.D{K: eqv.KList, List: []*eqv.D{}}),
		listTok("a4{i300;i-1;l5000000000;1}", iD(300), iD(-1), iD(5000000000), iD(1)),
		listTok("a3{a3{123}a2{78}a1{9}}", &eqv.D{K: eqv.KList, List: []*eqv.D{iD(1), iD(2), iD(3)}}, &eqv.D{K: eqv.KList, List: []*eqv.D{iD(7), iD(8)}}, &eqv.D{K: eqv.KList, List: []*eqv.D{iD(9)}}),
		listTok(`a3{a2{s2"ab"s2"cd"}a1{s2"ef"}a{}}`, &eqv.D{K: eqv.KList, List: []*eqv.D{sD("ab"), sD("cd")}}, &eqv.D{K: eqv.KList, List: []*eqv.D{sD("ef")}}, &eqv.D{K: eqv.KList, List: []*eqv.D{}}),
		listTok(`a2{m2{s1"a"1s1"b"2}m1{s1"c"3}}`, &eqv.D{K: eqv.KMap, Keys: []*eqv.D{sD("a"), sD("b")}, Vals: []*eqv.D{iD(1), iD(2)}}, &eqv.D{K: eqv.KMap, Keys: []*eqv.D{sD("c")}, Vals: []*eqv.D{iD(3)}}),
		listTok("a2{a2{12}a2{34}}", &eqv.D{K: eqv.KList, List: []*eqv.D{iD(1), iD(2)}}, &eqv.D{K: eqv.KList, List: []*eqv.D{iD(3), iD(4)}}),
		listTok("a2{tf}", &eqv.D{K: eqv.KBool, B: true}, &eqv.D{K: eqv.KBool, B: false}),
		listTok("a3{i97;i98;i99;}", iD(97), iD(98), iD(99)),
	)
	ts = append(ts,
		mapTok("m{}"),
		mapTok(`m1{1s1"a"}`, iD(1), sD("a")),
		mapTok(`m2{s1"a"1s1"b"2}`, sD("a"), iD(1), sD("b"), iD(2)),
		mapTok(`m1{s1"a"i5;}`, sD("a"), iD(5)),
		mapTok(`m2{uauxs2"bb"n}`, sD("a"), sD("x"), sD("bb"), nilD()),
		mapTok(`m1{d1.5;t}`, fD(1.5), &eqv.D{K: eqv.KBool, B: true}),
		mapTok(`m2{01s1"1"2}`, iD(0), iD(1), sD("1"), iD(2)),
	)
	ts = append(ts,
		objTok(`c3"One"1{s1"a"}o0{5}`, "One", "a", iD(5)),
		objTok(`c3"One"1{s1"a"}o0{i300;}`, "One", "a", iD(300)),
		objTok(`c3"One"2{s1"a"s5"extra"}o0{5s1"x"}`, "One", "a", iD(5), "extra", sD("x")),   // extra field
		objTok(`c3"One"{}o0{}`, "One"),                                                      // missing field
		objTok(`c5"Inner"2{s2"iB"s2"iA"}o0{s2"bb"7}`, "Inner", "iB", sD("bb"), "iA", iD(7)), // reordered
		objTok(`c5"Inner"2{s2"iA"s2"iB"}o0{7s2"bb"}`, "Inner", "iA", iD(7), "iB", sD("bb")),
		objTok(`c7"Nowhere"1{s1"a"}o0{5}`, "Nowhere", "a", iD(5)),              // class unknown to the receiver
		mapTok(`m1{s1"a"5}`, sD("a"), iD(5)),                                   // map standing in for object One
		mapTok(`m2{s2"iA"7s2"iB"s2"bb"}`, sD("iA"), iD(7), sD("iB"), sD("bb")), // map standing in for Inner
	)
	// references to strings / bytes / lists inside a list (reference mode only)
	ts = append(ts,
		token{"ref:string", `a2{s3"abc"r1;}`, &eqv.D{K: eqv.KList, List: []*eqv.D{sD("abc"), sD("abc")}}, "list-with-ref"},
		token{"ref:digits", `a2{s3"123"r1;}`, &eqv.D{K: eqv.KList, List: []*eqv.D{sD("123"), sD("123")}}, "list-with-ref"},
		token{"ref:bytes", `a2{b2"ab"r1;}`, &eqv.D{K: eqv.KList, List: []*eqv.D{{K: eqv.KBytes, S: "ab"}, {K: eqv.KBytes, S: "ab"}}}, "list-with-ref"},
		token{"ref:list", `a2{a1{1}r1;}`, &eqv.D{K: eqv.KList, List: []*eqv.D{{K: eqv.KList, List: []*eqv.D{iD(1)}}, {K: eqv.KList, List: []*eqv.D{iD(1)}}}}, "list-with-ref"},
		token{"ref:guid", `a2{g{550e8400-e29b-41d4-a716-446655440000}r1;}`, &eqv.D{K: eqv.KList, List: []*eqv.D{{K: eqv.KUUID, S: "550e8400-e29b-41d4-a716-446655440000"}, {K: eqv.KUUID, S: "550e8400-e29b-41d4-a716-446655440000"}}}, "list-with-ref"},
		token{"ref:date", `a2{D20220227Zr1;}`, &eqv.D{K: eqv.KList, List: []*eqv.D{{K: eqv.KTime, T: time.Date(2022, 2, 27, 0, 0, 0, 0, time.UTC), UTC: true}, {K: eqv.KTime, T: time.Date(2022, 2, 27, 0, 0, 0, 0, time.UTC), UTC: true}}}, "list-with-ref"},
	)
	return ts
}
