// C06 — the decoder accepts every well-formed stream and converts losslessly across types;
// a destination that cannot accept a token yields an error; the outcome does not depend on
// the container position.
package c06

import (
	"fmt"
	"math"
	"reflect"
	"strings"
	"testing"

	hio "github.com/hprose/hprose-golang/v3/io"
	"verif/internal/eqv"
	"verif/internal/gen"
	"verif/internal/gentypes"
	"verif/internal/h"
	"verif/internal/iox"
)

func dests() []reflect.Type {
	ts := []reflect.Type{
		gen.TBool, gen.TInt, gen.TInt8, gen.TInt16, gen.TInt32, gen.TInt64, gen.TUint, gen.TUint8, gen.TUint16, gen.TUint32, gen.TUint64, gen.TUintptr,
		gen.TFloat32, gen.TFloat64, gen.TComplex64, gen.TComplex128, gen.TString, gen.TBytes,
		gen.TBigIntP, gen.TBigFloatP, gen.TBigRatP, gen.TBigInt, gen.TBigFloat, gen.TBigRat, gen.TTime, gen.TUUID, gen.TListP, gen.TIface,
	}
	ts = append(ts, gentypes.NamedScalars...)
	ts = append(ts,
		reflect.TypeOf([]int(nil)), reflect.TypeOf([]int8(nil)), reflect.TypeOf([]uint16(nil)), reflect.TypeOf([]string(nil)), reflect.TypeOf([]interface{}(nil)), reflect.TypeOf([]float64(nil)), reflect.TypeOf([][]int(nil)),
		reflect.TypeOf([2]int{}), reflect.TypeOf([3]byte{}), reflect.TypeOf([1]string{}),
		reflect.TypeOf(map[string]int(nil)), reflect.TypeOf(map[int]string(nil)), reflect.TypeOf(map[string]interface{}(nil)), reflect.TypeOf(map[interface{}]interface{}(nil)), reflect.TypeOf(map[string]string(nil)),
		reflect.TypeOf(map[int][]int(nil)), reflect.TypeOf(map[int]gentypes.One(nil)), reflect.TypeOf(map[uint16][]string(nil)), reflect.TypeOf(map[int64]map[string]int(nil)), reflect.TypeOf(map[int][2]int(nil)),
		reflect.TypeOf(gentypes.One{}), reflect.TypeOf(gentypes.Inner{}), reflect.TypeOf(struct{ A int }{}), reflect.TypeOf(struct {
			IA int8
			IB string
		}{}),
	)
	return ts
}

// position wraps a token for destination type t into a container stream.
type position struct {
	name string
	// build returns the stream, the container type to decode into, how many referable items
	// precede the token (to renumber references) and an extractor yielding the values at the
	// positions the token occupies.
	build func(t reflect.Type, tok string, refTok bool) (stream string, ct reflect.Type, extract func(reflect.Value) []reflect.Value, ok bool)
}

func renumber(tok string, shift int) string {
	if shift == 0 {
		return tok
	}
	return strings.Replace(tok, "r1;", fmt.Sprintf("r%d;", 1+shift), 1)
}

// reclass shifts the class index of an object token that follows one foreign class definition.
func reclass(tok string) string {
	if strings.HasPrefix(tok, "c") {
		return strings.Replace(tok, "}o0{", "}o1{", 1)
	}
	return tok
}

func two(refTok bool, tok string, shift int) (string, int) {
	if refTok || strings.HasPrefix(tok, "c") {
		return renumber(tok, shift), 1
	}
	return tok + tok, 2
}

// namedFieldOf maps a destination type to a field of a named struct type of gentypes.
var namedFieldOf = map[reflect.Type][2]interface{}{}

func init() {
	for _, st := range []reflect.Type{reflect.TypeOf(gentypes.Scalars{}), reflect.TypeOf(gentypes.Ptrs{}), reflect.TypeOf(gentypes.Libs{}), reflect.TypeOf(gentypes.Slices{}), reflect.TypeOf(gentypes.Maps{})} {
		for i := 0; i < st.NumField(); i++ {
			f := st.Field(i)
			if _, ok := namedFieldOf[f.Type]; !ok {
				namedFieldOf[f.Type] = [2]interface{}{st, i}
			}
		}
	}
}

func positions() []position {
	sf := func(name string, t reflect.Type) reflect.StructField { return reflect.StructField{Name: name, Type: t} }
	return []position{
		{"ptr", func(t reflect.Type, tok string, ref bool) (string, reflect.Type, func(reflect.Value) []reflect.Value, bool) {
			return tok, reflect.PtrTo(t), func(v reflect.Value) []reflect.Value { return []reflect.Value{v} }, true
		}},
		{"ptr2", func(t reflect.Type, tok string, ref bool) (string, reflect.Type, func(reflect.Value) []reflect.Value, bool) {
			return tok, reflect.PtrTo(reflect.PtrTo(t)), func(v reflect.Value) []reflect.Value { return []reflect.Value{v} }, true
		}},
		{"anon-field", func(t reflect.Type, tok string, ref bool) (string, reflect.Type, func(reflect.Value) []reflect.Value, bool) {
			ct := reflect.StructOf([]reflect.StructField{sf("A", gen.TInt), sf("F", t)})
			return `m2{ua1uf` + renumber(tok, 1) + `}`, ct, func(v reflect.Value) []reflect.Value { return []reflect.Value{v.Field(1)} }, true
		}},
		{"anon-field-ptr", func(t reflect.Type, tok string, ref bool) (string, reflect.Type, func(reflect.Value) []reflect.Value, bool) {
			ct := reflect.StructOf([]reflect.StructField{sf("F", reflect.PtrTo(t))})
			return `m1{uf` + renumber(tok, 1) + `}`, ct, func(v reflect.Value) []reflect.Value { return []reflect.Value{v.Field(0)} }, true
		}},
		{"named-field", func(t reflect.Type, tok string, ref bool) (string, reflect.Type, func(reflect.Value) []reflect.Value, bool) {
			nf, ok := namedFieldOf[t]
			if !ok {
				return "", nil, nil, false
			}
			st, i := nf[0].(reflect.Type), nf[1].(int)
			alias := eqv.Alias(st.Field(i))
			stream := fmt.Sprintf(`c%d"%s"1{s%d"%s"}o0{%s}`, len(st.Name()), st.Name(), len(alias), alias, reclass(renumber(tok, 2)))
			return stream, st, func(v reflect.Value) []reflect.Value { return []reflect.Value{v.Field(i)} }, true
		}},
		{"named-field-ptr", func(t reflect.Type, tok string, ref bool) (string, reflect.Type, func(reflect.Value) []reflect.Value, bool) {
			nf, ok := namedFieldOf[reflect.PtrTo(t)]
			if !ok {
				return "", nil, nil, false
			}
			st, i := nf[0].(reflect.Type), nf[1].(int)
			alias := eqv.Alias(st.Field(i))
			stream := fmt.Sprintf(`c%d"%s"1{s%d"%s"}o0{%s}`, len(st.Name()), st.Name(), len(alias), alias, reclass(renumber(tok, 2)))
			return stream, st, func(v reflect.Value) []reflect.Value { return []reflect.Value{v.Field(i)} }, true
		}},
		{"slice-elem", func(t reflect.Type, tok string, ref bool) (string, reflect.Type, func(reflect.Value) []reflect.Value, bool) {
			body, n := two(ref, tok, 1)
			return fmt.Sprintf("a%d{%s}", n, body), reflect.SliceOf(t), func(v reflect.Value) []reflect.Value {
				var out []reflect.Value
				for i := 0; i < v.Len(); i++ {
					out = append(out, v.Index(i))
				}
				if v.Len() != n {
					out = append(out, reflect.Value{})
				}
				return out
			}, true
		}},
		{"slice-elem-ptr", func(t reflect.Type, tok string, ref bool) (string, reflect.Type, func(reflect.Value) []reflect.Value, bool) {
			body, n := two(ref, tok, 1)
			return fmt.Sprintf("a%d{%s}", n, body), reflect.SliceOf(reflect.PtrTo(t)), func(v reflect.Value) []reflect.Value {
				var out []reflect.Value
				for i := 0; i < v.Len(); i++ {
					out = append(out, v.Index(i))
				}
				if v.Len() != n {
					out = append(out, reflect.Value{})
				}
				return out
			}, true
		}},
		{"array-elem", func(t reflect.Type, tok string, ref bool) (string, reflect.Type, func(reflect.Value) []reflect.Value, bool) {
			body, n := two(ref, tok, 1)
			return fmt.Sprintf("a%d{%s}", n, body), reflect.ArrayOf(n, t), func(v reflect.Value) []reflect.Value {
				var out []reflect.Value
				for i := 0; i < v.Len(); i++ {
					out = append(out, v.Index(i))
				}
				return out
			}, true
		}},
		{"map-value", func(t reflect.Type, tok string, ref bool) (string, reflect.Type, func(reflect.Value) []reflect.Value, bool) {
			mt := reflect.MapOf(gen.TString, t)
			if ref || strings.HasPrefix(tok, "c") {
				return `m1{uk` + renumber(tok, 1) + `}`, mt, func(v reflect.Value) []reflect.Value { return []reflect.Value{v.MapIndex(reflect.ValueOf("k"))} }, true
			}
			return `m2{uk` + tok + `uj` + tok + `}`, mt, func(v reflect.Value) []reflect.Value {
				return []reflect.Value{v.MapIndex(reflect.ValueOf("k")), v.MapIndex(reflect.ValueOf("j"))}
			}, true
		}},
		{"map-value-ptr", func(t reflect.Type, tok string, ref bool) (string, reflect.Type, func(reflect.Value) []reflect.Value, bool) {
			mt := reflect.MapOf(gen.TString, reflect.PtrTo(t))
			if ref || strings.HasPrefix(tok, "c") {
				return `m1{uk` + renumber(tok, 1) + `}`, mt, func(v reflect.Value) []reflect.Value { return []reflect.Value{v.MapIndex(reflect.ValueOf("k"))} }, true
			}
			return `m2{uk` + tok + `uj` + tok + `}`, mt, func(v reflect.Value) []reflect.Value {
				return []reflect.Value{v.MapIndex(reflect.ValueOf("k")), v.MapIndex(reflect.ValueOf("j"))}
			}, true
		}},
		{"map-key", func(t reflect.Type, tok string, ref bool) (string, reflect.Type, func(reflect.Value) []reflect.Value, bool) {
			if !gen.Hashable(t) || t.Kind() == reflect.Interface {
				return "", nil, nil, false
			}
			return `m1{` + renumber(tok, 1) + `7}`, reflect.MapOf(t, gen.TInt), func(v reflect.Value) []reflect.Value {
				var out []reflect.Value
				it := v.MapRange()
				for it.Next() {
					out = append(out, it.Key())
				}
				if len(out) != 1 {
					out = append(out, reflect.Value{})
				}
				return out
			}, true
		}},
	}
}

type outcome struct {
	panicked interface{}
	stack    string
	err      error
	v        reflect.Value // of the container type
	aliased  string
}

func decode(stream string, ct reflect.Type, simple bool, entry int) (o outcome) {
	ptr := reflect.New(ct)
	data := []byte(stream)
	o.panicked, o.stack = h.Try(func() { o.err = iox.Decode(data, ptr.Interface(), simple, iox.Setting{}, entry) })
	o.v = ptr.Elem()
	if o.panicked == nil && o.err == nil {
		// aliasing monitor: the decoded value must not change when the input is overwritten
		before := clipv(o.v)
		for i := range data {
			data[i] = 0xAA
		}
		if after := clipv(o.v); after != before {
			o.aliased = fmt.Sprintf("before=%s after=%s", before, after)
		}
	}
	return
}

// deref follows pointers; ok=false if a nil pointer is met.
func deref(v reflect.Value, t reflect.Type) (reflect.Value, bool) {
	for v.IsValid() && v.Type() != t && v.Kind() == reflect.Ptr {
		if v.IsNil() {
			return v, false
		}
		v = v.Elem()
	}
	return v, v.IsValid()
}

func tclass(t reflect.Type) string {
	s := t.String()
	if len(s) > 40 {
		s = s[:40]
	}
	return s
}

func TestCheck(t *testing.T) {
	r := h.Start(t, "C06")
	defer r.Finish()
	toks := tokens()
	ds := dests()
	pos := positions()
	r.Meta("rule", fmt.Sprintf("full matrix, exhaustive: %d wire token forms (every tag class, alternative spellings, boundary values; written by hand from the grammar, never by the repository's encoder) x %d destination types x 13 positions (top level, *T, **T, anonymous/named struct field, slice/array element, map value, map key, and the pointer variants) x {simple, reference} x {Unmarshal, NewDecoder, FromReader}. Oracles: no panic; position consistency (outcome at every position equals the top-level outcome); exactness where the statement determines the cell (lossless conversion -> that value; destination cannot accept -> error). distinct_nontrivial = distinct (token, destination, position) cells executed; exactness_checked counts cells with a determined expectation", len(toks), len(ds)))
	r.Meta("exhaustive", true)
	r.Meta("assumptions", []string{
		"exactness table (checks/c06/expect.go) is deliberately partial: only cells the property statement determines (lossless numeric widening, digit strings, u/s/e/b interconversion, null into nillable types, date/guid, containers into scalars are errors, out-of-range and non-integral numbers into integer types are errors); everything else is left to position consistency",
		"default decoder settings for interface{} destinations (settings are covered by C01); long tokens beyond int64 into interface{} are undetermined",
	})
	for _, tk := range toks {
		for _, dt := range ds {
			tk, dt := tk, dt
			r.Case(fmt.Sprintf("%s -> %s", tk.name, tclass(dt)), func(c *h.Case) { cell(c, tk, dt, pos) })
		}
	}
}

func cell(c *h.Case, tk token, dt reflect.Type, pos []position) {
	r := c.R
	refTok := tk.class == "list-with-ref"
	exp := expect(tk.d, dt)
	for _, simple := range []bool{true, false} {
		if refTok && simple {
			continue
		}
		for entry := 0; entry < iox.NDec; entry++ {
			top := decode(tk.b, dt, simple, entry)
			r.Eval(1)
			rep := map[string]interface{}{"token": tk.b, "dest": dt.String(), "simple": simple, "entry": iox.DecName(entry)}
			sigCell := tk.class + "->" + tclass(dt)
			if top.panicked != nil {
				c.Violation("panic:"+sigCell+":"+h.PanicClass(fmt.Sprint(top.panicked))+"@"+h.FirstRepoFrame(top.stack), fmt.Sprintf("decoding %q into %s panicked: %v\n%s", tk.b, dt, top.panicked, h.TrimStack(top.stack)), rep)
				continue
			}
			if top.aliased != "" {
				c.Violation("decoded-value-aliases-input:"+sigCell, fmt.Sprintf("%q decoded into %s changed when the input buffer was overwritten: %s", tk.b, dt, top.aliased), rep)
			}
			// exactness
			switch exp.kind {
			case wantValue:
				r.Stat("exactness_checked", 1)
				if top.err != nil {
					c.Violation("lossless-conversion-refused:"+sigCell, fmt.Sprintf("%q denotes %s, which %s can represent exactly, but decoding failed: %v", tk.b, tk.d, dt, top.err), rep)
				} else if why := safeEqual(exp.val, top.v); why != "" {
					c.Violation("wrong-value:"+sigCell, fmt.Sprintf("%q denotes %s; decoded into %s it gave %s (expected %s): %s", tk.b, tk.d, dt, clipv(top.v), clipv(exp.val), why), rep)
				}
			case wantDenote:
				r.Stat("exactness_checked", 1)
				if top.err != nil {
					c.Violation("well-formed-stream-refused:"+sigCell, fmt.Sprintf("%q is well formed but decoding into %s failed: %v", tk.b, dt, top.err), rep)
				} else if why := eqv.DEqual(tk.d, eqv.DenoteValue(top.v)); why != "" {
					c.Violation("wrong-denotation:"+sigCell, fmt.Sprintf("%q denotes %s; decoded into %s it gave %s: %s", tk.b, tk.d, dt, clipv(top.v), why), rep)
				}
			case wantError:
				r.Stat("exactness_checked", 1)
				if top.err == nil {
					c.Violation("wrong-value-no-error:"+sigCell, fmt.Sprintf("%q (%s) cannot be represented by %s (%s) but decoding returned %s without an error", tk.b, tk.d, dt, exp.why, clipv(top.v)), rep)
				}
			}
			// position consistency
			for _, p := range pos {
				stream, ct, extract, ok := p.build(dt, tk.b, refTok)
				if !ok {
					continue
				}
				o := decode(stream, ct, simple, entry)
				r.Eval(1)
				rep2 := map[string]interface{}{"token": tk.b, "dest": dt.String(), "position": p.name, "stream": stream, "container": ct.String(), "simple": simple, "entry": iox.DecName(entry)}
				if o.panicked != nil {
					c.Violation("panic:"+p.name+":"+sigCell+":"+h.PanicClass(fmt.Sprint(o.panicked))+"@"+h.FirstRepoFrame(o.stack), fmt.Sprintf("decoding %q into %s panicked: %v\n%s", stream, ct, o.panicked, h.TrimStack(o.stack)), rep2)
					continue
				}
				r.Distinct(tk.name + "|" + dt.String() + "|" + p.name)
				if o.aliased != "" {
					c.Violation("decoded-value-aliases-input:"+p.name+":"+sigCell, fmt.Sprintf("stream %q decoded into %s changed when the input buffer was overwritten: %s", stream, ct, o.aliased), rep2)
				}
				if (top.err == nil) != (o.err == nil) {
					if p.name == "map-key" && top.err == nil && isNaNValue(top.v) {
						continue
					}
					if tk.class == "nil" && top.err != nil && o.err == nil && (strings.HasSuffix(p.name, "ptr") || strings.HasPrefix(p.name, "ptr")) {
						continue // null into a pointer is nil, whatever null means for the pointee type
					}
					c.Violation("position-inconsistent-error:"+p.name+":"+sigCell, fmt.Sprintf("token %q into %s: top level error=%v, at position %s (stream %q into %s) error=%v", tk.b, dt, top.err, p.name, stream, ct, o.err), rep2)
					continue
				}
				if top.err != nil {
					continue
				}
				var vals []reflect.Value
				pp, _ := h.Try(func() { vals = extract(o.v) })
				if pp != nil {
					c.Violation("position-corrupt:"+p.name+":"+sigCell, fmt.Sprintf("decoded container cannot be traversed: %v (stream %q into %s)", pp, stream, ct), rep2)
					continue
				}
				for _, pv := range vals {
					if !pv.IsValid() {
						if p.name == "map-key" && isNaNValue(top.v) {
							continue
						}
						c.Violation("position-missing:"+p.name+":"+sigCell, fmt.Sprintf("stream %q into %s: expected entry is missing in %s", stream, ct, clipv(o.v)), rep2)
						continue
					}
					ev, nonNil := deref(pv, dt)
					if !nonNil {
						// nil pointer at a pointer position: consistent iff the top-level value is the zero/nil result of a null token
						if tk.class == "nil" {
							continue
						}
						c.Violation("position-inconsistent-nil:"+p.name+":"+sigCell, fmt.Sprintf("stream %q into %s gave a nil pointer, top level gave %s", stream, ct, clipv(top.v)), rep2)
						continue
					}
					if p.name == "map-key" && isNaNValue(top.v) {
						continue
					}
					if why := safeEqual(top.v, ev); why != "" {
						c.Violation("position-inconsistent-value:"+p.name+":"+sigCell, fmt.Sprintf("token %q into %s: top level gave %s, position %s (stream %q into %s) gave %s: %s", tk.b, dt, clipv(top.v), p.name, stream, ct, clipv(ev), why), rep2)
					}
				}
			}
		}
	}
	if c.Index%397 == 0 {
		r.Sample(map[string]interface{}{"token": tk.b, "denotes": tk.d.String(), "dest": dt.String(), "expectation": [...]string{"unspecified (position consistency only)", "exact value", "error", "denotation"}[exp.kind]})
	}
}

func isNaNValue(v reflect.Value) bool {
	switch v.Kind() {
	case reflect.Float32, reflect.Float64:
		return math.IsNaN(v.Float())
	}
	return false
}

func safeEqual(a, b reflect.Value) (why string) {
	p, _ := h.Try(func() { why = eqv.Equal(a, b) })
	if p != nil {
		return fmt.Sprintf("comparison panicked (corrupt value?): %v", p)
	}
	return
}

func clipv(v reflect.Value) string {
	var s string
	p, _ := h.Try(func() {
		if v.Kind() == reflect.Interface && v.IsNil() {
			s = "nil"
			return
		}
		s = fmt.Sprintf("%#v", v.Interface())
	})
	if p != nil {
		return "<unprintable>"
	}
	if len(s) > 200 {
		s = s[:200] + "…"
	}
	return s
}

var _ = hio.Marshal
