package c06

import (
	"container/list"
	"math"
	"math/big"
	"reflect"
	"strconv"
	"time"

	"github.com/google/uuid"
	"verif/internal/eqv"
	"verif/internal/gen"
	"verif/internal/gentypes"
)

type expKind int

const (
	unspecified expKind = iota // the property statement does not determine this cell
	wantValue                  // the destination can represent the denoted value exactly: must be that value
	wantError                  // the destination cannot accept the token: must be an error, never a value
	wantDenote                 // interface{} destination: result must denote the token's value
)

type expectation struct {
	kind expKind
	val  reflect.Value
	why  string
}

func val(v interface{}, t reflect.Type) expectation {
	return expectation{kind: wantValue, val: reflect.ValueOf(v).Convert(t)}
}

func errExp(why string) expectation { return expectation{kind: wantError, why: why} }

var unspec = expectation{}

func intRange(t reflect.Type) (lo, hi *big.Int) {
	bits := uint(t.Bits())
	switch t.Kind() {
	case reflect.Int, reflect.Int8, reflect.Int16, reflect.Int32, reflect.Int64:
		hi = new(big.Int).Sub(new(big.Int).Lsh(big.NewInt(1), bits-1), big.NewInt(1))
		lo = new(big.Int).Neg(new(big.Int).Lsh(big.NewInt(1), bits-1))
	default:
		lo = big.NewInt(0)
		hi = new(big.Int).Sub(new(big.Int).Lsh(big.NewInt(1), bits), big.NewInt(1))
	}
	return
}

func intInto(z *big.Int, t reflect.Type) expectation {
	lo, hi := intRange(t)
	if z.Cmp(lo) < 0 || z.Cmp(hi) > 0 {
		return errExp("integer " + z.String() + " is outside the range of " + t.String())
	}
	v := reflect.New(t).Elem()
	switch t.Kind() {
	case reflect.Int, reflect.Int8, reflect.Int16, reflect.Int32, reflect.Int64:
		v.SetInt(z.Int64())
	default:
		v.SetUint(z.Uint64())
	}
	return expectation{kind: wantValue, val: v}
}

// exactInt returns the integer a float denotation holds exactly, if it does.
func exactInt(d *eqv.D) (*big.Int, bool) {
	if math.IsNaN(d.F) || math.IsInf(d.F, 0) {
		return nil, false
	}
	// a double token denotes the IEEE double nearest to its decimal text
	bf := new(big.Float).SetFloat64(d.F)
	if !bf.IsInt() {
		return nil, false
	}
	z, _ := bf.Int(nil)
	return z, true
}

func isDecimalInt(s string) bool {
	if s == "" {
		return false
	}
	i := 0
	if s[0] == '-' || s[0] == '+' {
		i = 1
	}
	if i == len(s) {
		return false
	}
	for ; i < len(s); i++ {
		if s[i] < '0' || s[i] > '9' {
			return false
		}
	}
	return true
}

func isContainer(d *eqv.D) bool { return d.K == eqv.KList || d.K == eqv.KMap || d.K == eqv.KObj }

// expect computes what the property statement determines for decoding a token that denotes d
// into a destination of type t (default decoder settings).
func expect(d *eqv.D, t reflect.Type) expectation {
	switch t {
	case gen.TTime:
		switch d.K {
		case eqv.KTime:
			return expectation{kind: wantValue, val: reflect.ValueOf(d.T)}
		case eqv.KList, eqv.KMap, eqv.KObj, eqv.KUUID:
			return errExp("not a time")
		}
		return unspec
	case gen.TUUID:
		switch d.K {
		case eqv.KUUID:
			return expectation{kind: wantValue, val: reflect.ValueOf(uuid.MustParse(d.S))}
		case eqv.KStr:
			if u, err := uuid.Parse(d.S); err == nil && len(d.S) == 36 {
				return expectation{kind: wantValue, val: reflect.ValueOf(u)}
			}
			if d.S == "" {
				return unspec
			}
			return errExp("string is not a uuid")
		case eqv.KBytes:
			if len(d.S) == 16 {
				var u uuid.UUID
				copy(u[:], d.S)
				return expectation{kind: wantValue, val: reflect.ValueOf(u)}
			}
			return unspec
		case eqv.KInt, eqv.KFloat, eqv.KBool, eqv.KTime, eqv.KList, eqv.KMap, eqv.KObj:
			return errExp("not a uuid")
		}
		return unspec
	case gen.TBigIntP, gen.TBigInt:
		mk := func(z *big.Int) expectation {
			if t == gen.TBigInt {
				return expectation{kind: wantValue, val: reflect.ValueOf(*z)}
			}
			return expectation{kind: wantValue, val: reflect.ValueOf(z)}
		}
		switch d.K {
		case eqv.KInt:
			return mk(d.I)
		case eqv.KStr:
			if isDecimalInt(d.S) {
				z, _ := new(big.Int).SetString(d.S, 10)
				return mk(z)
			}
			if d.S == "" {
				return unspec
			}
			if _, ok := new(big.Int).SetString(d.S, 0); ok {
				return unspec // other bases: not determined
			}
			return errExp("string is not an integer")
		case eqv.KTime, eqv.KUUID, eqv.KList, eqv.KMap, eqv.KObj, eqv.KBytes:
			if d.K == eqv.KBytes {
				return unspec
			}
			return errExp("not a number")
		}
		return unspec
	case gen.TBigFloatP, gen.TBigFloat:
		mk := func(f *big.Float) expectation {
			if t == gen.TBigFloat {
				return expectation{kind: wantValue, val: reflect.ValueOf(*f)}
			}
			return expectation{kind: wantValue, val: reflect.ValueOf(f)}
		}
		switch d.K {
		case eqv.KInt:
			if d.I.BitLen() <= 53 {
				return mk(new(big.Float).SetInt(d.I))
			}
			return unspec
		case eqv.KFloat:
			if d.Big != nil && !math.IsInf(d.F, 0) && d.Big.Cmp(new(big.Float).SetFloat64(d.F)) == 0 {
				return mk(new(big.Float).SetFloat64(d.F))
			}
			return unspec
		case eqv.KTime, eqv.KUUID, eqv.KList, eqv.KMap, eqv.KObj:
			return errExp("not a number")
		}
		return unspec
	case gen.TBigRatP, gen.TBigRat:
		mk := func(r *big.Rat) expectation {
			if t == gen.TBigRat {
				return expectation{kind: wantValue, val: reflect.ValueOf(*r)}
			}
			return expectation{kind: wantValue, val: reflect.ValueOf(r)}
		}
		switch d.K {
		case eqv.KInt:
			return mk(new(big.Rat).SetInt(d.I))
		case eqv.KStr:
			if r, ok := new(big.Rat).SetString(d.S); ok && (isDecimalInt(d.S) || isFrac(d.S)) {
				return mk(r)
			}
			return unspec
		case eqv.KTime, eqv.KUUID, eqv.KList, eqv.KMap, eqv.KObj:
			return errExp("not a number")
		}
		return unspec
	case gen.TListP:
		switch d.K {
		case eqv.KList:
			return expectation{kind: wantDenote}
		case eqv.KMap, eqv.KObj, eqv.KInt, eqv.KFloat, eqv.KBool, eqv.KTime, eqv.KUUID:
			return errExp("not a list")
		}
		return unspec
	case gen.TIface:
		if d.K == eqv.KInt && (d.I.Cmp(big.NewInt(math.MaxInt64)) > 0 || d.I.Cmp(big.NewInt(math.MinInt64)) < 0) {
			return unspec // default LongType int cannot hold it
		}
		if hasBigInt(d) || hasOverflowDouble(d) {
			return unspec
		}
		if d.K == eqv.KObj {
			if st, ok := knownClasses[d.Class]; ok {
				// a registered class decodes to *T, tolerant of extra / missing / reordered fields
				e := expect(d, st)
				if e.kind != wantValue {
					return e
				}
				p := reflect.New(st)
				p.Elem().Set(e.val)
				v := reflect.New(gen.TIface).Elem()
				v.Set(p)
				return expectation{kind: wantValue, val: v}
			}
		}
		return expectation{kind: wantDenote}
	case gen.TBytes:
		switch d.K {
		case eqv.KStr, eqv.KBytes:
			return expectation{kind: wantValue, val: reflect.ValueOf([]byte(d.S))}
		case eqv.KNil:
			return expectation{kind: wantValue, val: reflect.ValueOf([]byte(nil))}
		case eqv.KList:
			out := []byte{}
			for _, x := range d.List {
				if x.K != eqv.KInt || x.I.Sign() < 0 || x.I.Cmp(big.NewInt(255)) > 0 {
					if x.K == eqv.KInt {
						return errExp("list element outside the byte range")
					}
					return unspec
				}
				out = append(out, byte(x.I.Int64()))
			}
			return expectation{kind: wantValue, val: reflect.ValueOf(out)}
		case eqv.KInt, eqv.KFloat, eqv.KBool, eqv.KTime, eqv.KMap, eqv.KObj:
			return errExp("not bytes")
		}
		return unspec
	}
	switch t.Kind() {
	case reflect.Int, reflect.Int8, reflect.Int16, reflect.Int32, reflect.Int64,
		reflect.Uint, reflect.Uint8, reflect.Uint16, reflect.Uint32, reflect.Uint64, reflect.Uintptr:
		switch d.K {
		case eqv.KInt:
			return intInto(d.I, t)
		case eqv.KFloat:
			if z, ok := exactInt(d); ok {
				return intInto(z, t)
			}
			return errExp("real number is not an integer")
		case eqv.KStr:
			if isDecimalInt(d.S) {
				z, _ := new(big.Int).SetString(d.S, 10)
				return intInto(z, t)
			}
			if d.S == "" {
				return unspec
			}
			return errExp("string is not an integer")
		case eqv.KBytes, eqv.KTime, eqv.KUUID, eqv.KList, eqv.KMap, eqv.KObj:
			if d.K == eqv.KBytes {
				return unspec
			}
			return errExp("not a number")
		}
		return unspec
	case reflect.Float32, reflect.Float64:
		is32 := t.Kind() == reflect.Float32
		mk := func(f float64) expectation {
			v := reflect.New(t).Elem()
			v.SetFloat(f)
			return expectation{kind: wantValue, val: v}
		}
		switch d.K {
		case eqv.KInt:
			limit := 53
			if is32 {
				limit = 24
			}
			if d.I.BitLen() <= limit {
				f, _ := new(big.Float).SetInt(d.I).Float64()
				return mk(f)
			}
			// larger integers that the destination represents exactly (2^63, 2^64, ...) are lossless too
			if f, acc := new(big.Float).SetInt(d.I).Float64(); acc == big.Exact && !math.IsInf(f, 0) {
				if !is32 || float64(float32(f)) == f {
					return mk(f)
				}
			}
			return unspec
		case eqv.KFloat:
			if math.IsNaN(d.F) || math.IsInf(d.F, 0) {
				if d.Big != nil {
					return unspec // finite decimal beyond the double range
				}
				return mk(d.F)
			}
			if is32 {
				if d.Big != nil {
					f32, acc := d.Big.Float32()
					_ = acc
					if math.IsInf(float64(f32), 0) {
						return unspec
					}
					return mk(float64(f32))
				}
				return mk(float64(float32(d.F)))
			}
			return mk(d.F)
		case eqv.KStr:
			if d.S == "" {
				return unspec
			}
			bits := 64
			if is32 {
				bits = 32
			}
			if f, err := strconv.ParseFloat(d.S, bits); err == nil {
				if isPlainDecimal(d.S) {
					return mk(f)
				}
				return unspec
			}
			if _, err := strconv.ParseFloat(d.S, bits); err != nil {
				if ne, ok := err.(*strconv.NumError); ok && ne.Err == strconv.ErrRange {
					return unspec
				}
			}
			return errExp("string is not a number")
		case eqv.KTime, eqv.KUUID, eqv.KList, eqv.KMap, eqv.KObj:
			return errExp("not a number")
		}
		return unspec
	case reflect.Complex64, reflect.Complex128:
		switch d.K {
		case eqv.KInt:
			if d.I.BitLen() <= 24 {
				f, _ := new(big.Float).SetInt(d.I).Float64()
				v := reflect.New(t).Elem()
				v.SetComplex(complex(f, 0))
				return expectation{kind: wantValue, val: v}
			}
			return unspec
		case eqv.KTime, eqv.KUUID, eqv.KMap, eqv.KObj:
			return errExp("not a number")
		}
		return unspec
	case reflect.Bool:
		switch d.K {
		case eqv.KBool:
			return val(d.B, t)
		case eqv.KTime, eqv.KUUID, eqv.KList, eqv.KMap, eqv.KObj:
			return errExp("not a boolean")
		}
		return unspec
	case reflect.String:
		switch d.K {
		case eqv.KInt:
			return val(d.I.String(), t)
		case eqv.KStr, eqv.KBytes:
			return val(d.S, t)
		case eqv.KUUID:
			return val(d.S, t)
		case eqv.KList, eqv.KMap, eqv.KObj:
			return errExp("not a string")
		}
		return unspec
	case reflect.Slice:
		switch d.K {
		case eqv.KNil:
			return expectation{kind: wantValue, val: reflect.Zero(t)}
		case eqv.KList:
			out := reflect.MakeSlice(t, len(d.List), len(d.List))
			undetermined := false
			for i, x := range d.List {
				e := expect(x, t.Elem())
				switch e.kind {
				case wantError:
					return errExp("element " + strconv.Itoa(i) + ": " + e.why)
				case wantValue:
					out.Index(i).Set(e.val)
				default:
					undetermined = true
				}
			}
			if undetermined {
				return unspec
			}
			return expectation{kind: wantValue, val: out}
		case eqv.KInt, eqv.KFloat, eqv.KBool, eqv.KTime, eqv.KUUID, eqv.KMap, eqv.KObj:
			return errExp("not a list")
		}
		return unspec
	case reflect.Array:
		if t.Elem().Kind() == reflect.Uint8 {
			return unspec
		}
		switch d.K {
		case eqv.KList:
			if len(d.List) != t.Len() {
				return unspec
			}
			out := reflect.New(t).Elem()
			for i, x := range d.List {
				e := expect(x, t.Elem())
				switch e.kind {
				case wantError:
					return errExp("element " + strconv.Itoa(i) + ": " + e.why)
				case wantValue:
					out.Index(i).Set(e.val)
				default:
					return unspec
				}
			}
			return expectation{kind: wantValue, val: out}
		case eqv.KInt, eqv.KFloat, eqv.KBool, eqv.KTime, eqv.KUUID, eqv.KMap, eqv.KObj:
			return errExp("not a list")
		}
		return unspec
	case reflect.Map:
		switch d.K {
		case eqv.KNil:
			return expectation{kind: wantValue, val: reflect.Zero(t)}
		case eqv.KMap:
			out := reflect.MakeMap(t)
			for i := range d.Keys {
				ke := expect(d.Keys[i], t.Key())
				ve := expect(d.Vals[i], t.Elem())
				if ke.kind == wantError || ve.kind == wantError {
					return errExp("entry " + strconv.Itoa(i) + ": " + ke.why + ve.why)
				}
				if ke.kind != wantValue || (ve.kind != wantValue && ve.kind != wantDenote) {
					return unspec
				}
				if ve.kind == wantDenote {
					return unspec
				}
				out.SetMapIndex(ke.val, ve.val)
			}
			return expectation{kind: wantValue, val: out}
		case eqv.KList:
			// a list read into a map with integer keys: element i under key i
			switch t.Key().Kind() {
			case reflect.Int, reflect.Int16, reflect.Int32, reflect.Int64, reflect.Uint, reflect.Uint16, reflect.Uint32, reflect.Uint64:
				out := reflect.MakeMap(t)
				for i, x := range d.List {
					ve := expect(x, t.Elem())
					if ve.kind == wantError {
						return errExp("element " + strconv.Itoa(i) + ": " + ve.why)
					}
					if ve.kind != wantValue {
						return unspec
					}
					out.SetMapIndex(reflect.ValueOf(i).Convert(t.Key()), ve.val)
				}
				return expectation{kind: wantValue, val: out}
			}
			return unspec
		case eqv.KInt, eqv.KFloat, eqv.KBool, eqv.KTime, eqv.KUUID, eqv.KStr, eqv.KBytes:
			if d.K == eqv.KStr && d.S == "" {
				return unspec
			}
			return errExp("not a map")
		}
		return unspec
	case reflect.Struct:
		switch d.K {
		case eqv.KObj, eqv.KMap:
			out := reflect.New(t).Elem()
			for i := range d.Vals {
				var name string
				if d.K == eqv.KObj {
					name = d.Field[i]
				} else {
					if d.Keys[i].K != eqv.KStr {
						return unspec
					}
					name = d.Keys[i].S
				}
				f, ok := fieldByAlias(t, name)
				if !ok {
					continue // extra fields are ignored
				}
				e := expect(d.Vals[i], f.Type)
				switch e.kind {
				case wantError:
					return errExp("field " + name + ": " + e.why)
				case wantValue:
					out.FieldByIndex(f.Index).Set(e.val)
				default:
					return unspec
				}
			}
			return expectation{kind: wantValue, val: out}
		case eqv.KInt, eqv.KFloat, eqv.KBool, eqv.KTime, eqv.KUUID, eqv.KList, eqv.KBytes:
			return errExp("not an object")
		case eqv.KStr:
			if d.S == "" {
				return unspec
			}
			return errExp("not an object")
		}
		return unspec
	}
	return unspec
}

var knownClasses = map[string]reflect.Type{"One": reflect.TypeOf(gentypes.One{}), "Inner": reflect.TypeOf(gentypes.Inner{})}

func hasOverflowDouble(d *eqv.D) bool {
	if d.K == eqv.KFloat && d.Big != nil && math.IsInf(d.F, 0) {
		return true
	}
	for _, x := range d.List {
		if hasOverflowDouble(x) {
			return true
		}
	}
	for _, x := range d.Vals {
		if hasOverflowDouble(x) {
			return true
		}
	}
	return false
}

func hasBigInt(d *eqv.D) bool {
	if d.K == eqv.KInt && (d.I.Cmp(big.NewInt(math.MaxInt64)) > 0 || d.I.Cmp(big.NewInt(math.MinInt64)) < 0) {
		return true
	}
	for _, x := range d.List {
		if hasBigInt(x) {
			return true
		}
	}
	for _, x := range d.Keys {
		if hasBigInt(x) {
			return true
		}
	}
	for _, x := range d.Vals {
		if hasBigInt(x) {
			return true
		}
	}
	return false
}

func isFrac(s string) bool {
	for i := 1; i < len(s)-1; i++ {
		if s[i] == '/' {
			return isDecimalInt(s[:i]) && isDecimalInt(s[i+1:])
		}
	}
	return false
}

// isPlainDecimal: digits, sign, point, exponent only (no hex floats, inf, nan, underscores).
func isPlainDecimal(s string) bool {
	digit := false
	for i := 0; i < len(s); i++ {
		c := s[i]
		switch {
		case c >= '0' && c <= '9':
			digit = true
		case c == '.' || c == 'e' || c == 'E':
		case (c == '-' || c == '+') && (i == 0 || s[i-1] == 'e' || s[i-1] == 'E'):
		default:
			return false
		}
	}
	return digit
}

func fieldByAlias(t reflect.Type, name string) (reflect.StructField, bool) {
	var found reflect.StructField
	ok := false
	var walk func(t reflect.Type, idx []int)
	walk = func(t reflect.Type, idx []int) {
		for i := 0; i < t.NumField(); i++ {
			f := t.Field(i)
			ix := append(append([]int{}, idx...), i)
			if f.Anonymous && f.Type.Kind() == reflect.Struct {
				walk(f.Type, ix)
				continue
			}
			if !eqv.Serializable(f) {
				continue
			}
			if eqv.Alias(f) == name && !ok {
				found = f
				found.Index = ix
				ok = true
			}
		}
	}
	walk(t, nil)
	return found, ok
}

var _ = list.New
var _ = time.Now
