//go:build go1.25

// C20 — the circuit breaker stops forwarding while open and recovers afterwards.
package c20

import (
	"context"
	"errors"
	"fmt"
	"strings"
	"sync"
	"sync/atomic"
	"testing"
	"testing/synctest"
	"time"

	"github.com/anishathalye/porcupine"
	hio "github.com/hprose/hprose-golang/v3/io"
	"github.com/hprose/hprose-golang/v3/rpc/core"
	"github.com/hprose/hprose-golang/v3/rpc/plugins/circuitbreaker"
	"verif/internal/h"
)

// downstream is the terminal IO handler standing for the protected service.
type downstream struct {
	mu      sync.Mutex
	calls   int64
	outcome func(n int64) byte // by forwarded-call number
	delay   func(n int64) time.Duration // how long the forwarded call takes (virtual time)
	onEnter func()
	onExit  func()
}

func (d *downstream) handler(ctx context.Context, request []byte, next core.NextIOHandler) ([]byte, error) {
	n := atomic.AddInt64(&d.calls, 1) - 1
	if d.onEnter != nil {
		d.onEnter()
	}
	o := d.outcome(n)
	if d.onExit != nil {
		defer d.onExit()
	}
	if d.delay != nil {
		if dl := d.delay(n); dl > 0 {
			time.Sleep(dl)
		}
	}
	switch o {
	case 'S':
		b, _ := hio.Marshal("ok")
		return append(append([]byte("R"), b...), 'z'), nil
	case 'P':
		panic("downstream panic")
	}
	return nil, errors.New("downstream error")
}

func allSeq(n int) []string {
	if n == 0 {
		return []string{""}
	}
	var out []string
	for _, p := range allSeq(n - 1) {
		for _, c := range "SEP" {
			out = append(out, p+string(c))
		}
	}
	return out
}

// ref is the reference state machine written from the property statement. After the recovery
// time has elapsed the count the breaker resumes with is not specified: it is tracked as an
// interval [lo, hi].
type ref struct {
	threshold int
	recovery  time.Duration
	lo, hi    int
	lastFail  time.Duration
	anyFail   bool
}

// admit returns (mustReject, mustForward) for a call at instant now.
func (m *ref) admit(now time.Duration) (mustReject, mustForward bool) {
	elapsed := !m.anyFail || now-m.lastFail >= m.recovery
	if elapsed {
		if m.hi > m.threshold {
			// recovery time over: calls go through again; the resumed count is unspecified
			m.lo, m.hi = 0, m.threshold
		}
		return false, true
	}
	if m.lo > m.threshold {
		return true, false
	}
	if m.hi <= m.threshold {
		return false, true
	}
	return false, false // undetermined
}

func (m *ref) complete(o byte, now time.Duration, wasRejected bool) {
	if wasRejected {
		return
	}
	if o == 'S' {
		m.lo, m.hi = 0, 0
		return
	}
	m.lo++
	m.hi++
	m.lastFail = now
	m.anyFail = true
}

// observed: the implementation decided to reject although the reference was undetermined:
// collapse the interval to the values consistent with the observation.
func (m *ref) observe(rejected bool) {
	if rejected && m.lo <= m.threshold {
		m.lo = m.threshold + 1
		if m.hi < m.lo {
			m.hi = m.lo
		}
	}
	if !rejected && m.hi > m.threshold {
		m.hi = m.threshold
		if m.lo > m.hi {
			m.lo = m.hi
		}
	}
}

type install int

const (
	ioOnly install = iota // Use(cb.IOHandler)
	whole                 // Use(cb): IO + invoke handler
	withMock
)

func (i install) String() string { return [...]string{"io-handler", "plugin", "plugin+mock"}[i] }

const mockResult = "served by the mock service"

func newClient(cb *circuitbreaker.CircuitBreaker, inst install, d *downstream) *core.Client {
	client := core.NewClient("mock://x")
	switch inst {
	case ioOnly:
		client.Use(core.IOHandler(cb.IOHandler), d.handler)
	default:
		client.Use(cb, d.handler)
	}
	return client
}

type callResult struct {
	res      string
	err      error
	panicked interface{}
}

func call(client *core.Client, ctxs ...context.Context) callResult {
	var r []interface{}
	var err error
	ctx := context.Background()
	if len(ctxs) > 0 {
		ctx = ctxs[0]
	}
	p, _ := h.Try(func() { r, err = client.InvokeContext(ctx, "f", nil) })
	out := callResult{err: err, panicked: p}
	if len(r) == 1 {
		out.res = fmt.Sprint(r[0])
	}
	return out
}

func TestCheck(t *testing.T) {
	r := h.Start(t, "C20")
	defer r.Finish()
	r.Meta("rule", "under virtual time the real CircuitBreaker is installed on a real core.Client in front of a scripted downstream handler. Exhaustive: every success/error/panic outcome sequence of the forwarded calls up to length 8 x threshold {0,1,2,5} x recovery regimes {effectively infinite, zero, finite with probes at recovery-1ns / recovery / recovery+1ns after the last failure, virtual gaps between calls, and forwarded calls that take 0..2.5 recovery times before they fail} x installation {IO handler only, whole plugin, plugin with mock service}; each call is compared with a reference state machine written from the property statement (consecutive-failure count kept as an interval after a recovery, so only verdicts valid for every admissible count are reported): rejected-while-closed, forwarded-while-open, wrong error identity, mock service used / not used, downstream invoked on a rejected call. Concurrent: 8 callers, histories of two-phase operations (admit, complete) recorded with a logical clock at the client boundary and checked with porcupine against the same machine (recovery infinite). distinct_nontrivial = distinct (threshold, regime, installation, outcome sequence) combinations + concurrent histories Added: forwarded calls that take 0..2.5 recovery times before they fail (the open window starts when the call fails); callers whose own context ends (deadline, cancellation) while or before the forwarded call runs.")
	r.Meta("exhaustive", true)
	r.Meta("assumptions", []string{
		"the failure count the breaker resumes with after the recovery time is not specified by the property: the reference keeps it as an interval [0, threshold] until a success or enough failures collapse it",
		"'open' = more than threshold consecutive failures completed since the last success and less than the recovery time elapsed since the last failure (virtual clock, exact)",
		"porcupine model: admit is legal as 'forwarded' iff count <= threshold, as 'rejected' iff count > threshold; complete(success) sets 0, complete(failure) adds 1",
	})
	for _, th := range []int{0, 1, 2, 5} {
		for _, inst := range []install{ioOnly, whole, withMock} {
			for _, regime := range []string{"infinite", "max-duration", "zero", "finite-gaps", "slow-calls", "caller-gave-up"} {
				th, inst, regime := th, inst, regime
				r.Case(fmt.Sprintf("seq/threshold%d/%s/%s", th, inst, regime), func(c *h.Case) {
					synctest.Test(t, func(t *testing.T) { seqCase(c, th, inst, regime) })
				})
			}
			th, inst := th, inst
			r.Case(fmt.Sprintf("boundary/threshold%d/%s", th, inst), func(c *h.Case) {
				synctest.Test(t, func(t *testing.T) { boundaryCase(c, th, inst) })
			})
		}
	}
	nh := r.Pick(400, 8000)
	for k := 0; k < nh; k++ {
		k := k
		r.Case(fmt.Sprintf("concurrent/%d", k), func(c *h.Case) {
			synctest.Test(t, func(t *testing.T) { concurrentCase(c, k) })
		})
	}
}

func mkBreaker(th int, recovery time.Duration, inst install) *circuitbreaker.CircuitBreaker {
	opts := []circuitbreaker.Option{circuitbreaker.WithThreshold(uint64(th)), circuitbreaker.WithRecoverTime(recovery)}
	if inst == withMock {
		opts = append(opts, circuitbreaker.WithMockService(func(ctx context.Context, name string, args []interface{}) ([]interface{}, error) {
			return []interface{}{mockResult}, nil
		}))
	}
	return circuitbreaker.New(opts...)
}

// checkCall compares one call with the reference and advances it.
func checkCall(c *h.Case, m *ref, d *downstream, client *core.Client, t0 time.Time, inst install, rep map[string]interface{}, sig string) {
	before := atomic.LoadInt64(&d.calls)
	now := time.Since(t0)
	mustReject, mustForward := m.admit(now)
	ctx := context.Background()
	if dl, ok := rep["caller_deadline"].(time.Duration); ok {
		// the caller's own deadline passes (or its context is cancelled) while the forwarded
		// call is still running: the call's failure counts like any other
		var cancel context.CancelFunc
		if dl > 0 {
			ctx, cancel = context.WithTimeout(ctx, dl)
		} else {
			ctx, cancel = context.WithCancel(ctx)
			cancel()
		}
		defer cancel()
	}
	res := call(client, ctx)
	c.R.Eval(1)
	forwarded := atomic.LoadInt64(&d.calls) - before
	if res.panicked != nil {
		c.Violation("panic-escaped-to-caller:"+sig, fmt.Sprint(res.panicked), rep)
		return
	}
	if forwarded > 1 {
		c.Violation("downstream-invoked-twice:"+sig, "", rep)
	}
	rejected := forwarded == 0
	detail := fmt.Sprintf("virtual t=%v count in [%d,%d] threshold=%d recovery=%v last failure at %v: forwarded=%v result=%q err=%v", now, m.lo, m.hi, m.threshold, m.recovery, m.lastFail, !rejected, res.res, res.err)
	if mustReject && !rejected {
		c.Violation("forwarded-while-open:"+sig, detail, rep)
	}
	if mustForward && rejected {
		c.Violation("rejected-while-closed:"+sig, detail, rep)
	}
	if !mustReject && !mustForward {
		c.R.Stat("undetermined_after_recovery", 1)
		m.observe(rejected)
	}
	if rejected {
		if inst == withMock {
			if res.err != nil || res.res != mockResult {
				c.Violation("mock-service-not-used:"+sig, detail, rep)
			}
		} else if res.err != circuitbreaker.ErrBreaker {
			c.Violation("wrong-break-error:"+sig, detail, rep)
		}
		m.complete(0, now, true)
		return
	}
	o := d.outcome(before)
	if res.res == mockResult {
		c.Violation("mock-service-used-while-closed:"+sig, detail, rep)
	}
	switch o {
	case 'S':
		if res.err != nil || res.res != "ok" {
			c.Violation("forwarded-success-not-returned:"+sig, detail, rep)
		}
	case 'E':
		if res.err == nil || res.err.Error() != "downstream error" {
			c.Violation("forwarded-error-not-returned:"+sig, detail, rep)
		}
	case 'P':
		if res.err == nil || !strings.Contains(res.err.Error(), "downstream panic") {
			c.Violation("forwarded-panic-not-returned-as-error:"+sig, detail, rep)
		}
	}
	m.complete(o, time.Since(t0), false)
}

func seqCase(c *h.Case, th int, inst install, regime string) {
	r := c.R
	L := 8
	if r.Quick() {
		L = 7
	}
	var recovery time.Duration
	switch regime {
	case "infinite":
		recovery = 1000 * time.Hour
	case "max-duration":
		recovery = time.Duration(1<<63 - 1)
	case "zero":
		recovery = 0
	case "caller-gave-up":
		recovery = 1000 * time.Hour
	default:
		recovery = 10 * time.Millisecond
	}
	for _, seq := range allSeq(L) {
		seq := seq
		d := &downstream{outcome: func(n int64) byte {
			if int(n) < len(seq) {
				return seq[n]
			}
			return 'S'
		}}
		if regime == "slow-calls" {
			// forwarded calls take a good part of the recovery time before they fail (time-outs do):
			// the open window starts when the call fails, not when it began
			d.delay = func(n int64) time.Duration {
				return []time.Duration{9 * time.Millisecond, 4 * time.Millisecond, 0, 10 * time.Millisecond, 25 * time.Millisecond}[(int(n)+len(seq)+int(seq[0]))%5]
			}
		}
		cb := mkBreaker(th, recovery, inst)
		client := newClient(cb, inst, d)
		m := &ref{threshold: th, recovery: recovery}
		t0 := time.Now()
		rep := map[string]interface{}{"threshold": th, "recovery": recovery.String(), "install": inst.String(), "outcomes_of_forwarded_calls": seq, "regime": regime}
		if regime == "caller-gave-up" {
			// every forwarded call takes 2 ms; the callers' contexts end after 1 ms, or are
			// cancelled before the call (every third sequence)
			d.delay = func(n int64) time.Duration { return 2 * time.Millisecond }
			rep["caller_deadline"] = time.Millisecond
			if len(seq)%3 == 0 || strings.Count(seq, "P")%3 == 1 {
				rep["caller_deadline"] = time.Duration(0)
			}
		}
		sig := fmt.Sprintf("%s:threshold%d:%s", regime, th, inst)
		// issue calls until the whole outcome sequence has been consumed or enough calls were made
		for k := 0; k < L+th+6 && int(atomic.LoadInt64(&d.calls)) < len(seq); k++ {
			checkCall(c, m, d, client, t0, inst, rep, sig)
			if regime == "slow-calls" {
				time.Sleep([]time.Duration{time.Millisecond, 0, 6 * time.Millisecond, 10*time.Millisecond - 1, 10 * time.Millisecond}[(k+len(seq))%5])
			} else if regime == "finite-gaps" {
				// gaps straddling the recovery time
				time.Sleep([]time.Duration{0, 3 * time.Millisecond, 10*time.Millisecond - 1, 10 * time.Millisecond, 25 * time.Millisecond}[(k+len(seq)+int(seq[0]))%5])
			} else {
				time.Sleep(time.Microsecond)
			}
		}
		r.Distinct(fmt.Sprintf("%d|%s|%s|%s", th, regime, inst, seq))
		if seq == strings.Repeat("E", L) {
			r.Sample(map[string]interface{}{"threshold": th, "regime": regime, "install": inst.String(), "outcomes": seq, "downstream_invocations": atomic.LoadInt64(&d.calls)})
		}
	}
}

func boundaryCase(c *h.Case, th int, inst install) {
	r := c.R
	for _, recovery := range []time.Duration{time.Nanosecond, time.Millisecond, time.Hour} {
		for _, probe := range []time.Duration{-time.Nanosecond, 0, time.Nanosecond, -recovery / 2} {
			for _, failKind := range []byte{'E', 'P'} {
				for _, afterProbe := range []byte{'S', 'E'} {
					failKind, afterProbe := failKind, afterProbe
					nfail := th + 1
					d := &downstream{}
					d.outcome = func(n int64) byte {
						if int(n) < nfail {
							return failKind
						}
						return afterProbe
					}
					cb := mkBreaker(th, recovery, inst)
					client := newClient(cb, inst, d)
					m := &ref{threshold: th, recovery: recovery}
					t0 := time.Now()
					rep := map[string]interface{}{"threshold": th, "recovery": recovery.String(), "probe_offset": probe.String(), "install": inst.String(), "fail_kind": string(failKind), "after": string(afterProbe)}
					sig := fmt.Sprintf("boundary:threshold%d:%s", th, inst)
					for k := 0; k < nfail; k++ {
						checkCall(c, m, d, client, t0, inst, rep, sig)
					}
					// now open; probe relative to the last failure
					wait := recovery + probe
					if wait > 0 {
						time.Sleep(wait)
					}
					checkCall(c, m, d, client, t0, inst, rep, sig)
					checkCall(c, m, d, client, t0, inst, rep, sig)
					time.Sleep(2 * recovery)
					checkCall(c, m, d, client, t0, inst, rep, sig)
					checkCall(c, m, d, client, t0, inst, rep, sig)
					r.Distinct(fmt.Sprintf("b|%d|%v|%v|%s|%c%c", th, recovery, probe, inst, failKind, afterProbe))
				}
			}
		}
	}
}

// ---- concurrent histories ----

type opIn struct {
	kind    string // "admit" or "complete"
	outcome byte
}

type opOut struct {
	forwarded bool
}

func concurrentCase(c *h.Case, k int) {
	r := c.R
	rng := c.Rand()
	th := []int{0, 1, 2, 3}[k%4]
	var clock int64
	tick := func() int64 { return atomic.AddInt64(&clock, 1) }
	type rec struct {
		client                 int
		call, enter, exit, ret int64
		forwarded              bool
		outcome                byte
		delay, gap             int
	}
	var mu sync.Mutex
	var recs []*rec
	cur := sync.Map{} // goroutine-local via context: call id -> *rec
	d := &downstream{}
	outcomes := make([]byte, 64)
	for i := range outcomes {
		outcomes[i] = "SEEPE"[rng.Intn(5)]
	}
	cb := mkBreaker(th, 1000*time.Hour, ioOnly)
	client := core.NewClient("mock://x")
	// the downstream needs to know which call it serves: carry the record in the context items
	term := func(ctx context.Context, request []byte, next core.NextIOHandler) ([]byte, error) {
		rc, _ := cur.Load(core.GetClientContext(ctx).Items().GetInt("verif.rec"))
		x := rc.(*rec)
		x.enter = tick()
		x.forwarded = true
		// a little virtual time inside the downstream lets calls overlap
		time.Sleep(time.Duration(x.delay) * time.Millisecond)
		defer func() { x.exit = tick() }()
		switch x.outcome {
		case 'S':
			b, _ := hio.Marshal("ok")
			return append(append([]byte("R"), b...), 'z'), nil
		case 'P':
			panic("downstream panic")
		}
		return nil, errors.New("downstream error")
	}
	_ = d
	client.Use(core.IOHandler(cb.IOHandler), core.IOHandler(term))
	G := 2 + rng.Intn(5)
	per := 2 + rng.Intn(4)
	var wg sync.WaitGroup
	id := 0
	for g := 0; g < G; g++ {
		g := g
		mine := make([]*rec, per)
		for i := range mine {
			mine[i] = &rec{client: g, outcome: outcomes[(g*per+i)%len(outcomes)], delay: rng.Intn(3), gap: rng.Intn(3)}
			cur.Store(id, mine[i])
			mine[i].call = int64(id) // temporarily the id
			id++
		}
		wg.Add(1)
		go func() {
			defer wg.Done()
			for _, x := range mine {
				rid := int(x.call)
				cc := core.NewClientContext()
				cc.Items().Set("verif.rec", rid)
				time.Sleep(time.Duration(x.gap) * time.Millisecond)
				x.call = tick()
				h.Try(func() { client.InvokeContext(core.WithContext(context.Background(), cc), "f", nil) })
				x.ret = tick()
				mu.Lock()
				recs = append(recs, x)
				mu.Unlock()
			}
		}()
	}
	wg.Wait()
	r.Eval(int64(len(recs)))
	// build the two-phase history
	var ops []porcupine.Operation
	for _, x := range recs {
		if x.forwarded {
			ops = append(ops, porcupine.Operation{ClientId: x.client, Input: opIn{kind: "admit"}, Call: x.call, Output: opOut{true}, Return: x.enter})
			ops = append(ops, porcupine.Operation{ClientId: x.client, Input: opIn{kind: "complete", outcome: x.outcome}, Call: x.exit, Output: opOut{true}, Return: x.ret})
		} else {
			ops = append(ops, porcupine.Operation{ClientId: x.client, Input: opIn{kind: "admit"}, Call: x.call, Output: opOut{false}, Return: x.ret})
		}
	}
	model := porcupine.Model{
		Init: func() interface{} { return 0 },
		Step: func(state, input, output interface{}) (bool, interface{}) {
			cnt := state.(int)
			in := input.(opIn)
			out := output.(opOut)
			if in.kind == "admit" {
				if out.forwarded {
					return cnt <= th, cnt
				}
				return cnt > th, cnt
			}
			if in.outcome == 'S' {
				return true, 0
			}
			return true, cnt + 1
		},
	}
	res := porcupine.CheckOperationsTimeout(model, ops, 20*time.Second)
	switch res {
	case porcupine.Illegal:
		var sb strings.Builder
		for _, x := range recs {
			fmt.Fprintf(&sb, "[client %d call@%d forwarded=%v enter@%d exit@%d ret@%d outcome=%c]", x.client, x.call, x.forwarded, x.enter, x.exit, x.ret, x.outcome)
		}
		c.Violation(fmt.Sprintf("concurrent-history-not-linearizable:threshold%d", th), "no order of the admit/complete operations consistent with their real-time order explains the observed forward/reject decisions: "+sb.String(), map[string]interface{}{"threshold": th, "history": sb.String()})
	case porcupine.Unknown:
		r.Inconclusive("porcupine timed out on a concurrent history")
	}
	nf := 0
	for _, x := range recs {
		if x.forwarded {
			nf++
		}
	}
	r.Stat("concurrent_calls", int64(len(recs)))
	r.Stat("concurrent_calls_rejected", int64(len(recs)-nf))
	r.Distinct(fmt.Sprintf("conc|%d|%d|%d|%d", k, th, G, per))
}
