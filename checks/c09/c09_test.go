// C09 — concurrent calls each get their own response.
package c09

import (
	"bytes"
	"context"
	"fmt"
	"math/rand"
	"os"
	"reflect"
	"sort"
	"strings"
	"sync"
	"sync/atomic"
	"testing"
	"time"

	"github.com/hprose/hprose-golang/v3/rpc/core"
	"github.com/hprose/hprose-golang/v3/rpc/plugins/reverse"
	"github.com/hprose/hprose-golang/v3/rpc/socket"
	"github.com/hprose/hprose-golang/v3/rpc/udp"
	"github.com/hprose/hprose-golang/v3/rpc/websocket"
	"verif/internal/h"
	"verif/internal/peer"
)

var light = os.Getenv("VERIF_LIGHT") == "1"

// pool is a small fixed worker pool.
type pool struct{ tasks chan func() }

func newPool(n int) *pool {
	p := &pool{tasks: make(chan func(), 1024)}
	for i := 0; i < n; i++ {
		go func() {
			for f := range p.tasks {
				f()
			}
		}()
	}
	return p
}
func (p *pool) Submit(f func()) { p.tasks <- f }

func setPool(svc *core.Service, p core.WorkerPool) {
	if hd, ok := svc.GetHandler("socket").(*socket.Handler); ok {
		hd.Pool = p
	}
	if hd, ok := svc.GetHandler("udp").(*udp.Handler); ok {
		hd.Pool = p
	}
	if hd, ok := svc.GetHandler("websocket").(*websocket.Handler); ok {
		hd.Pool = p
	}
}

func TestCheck(t *testing.T) {
	peer.Register()
	r := h.Start(t, "C09")
	defer r.Finish()
	r.Meta("rule", "every request carries a unique id (caller, sequence number) and every response is a function of that id, so a response handed to the wrong caller is visible. (A) real client <-> real service over one client on tcp, unix, udp, ws, ws-fasthttp (and http, fasthttp, mock for comparison): {2, 8, 64} concurrent callers x proxy Invoke and raw Request, service-side delays drawn per id so that completion order differs from issue order, worker pool absent / present; the number of distinct server-side connections is recorded. (B) real client <-> scripted raw server (tcp, unix, udp, ws): the server withholds the answers of K in {1,2,5,16,64} concurrent calls and releases them in order / reversed / evens-then-odds / PRNG permutation, preceded, interleaved and followed by stray identifiers (never issued, and already answered) and duplicated answers with a different body; afterwards a second round on the same connection. (C) udp identifier wrap-around: more than 2^15 calls on one connection, with calls kept pending across the wrap. (D) reverse calls from a service to {1,3} providers with {2,16} concurrent callers each; reverse calls placed around the provider poll's idle time-out; batches of 2..6 reverse calls queued before the provider listens, of which some callers give up before the results are posted (stray results in front of live ones). Oracle: every caller gets exactly the answer derived from its own id; a caller whose call is still pending at the end of the case is a violation. distinct_nontrivial = distinct (part, transport, parameters) cells Added: batches of reverse calls of which some callers give up before the results are posted; provider polls never give up on the client side, so any reverse call that times out is a lost call; re-run under CPU load during development (which exposed the result-registration race). Round 3 additions: peers answering right around the callers' time-outs; first-ever reverse calls to fresh provider ids released by a barrier.")
	r.Meta("assumptions", []string{"up to 64 concurrent callers per client", "udp: fewer than 2^15 calls are pending at once on one connection"})
	callers := []int{2, 8, 64}
	scripted := []int{1, 2, 5, 16, 64}
	orders := []string{"in-order", "reversed", "evens-odds", "random"}
	if !r.Quick() {
		callers = []int{2, 3, 8, 64, 200}
		scripted = []int{1, 2, 3, 5, 16, 64, 200}
		orders = []string{"in-order", "reversed", "evens-odds", "random", "random-2", "random-3", "random-4"}
	}
	for _, kind := range peer.Kinds {
		kind := kind
		for _, n := range callers {
			n := n
			if kind == "udp" && n > 64 {
				continue // bursts beyond the socket buffers lose datagrams, which is udp, not the property
			}
			for _, usePool := range []bool{false, true} {
				usePool := usePool
				if usePool && (kind == "mock" || kind == "http" || kind == "fasthttp") {
					continue
				}
				r.Case(fmt.Sprintf("real/%s/callers=%d/pool=%v", kind, n, usePool), func(c *h.Case) { realCase(c, kind, n, usePool) })
			}
		}
	}
	for _, kind := range []string{"tcp", "unix", "udp", "ws"} {
		kind := kind
		for _, k := range scripted {
			k := k
			if kind == "udp" && k > 64 {
				continue
			}
			for _, order := range orders {
				order := order
				if k == 1 && order != "in-order" {
					continue
				}
				r.Case(fmt.Sprintf("scripted/%s/k=%d/%s", kind, k, order), func(c *h.Case) { scriptedCase(c, kind, k, order) })
			}
		}
	}
	for _, kind := range []string{"mock", "tcp"} {
		kind := kind
		r.Case("reverse-idle/"+kind, func(c *h.Case) { reverseIdle(c, kind) })
		r.Case("reverse-stray-results/"+kind, func(c *h.Case) { reverseStray(c, kind) })
		r.Case("reverse-first-calls-at-once/"+kind, func(c *h.Case) { reverseFirstCalls(c, kind) })
	}
	for _, kind := range []string{"tcp", "unix", "ws", "udp"} {
		kind := kind
		r.Case("answers-racing-with-time-outs/"+kind, func(c *h.Case) { timeoutRace(c, kind) })
	}
	r.Case("udp-wrap/sequential", func(c *h.Case) { udpWrap(c, 0) })
	r.Case("udp-wrap/pending-across-wrap", func(c *h.Case) { udpWrap(c, 3) })
	r.Case("udp-wrap/real-service", func(c *h.Case) { udpWrapReal(c) })
	for _, providers := range []int{1, 3} {
		for _, n := range []int{2, 16} {
			for _, kind := range []string{"mock", "tcp", "ws"} {
				providers, n, kind := providers, n, kind
				r.Case(fmt.Sprintf("reverse/%s/providers=%d/callers=%d", kind, providers, n), func(c *h.Case) { reverseCase(c, kind, providers, n) })
			}
		}
	}
}

// ---- (A) real client, real service ----

func delayFor(id string) time.Duration {
	x := uint32(2166136261)
	for i := 0; i < len(id); i++ {
		x = (x ^ uint32(id[i])) * 16777619
	}
	switch x % 8 {
	case 0:
		return 2 * time.Millisecond
	case 1:
		return 500 * time.Microsecond
	case 2:
		return 5 * time.Millisecond
	}
	return 0
}

func realCase(c *h.Case, kind string, n int, usePool bool) {
	r := c.R
	svc := core.NewService()
	var connMu sync.Mutex
	conns := map[string]bool{}
	svc.AddFunction(func(ctx context.Context, id string, pad []byte) (string, int) {
		if sc := core.GetServiceContext(ctx); sc != nil && sc.RemoteAddr != nil {
			connMu.Lock()
			conns[sc.RemoteAddr.String()] = true
			connMu.Unlock()
		}
		time.Sleep(delayFor(id))
		return "r:" + id, len(pad)
	}, "echo")
	svc.Use(core.IOHandler(func(ctx context.Context, request []byte, next core.NextIOHandler) ([]byte, error) {
		if bytes.HasPrefix(request, []byte("RAW:")) {
			time.Sleep(delayFor(string(request)))
			return append([]byte("ANS:"), request[4:]...), nil
		}
		return next(ctx, request)
	}))
	if usePool {
		setPool(svc, newPool(4))
	}
	srv, err := peer.Start(kind, svc)
	if err != nil {
		r.Inconclusive(err.Error())
		return
	}
	defer srv.Close()
	client := srv.NewClient()
	defer client.Abort()
	client.Timeout = 30 * time.Second
	rounds := r.Pick(40, 160)
	if n >= 64 {
		rounds = r.Pick(12, 40)
	}
	if light {
		rounds /= 4
	}
	var wg sync.WaitGroup
	var wrong, failed int64
	for g := 0; g < n; g++ {
		wg.Add(1)
		go func(g int) {
			defer wg.Done()
			rng := rand.New(rand.NewSource(int64(r.Seed)*1000 + int64(g)))
			for i := 0; i < rounds; i++ {
				id := fmt.Sprintf("%s-g%d-i%d", kind, g, i)
				padLen := rng.Intn(200)
				if kind != "udp" && rng.Intn(10) == 0 {
					padLen = 20000 + rng.Intn(50000)
				}
				if i%2 == 0 {
					res, err := client.Invoke("echo", []interface{}{id, make([]byte, padLen)})
					r.Eval(1)
					if err != nil {
						if atomic.AddInt64(&failed, 1) <= 3 {
							c.Violation("call-failed:"+kind, fmt.Sprintf("caller %d call %d: %v", g, i, err), map[string]interface{}{"kind": kind, "callers": n, "pool": usePool})
						}
						continue
					}
					if len(res) == 1 {
						if l, ok := res[0].([]interface{}); ok {
							res = l
						}
					}
					if len(res) != 2 || fmt.Sprint(res[0]) != "r:"+id || fmt.Sprint(res[1]) != fmt.Sprint(padLen) {
						if atomic.AddInt64(&wrong, 1) <= 5 {
							c.Violation("response-of-another-call:"+kind, fmt.Sprintf("caller %d call %d sent id %q pad %d and got %v", g, i, id, padLen, res), map[string]interface{}{"kind": kind, "callers": n, "pool": usePool})
						}
					}
				} else {
					req := append([]byte("RAW:"+id+":"), make([]byte, padLen)...)
					ctx, _ := peer.Ctx(client, 30*time.Second)
					resp, err := client.Request(ctx, req)
					r.Eval(1)
					if err != nil {
						if atomic.AddInt64(&failed, 1) <= 3 {
							c.Violation("call-failed:"+kind, fmt.Sprintf("caller %d raw call %d: %v", g, i, err), map[string]interface{}{"kind": kind, "callers": n, "pool": usePool})
						}
						continue
					}
					if !bytes.Equal(resp, append([]byte("ANS:"), req[4:]...)) {
						if atomic.AddInt64(&wrong, 1) <= 5 {
							c.Violation("response-of-another-call:"+kind, fmt.Sprintf("caller %d raw call %d sent %q and got %q", g, i, clip(req, 40), clip(resp, 40)), map[string]interface{}{"kind": kind, "callers": n, "pool": usePool})
						}
					}
				}
			}
		}(g)
	}
	wg.Wait()
	connMu.Lock()
	nc := len(conns)
	connMu.Unlock()
	r.StatMax("server_side_connections:"+kind, int64(nc))
	for _, mk := range peer.Multiplexed {
		if mk == kind && nc > 1 {
			// multiplexing is what the property is about: more than one connection means it was not exercised
			r.Inconclusive(fmt.Sprintf("%s: %d connections were used by one client, multiplexing not exercised", kind, nc))
		}
	}
	r.Distinct(fmt.Sprintf("real|%s|%d|%v", kind, n, usePool))
}

func clip(b []byte, n int) []byte {
	if len(b) > n {
		return b[:n]
	}
	return b
}

// ---- (B) scripted server ----

type outcome struct {
	resp []byte
	err  error
}

// issue starts k concurrent raw calls with unique bodies and returns their outcome channels.
func issue(client *core.Client, tag string, k int, timeout time.Duration) (bodies [][]byte, outs []chan outcome) {
	for i := 0; i < k; i++ {
		body := []byte(fmt.Sprintf("%s-call-%d", tag, i))
		ch := make(chan outcome, 1)
		bodies = append(bodies, body)
		outs = append(outs, ch)
		go func() {
			ctx, _ := peer.Ctx(client, timeout)
			resp, err := client.Request(ctx, body)
			ch <- outcome{resp, err}
		}()
	}
	return
}

func collect(srv *peer.RawServer, k int) ([]peer.RawReq, bool) {
	var reqs []peer.RawReq
	deadline := time.After(10 * time.Second)
	for len(reqs) < k {
		select {
		case q := <-srv.Reqs:
			reqs = append(reqs, q)
		case <-deadline:
			return reqs, false
		}
	}
	return reqs, true
}

func answer(body []byte) []byte { return append([]byte("answer-to:"), body...) }

func permutation(order string, k int, rng *rand.Rand) []int {
	p := make([]int, k)
	for i := range p {
		p[i] = i
	}
	switch order {
	case "reversed":
		for i, j := 0, k-1; i < j; i, j = i+1, j-1 {
			p[i], p[j] = p[j], p[i]
		}
	case "evens-odds":
		var q []int
		for i := 0; i < k; i += 2 {
			q = append(q, i)
		}
		for i := 1; i < k; i += 2 {
			q = append(q, i)
		}
		p = q
	case "random", "random-2", "random-3", "random-4":
		rng.Shuffle(k, func(i, j int) { p[i], p[j] = p[j], p[i] })
	}
	return p
}

func scriptedCase(c *h.Case, kind string, k int, order string) {
	r := c.R
	rng := c.Rand()
	srv, err := peer.StartRaw(kind)
	if err != nil {
		r.Inconclusive(err.Error())
		return
	}
	defer srv.Close()
	client := srv.NewClient()
	defer client.Abort()
	rep := map[string]interface{}{"kind": kind, "k": k, "order": order}
	usedIdx := map[uint32]bool{}
	var answered []uint32
	for round := 0; round < 3; round++ {
		bodies, outs := issue(client, fmt.Sprintf("%s-r%d", kind, round), k, 15*time.Second)
		reqs, ok := collect(srv, k)
		if !ok {
			c.Violation("requests-not-received:"+kind, fmt.Sprintf("round %d: the scripted server received %d of %d concurrent requests", round, len(reqs), k), rep)
			return
		}
		conns := map[int]bool{}
		for _, q := range reqs {
			usedIdx[q.Index] = true
			conns[q.Conn.ID] = true
		}
		if len(conns) > 1 {
			r.Inconclusive(fmt.Sprintf("%s: client used %d connections", kind, len(conns)))
		}
		conn := reqs[0].Conn
		stray := func() uint32 {
			mask := uint32(0x7fffffff)
			if kind == "udp" {
				mask = 0x7fff
			}
			for {
				x := uint32(rng.Int31()) & mask
				if !usedIdx[x] {
					return x
				}
			}
		}
		// strays before: never issued, and identifiers answered in an earlier round
		srv.Reply(conn, stray(), []byte("STRAY-NEVER-ISSUED"), false)
		if len(answered) > 0 {
			srv.Reply(conn, answered[rng.Intn(len(answered))], []byte("STRAY-ALREADY-ANSWERED"), false)
		}
		perm := permutation(order, k, rng)
		for n, i := range perm {
			q := reqs[i]
			srv.Reply(q.Conn, q.Index, answer(q.Body), false)
			answered = append(answered, q.Index)
			if n%3 == 0 {
				// duplicate of an answer just given, with another body
				srv.Reply(q.Conn, q.Index, []byte("DUPLICATE-ANSWER"), false)
			}
			if n%4 == 1 {
				srv.Reply(q.Conn, stray(), []byte("STRAY-INTERLEAVED"), false)
			}
			if strings.HasPrefix(order, "random") && rng.Intn(4) == 0 {
				time.Sleep(time.Duration(rng.Intn(300)) * time.Microsecond)
			}
		}
		srv.Reply(conn, stray(), []byte("STRAY-AFTER"), false)
		for i, ch := range outs {
			select {
			case o := <-ch:
				r.Eval(1)
				if o.err != nil {
					c.Violation("call-failed-although-answered:"+kind, fmt.Sprintf("round %d call %d: %v", round, i, o.err), rep)
				} else if !bytes.Equal(o.resp, answer(bodies[i])) {
					c.Violation("response-of-another-call:"+kind, fmt.Sprintf("round %d: call %q was handed %q", round, bodies[i], clip(o.resp, 60)), rep)
				}
			case <-time.After(20 * time.Second):
				c.Violation("caller-never-returned:"+kind, fmt.Sprintf("round %d call %d (answered by the server) is still pending", round, i), rep)
				return
			}
		}
	}
	r.Distinct(fmt.Sprintf("scripted|%s|%d|%s", kind, k, order))
}

// ---- (C) udp wrap-around ----

func udpWrap(c *h.Case, pendingAcross int) {
	r := c.R
	srv, err := peer.StartRaw("udp")
	if err != nil {
		r.Inconclusive(err.Error())
		return
	}
	defer srv.Close()
	client := srv.NewClient()
	defer client.Abort()
	rep := map[string]interface{}{"pending_across_wrap": pendingAcross}
	// slow calls: withheld until the fast calls have gone round the identifier space
	slowBodies, slowOuts := issue(client, "slow", pendingAcross, 120*time.Second)
	slowReqs, ok := collect(srv, pendingAcross)
	if !ok {
		c.Violation("requests-not-received:udp", "slow calls not received", rep)
		return
	}
	total := 33000
	if light {
		total = 33000
	}
	// the answering goroutine: answers fast calls at once
	done := make(chan struct{})
	go func() {
		for {
			select {
			case q := <-srv.Reqs:
				srv.Reply(q.Conn, q.Index, answer(q.Body), false)
			case <-done:
				return
			}
		}
	}()
	seen := map[int]bool{}
	for i := 0; i < total; i++ {
		body := []byte(fmt.Sprintf("fast-%d", i))
		var resp []byte
		var err error
		// a lost datagram is retried (udp may drop); the retry is a new call with a new identifier
		for attempt := 0; attempt < 5; attempt++ {
			ctx, _ := peer.Ctx(client, 2*time.Second)
			resp, err = client.Request(ctx, body)
			if err == nil || !core.IsTimeoutError(err) && !strings.Contains(err.Error(), "deadline") {
				break
			}
			r.Stat("udp_retries", 1)
		}
		r.Eval(1)
		if err != nil {
			c.Violation("call-failed-although-answered:udp-wrap", fmt.Sprintf("fast call %d of %d (after 5 attempts): %v", i, total, err), rep)
			break
		}
		if !bytes.Equal(resp, answer(body)) {
			c.Violation("response-of-another-call:udp-wrap", fmt.Sprintf("fast call %d sent %q got %q", i, body, clip(resp, 60)), rep)
			break
		}
		seen[i>>10] = true
	}
	close(done)
	for i, q := range slowReqs {
		srv.Reply(q.Conn, q.Index, answer(q.Body), false)
		_ = i
	}
	for i, ch := range slowOuts {
		select {
		case o := <-ch:
			r.Eval(1)
			if o.err != nil {
				c.Violation("call-pending-across-wrap-failed:udp", fmt.Sprintf("slow call %d: %v", i, o.err), rep)
			} else if !bytes.Equal(o.resp, answer(slowBodies[i])) {
				c.Violation("response-of-another-call:udp-wrap", fmt.Sprintf("slow call %q got %q", slowBodies[i], clip(o.resp, 60)), rep)
			}
		case <-time.After(20 * time.Second):
			c.Violation("caller-never-returned:udp-wrap", fmt.Sprintf("slow call %d, pending while the identifiers wrapped, was answered and is still pending", i), rep)
			return
		}
	}
	r.Distinct(fmt.Sprintf("udp-wrap|%d", pendingAcross))
	r.Stat("udp_wrap_calls", int64(total))
}

func udpWrapReal(c *h.Case) {
	r := c.R
	svc := core.NewService()
	svc.AddFunction(func(i int) int { return i * 3 }, "triple")
	srv, err := peer.Start("udp", svc)
	if err != nil {
		r.Inconclusive(err.Error())
		return
	}
	defer srv.Close()
	client := srv.NewClient()
	defer client.Abort()
	client.Timeout = 2 * time.Second
	var wg sync.WaitGroup
	var bad int64
	const callers = 4
	per := 66000 / callers
	if light {
		per = 34000 / callers
	}
	for g := 0; g < callers; g++ {
		wg.Add(1)
		go func(g int) {
			defer wg.Done()
			for i := 0; i < per; i++ {
				x := g*1000000 + i
				var res []interface{}
				var err error
				for attempt := 0; attempt < 5; attempt++ {
					res, err = client.Invoke("triple", []interface{}{x})
					if err == nil || !core.IsTimeoutError(err) {
						break
					}
					r.Stat("udp_retries", 1)
				}
				r.Eval(1)
				if err != nil {
					if atomic.AddInt64(&bad, 1) <= 3 {
						c.Violation("call-failed:udp-wrap-real", fmt.Sprintf("caller %d call %d (call number ~%d on the connection): %v", g, i, i*callers, err), nil)
					}
					return
				}
				if len(res) != 1 || fmt.Sprint(res[0]) != fmt.Sprint(x*3) {
					if atomic.AddInt64(&bad, 1) <= 3 {
						c.Violation("response-of-another-call:udp-wrap-real", fmt.Sprintf("triple(%d) = %v", x, res), nil)
					}
				}
			}
		}(g)
	}
	wg.Wait()
	r.Distinct("udp-wrap-real")
}

// ---- (D) reverse calls ----

func reverseCase(c *h.Case, kind string, providers, n int) {
	r := c.R
	svc := core.NewService()
	caller := reverse.NewCaller(svc)
	caller.HeartBeat = 0
	caller.Timeout = 30 * time.Second
	srv, err := peer.Start(kind, svc)
	if err != nil {
		r.Inconclusive(err.Error())
		return
	}
	defer srv.Close()
	var provs []*reverse.Provider
	for p := 0; p < providers; p++ {
		client := srv.NewClient()
		client.Timeout = 10 * time.Minute // the provider's poll must not give up on the client side: a call handed to an abandoned poll is lost by design
		pid := fmt.Sprintf("prov-%d", p)
		prov := reverse.NewProvider(client, pid)
		prov.RetryInterval = 10 * time.Millisecond
		prov.AddFunction(func(id string) string {
			time.Sleep(delayFor(id))
			return pid + " did " + id
		}, "work")
		go prov.Listen()
		provs = append(provs, prov)
	}
	defer func() {
		for _, p := range provs {
			closeProvider(p)
		}
	}()
	// wait until every provider is listening (first begin registered)
	for p := 0; p < providers; p++ {
		pid := fmt.Sprintf("prov-%d", p)
		ok := false
		for i := 0; i < 500; i++ {
			if caller.Exists(pid) {
				ok = true
				break
			}
			time.Sleep(10 * time.Millisecond)
		}
		if !ok {
			r.Inconclusive("provider did not come online: " + pid)
			return
		}
	}
	rounds := r.Pick(25, 100)
	if light {
		rounds = 8
	}
	var wg sync.WaitGroup
	var bad int64
	rep := map[string]interface{}{"kind": kind, "providers": providers, "callers": n}
	for g := 0; g < n; g++ {
		wg.Add(1)
		go func(g int) {
			defer wg.Done()
			for i := 0; i < rounds; i++ {
				p := (g + i) % providers
				pid := fmt.Sprintf("prov-%d", p)
				id := fmt.Sprintf("job-g%d-i%d", g, i)
				var res string
				var proxy struct {
					Work func(id string) (string, error) `name:"work"`
				}
				caller.UseService(&proxy, pid)
				res, err := proxy.Work(id)
				r.Eval(1)
				if err != nil {
					if atomic.AddInt64(&bad, 1) <= 3 {
						c.Violation("reverse-call-failed:"+kind, fmt.Sprintf("caller %d call %d to %s: %v", g, i, pid, err), rep)
					}
					continue
				}
				if res != pid+" did "+id {
					if atomic.AddInt64(&bad, 1) <= 5 {
						c.Violation("response-of-another-call:reverse:"+kind, fmt.Sprintf("caller %d asked %s for %q and got %q", g, pid, id, res), rep)
					}
				}
			}
		}(g)
	}
	wg.Wait()
	r.Distinct(fmt.Sprintf("reverse|%s|%d|%d", kind, providers, n))
}

// reverseIdle: reverse calls issued around the provider poll's idle time-outs.
func reverseIdle(c *h.Case, kind string) {
	r := c.R
	rng := c.Rand()
	svc := core.NewService()
	caller := reverse.NewCaller(svc)
	caller.HeartBeat = 0
	caller.IdleTimeout = 20 * time.Millisecond
	caller.Timeout = 3 * time.Second
	srv, err := peer.Start(kind, svc)
	if err != nil {
		r.Inconclusive(err.Error())
		return
	}
	defer srv.Close()
	client := srv.NewClient()
	client.Timeout = 10 * time.Minute // the provider's poll must not give up on the client side: a call handed to an abandoned poll is lost by design
	prov := reverse.NewProvider(client, "idle-prov")
	prov.RetryInterval = 10 * time.Millisecond
	prov.AddFunction(func(id string) string { return "did " + id }, "work")
	go prov.Listen()
	defer closeProvider(prov)
	for i := 0; i < 500 && !caller.Exists("idle-prov"); i++ {
		time.Sleep(10 * time.Millisecond)
	}
	var proxy struct {
		Work func(id string) (string, error) `name:"work"`
	}
	caller.UseService(&proxy, "idle-prov")
	n := 120
	if light {
		n = 40
	}
	lost := 0
	for i := 0; i < n; i++ {
		// gaps around one and two idle periods, so that calls land on both sides of a time-out
		gap := time.Duration(15+rng.Intn(12)) * time.Millisecond
		if i%3 == 0 {
			gap = time.Duration(rng.Intn(5000)) * time.Microsecond
		}
		time.Sleep(gap)
		id := fmt.Sprintf("idle-%d", i)
		res, err := proxy.Work(id)
		r.Eval(1)
		if err != nil {
			lost++
			if lost <= 3 {
				c.Violation("reverse-call-lost-around-idle-timeout:"+kind, fmt.Sprintf("call %d issued %v after the previous one: %v (provider online, call time-out 3s, poll idle time-out 20ms)", i, gap, err), map[string]interface{}{"kind": kind})
			}
		} else if res != "did "+id {
			c.Violation("response-of-another-call:reverse:"+kind, fmt.Sprintf("asked %q got %q", id, res), nil)
		}
	}
	r.Distinct("reverse-idle|" + kind)
}

// reverseStray: several reverse calls reach the provider in one batch; some callers give up
// before the provider posts the results, so the posted batch carries results that match no
// pending call (also a batch posted twice). The callers that still wait must get their own.
func reverseStray(c *h.Case, kind string) {
	r := c.R
	rng := c.Rand()
	for round := 0; round < r.Pick(6, 40); round++ {
		svc := core.NewService()
		caller := reverse.NewCaller(svc)
		caller.HeartBeat = 0
		caller.Timeout = 5 * time.Second
		srv, err := peer.Start(kind, svc)
		if err != nil {
			r.Inconclusive(err.Error())
			return
		}
		n := 2 + rng.Intn(5)
		impatient := map[int]bool{}
		for i := 0; i < n; i++ {
			if rng.Intn(2) == 0 {
				impatient[i] = true
			}
		}
		impatient[rng.Intn(n-1)] = true // at least one stray in front of a live result
		delete(impatient, n-1)          // and the last one waits
		type out struct {
			res string
			err error
		}
		outs := make([]chan out, n)
		// queue the calls one after the other before the provider listens: one batch, in order
		for i := 0; i < n; i++ {
			i := i
			outs[i] = make(chan out, 1)
			go func() {
				ctx := context.Background()
				if impatient[i] {
					var cancel context.CancelFunc
					ctx, cancel = context.WithTimeout(ctx, 40*time.Millisecond)
					defer cancel()
				}
				res, err := caller.InvokeContext(ctx, "p", "work", []interface{}{fmt.Sprintf("job-%d", i)}, reflect.TypeOf(""))
				o := out{err: err}
				if err == nil && len(res) == 1 {
					o.res, _ = res[0].(string)
				}
				outs[i] <- o
			}()
			time.Sleep(2 * time.Millisecond)
		}
		client := srv.NewClient()
		client.Timeout = 10 * time.Minute // the provider's poll must not give up on the client side: a call handed to an abandoned poll is lost by design
		prov := reverse.NewProvider(client, "p")
		prov.RetryInterval = 10 * time.Millisecond
		prov.AddFunction(func(id string) string {
			time.Sleep(120 * time.Millisecond) // the impatient callers are gone by then
			return "did " + id
		}, "work")
		go prov.Listen()
		rep := map[string]interface{}{"kind": kind, "calls": n, "impatient": fmt.Sprint(impatient)}
		for i := 0; i < n; i++ {
			r.Eval(1)
			select {
			case o := <-outs[i]:
				if impatient[i] {
					continue
				}
				if o.err != nil {
					c.Violation("reverse-call-lost-behind-a-stray-result:"+kind, fmt.Sprintf("call %d of a batch of %d (callers %v had given up): %v", i, n, impatient, o.err), rep)
				} else if o.res != fmt.Sprintf("did job-%d", i) {
					c.Violation("response-of-another-call:reverse:"+kind, fmt.Sprintf("call %d got %q", i, o.res), rep)
				}
			case <-time.After(10 * time.Second):
				c.Violation("caller-never-returned:reverse-stray:"+kind, fmt.Sprintf("call %d still pending", i), rep)
			}
		}
		closeProvider(prov)
		srv.Close()
		r.Distinct(fmt.Sprintf("reverse-stray|%s|%d", kind, n))
	}
}


// closeProvider stops a provider and waits (bounded) until its poll has ended, so that the
// server can be closed afterwards: the mock server cannot be closed while a poll is parked in it.
func closeProvider(p *reverse.Provider) {
	done := make(chan struct{})
	go func() { p.Close(); close(done) }()
	select {
	case <-done:
	case <-time.After(5 * time.Second):
	}
}

// timeoutRace: callers give up after a short time-out while the scripted peer answers right
// around that instant, call after call on one connection. A caller gets its own answer or its
// time-out, and a later call never receives what was meant for a call that gave up.
func timeoutRace(c *h.Case, kind string) {
	r := c.R
	srv, err := peer.StartRaw(kind)
	if err != nil {
		r.Inconclusive(err.Error())
		return
	}
	defer srv.Close()
	client := srv.NewClient()
	defer client.Abort()
	const timeout = 8 * time.Millisecond
	done := make(chan struct{})
	defer close(done)
	var seq int64
	go func() {
		for {
			select {
			case q := <-srv.Reqs:
				n := atomic.AddInt64(&seq, 1)
				// answer a little before, at, or a little after the caller's time-out
				d := timeout + time.Duration(n%9-4)*250*time.Microsecond
				go func() {
					time.Sleep(d)
					srv.Reply(q.Conn, q.Index, answer(q.Body), false)
				}()
			case <-done:
				return
			}
		}
	}()
	var wg sync.WaitGroup
	var bad, timeouts, answered int64
	rounds := r.Pick(60, 400)
	if light {
		rounds = 30
	}
	for g := 0; g < 8; g++ {
		wg.Add(1)
		go func(g int) {
			defer wg.Done()
			for i := 0; i < rounds; i++ {
				body := []byte(fmt.Sprintf("%s-race-g%d-i%d", kind, g, i))
				ctx, _ := peer.Ctx(client, -1)
				cctx, cancel := context.WithTimeout(ctx, timeout)
				resp, err := client.Request(cctx, body)
				cancel()
				r.Eval(1)
				if err != nil {
					atomic.AddInt64(&timeouts, 1)
					continue
				}
				atomic.AddInt64(&answered, 1)
				if !bytes.Equal(resp, answer(body)) {
					if atomic.AddInt64(&bad, 1) <= 5 {
						c.Violation("response-of-another-call:"+kind+":answers-racing-with-time-outs", fmt.Sprintf("call %q was handed %q", body, clip(resp, 60)), map[string]interface{}{"kind": kind})
					}
				}
			}
		}(g)
	}
	wg.Wait()
	r.Stat("timeout_race_timeouts:"+kind, timeouts)
	r.Stat("timeout_race_answered:"+kind, answered)
	r.Distinct("timeout-race|" + kind)
}

// reverseFirstCalls: the very first reverse calls to a provider id are issued by several callers
// at the same instant (released by a barrier), for many fresh ids: whatever is set up on first
// use must not be set up twice with one copy thrown away.
func reverseFirstCalls(c *h.Case, kind string) {
	r := c.R
	svc := core.NewService()
	caller := reverse.NewCaller(svc)
	caller.HeartBeat = 0
	caller.Timeout = 4 * time.Second
	srv, err := peer.Start(kind, svc)
	if err != nil {
		r.Inconclusive(err.Error())
		return
	}
	defer srv.Close()
	ids := r.Pick(60, 400)
	if light {
		ids = 25
	}
	var provs []*reverse.Provider
	defer func() {
		for _, p := range provs {
			closeProvider(p)
		}
	}()
	bad := 0
	for n := 0; n < ids && bad < 3; n++ {
		pid := fmt.Sprintf("fresh-%d", n)
		client := srv.NewClient()
		client.Timeout = 10 * time.Minute
		prov := reverse.NewProvider(client, pid)
		prov.RetryInterval = 10 * time.Millisecond
		prov.AddFunction(func(id string) string { return pid + " did " + id }, "work")
		go prov.Listen()
		provs = append(provs, prov)
		for i := 0; i < 500 && !caller.Exists(pid); i++ {
			time.Sleep(2 * time.Millisecond)
		}
		const k = 8
		var ready, wg sync.WaitGroup
		gate := make(chan struct{})
		errs := make([]error, k)
		outs := make([]string, k)
		for g := 0; g < k; g++ {
			ready.Add(1)
			wg.Add(1)
			go func(g int) {
				defer wg.Done()
				var proxy struct {
					Work func(id string) (string, error) `name:"work"`
				}
				caller.UseService(&proxy, pid)
				ready.Done()
				<-gate
				outs[g], errs[g] = proxy.Work(fmt.Sprintf("first-%d", g))
			}(g)
		}
		ready.Wait()
		close(gate)
		wg.Wait()
		for g := 0; g < k; g++ {
			r.Eval(1)
			if errs[g] != nil {
				bad++
				c.Violation("reverse-call-failed:"+kind+":first-calls-at-once", fmt.Sprintf("provider id %s: 8 callers issued their (first ever) calls at once, caller %d got %v", pid, g, errs[g]), map[string]interface{}{"kind": kind, "provider": pid})
				break
			}
			if outs[g] != fmt.Sprintf("%s did first-%d", pid, g) {
				bad++
				c.Violation("response-of-another-call:reverse:"+kind, fmt.Sprintf("caller %d asked %s for first-%d and got %q", g, pid, g, outs[g]), nil)
				break
			}
		}
	}
	r.Distinct("reverse-first-calls|" + kind)
}

var _ = sort.Ints
