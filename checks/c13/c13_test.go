// C13 — requests larger than MaxRequestLength are never processed.
package c13

import (
	"bytes"
	"context"
	"errors"
	"fmt"
	"io"
	"net"
	nethttp "net/http"
	"strconv"
	"sync"
	"testing"
	"time"

	"github.com/fasthttp/websocket"
	"github.com/hprose/hprose-golang/v3/rpc/core"
	"verif/internal/h"
	"verif/internal/peer"
)

// monitor counts what reaches the outermost IO plugin and the published function.
type monitor struct {
	mu      sync.Mutex
	ioLens  []int
	funcLen []int
}

func (m *monitor) io(ctx context.Context, request []byte, next core.NextIOHandler) ([]byte, error) {
	m.mu.Lock()
	m.ioLens = append(m.ioLens, len(request))
	m.mu.Unlock()
	return next(ctx, request)
}

func (m *monitor) echo(s string, pad ...interface{}) int {
	m.mu.Lock()
	m.funcLen = append(m.funcLen, len(s))
	m.mu.Unlock()
	return len(s)
}

func (m *monitor) take() (ioLens, funcLens []int) {
	m.mu.Lock()
	defer m.mu.Unlock()
	ioLens, funcLens = m.ioLens, m.funcLen
	m.ioLens, m.funcLen = nil, nil
	return
}

func newService(limit int) (*core.Service, *monitor) {
	svc := core.NewService()
	svc.MaxRequestLength = limit
	m := &monitor{}
	svc.Use(core.IOHandler(m.io))
	svc.AddFunction(m.echo, "echo")
	return svc, m
}

// request builds a request of exactly size bytes. It is a valid call of echo when the size
// allows (valid=true, with the string length), otherwise filler bytes.
func request(size int) (req []byte, valid bool, strLen int) {
	for k := 0; k <= 9; k++ {
		// C s4"echo" a<k+1>{ s<n>"xxx" n*k } z
		prefix := `Cs4"echo"a` + strconv.Itoa(k+1) + `{s`
		suffix := `"` + string(bytes.Repeat([]byte("n"), k)) + `}z`
		for d := 1; d <= 8; d++ {
			n := size - len(prefix) - len(suffix) - d - 1
			if n >= 2 && len(strconv.Itoa(n)) == d {
				var b bytes.Buffer
				b.WriteString(prefix)
				b.WriteString(strconv.Itoa(n))
				b.WriteByte('"')
				b.Write(bytes.Repeat([]byte("x"), n))
				b.WriteString(suffix)
				if b.Len() != size {
					panic("request construction")
				}
				return b.Bytes(), true, n
			}
		}
	}
	return bytes.Repeat([]byte("q"), size), false, 0
}

func limitsFor(kind string, quick bool) []int {
	ls := []int{0, 1, 5, 64, 1000, 4096, 65000, 65499}
	if kind != "udp" {
		ls = append(ls, 65536, 100000)
		if !quick {
			ls = append(ls, 1<<20)
		}
	}
	return ls
}

func sizesFor(kind string, limit int) []int {
	set := map[int]bool{}
	var out []int
	add := func(x int) {
		if x < 0 || set[x] {
			return
		}
		if kind == "udp" && x > 65499 {
			x = 65499
			if set[x] {
				return
			}
		}
		set[x] = true
		out = append(out, x)
	}
	for _, x := range []int{0, 1, limit / 2, limit - 2, limit - 1, limit, limit + 1, limit + 2, limit + 30, 2*limit + 7, limit + 70000, 10 * limit} {
		add(x)
	}
	return out
}

func TestCheck(t *testing.T) {
	peer.Register()
	r := h.Start(t, "C13")
	defer r.Finish()
	r.Meta("rule", "per transport {mock, tcp, unix, udp, net/http, fasthttp, ws, ws-fasthttp; fasthttp client in processes of its own} x MaxRequestLength in {0, 1, 5, 64, 1000, 4096, 65000, 65499, 65536, 100000, 2^20} x request size in {0, 1, limit/2, limit-2..limit+2, limit+30, 2*limit+7, limit+70000, 10*limit}: a real client submits a request of exactly that size (a valid call of a published function whenever the size allows) in a PRNG-drawn order over one client. Monitors: an outermost IO plugin and the published function record every request they see. Oracle: size > limit => neither saw anything and the caller's error is core.ErrRequestEntityTooLarge; size <= limit => the IO plugin saw exactly one request of that size and, for valid calls, the function ran once with the right argument. Length-declaration variants from raw peers, with the invariant 'the IO plugin never sees a request longer than the limit' and, for self-consistent frames within the limit, 'processed exactly once': tcp/unix frames declaring less or more than they carry, udp datagrams declaring less or more than they carry, http Content-Length truthful / absent (chunked) / smaller / larger than the body on both http servers, websocket messages whole and fragmented. distinct_nontrivial = distinct (transport, limit, size | variant) cells Round 3 additions: the limit lowered on a live connection; GET requests with a body over the limit.")
	r.Meta("assumptions", []string{
		"limits up to 2^20 and sizes up to limit+70000 / 10*limit",
		"udp: a request that no datagram can carry (over 65499 bytes) is refused by the client itself with the same error",
	})
	kinds := peer.Kinds
	if peer.FastHTTPClient {
		kinds = []string{"fasthttp", "http"}
	}
	for _, kind := range kinds {
		kind := kind
		for _, limit := range limitsFor(kind, r.Quick()) {
			limit := limit
			r.Case(fmt.Sprintf("client/%s/limit=%d", kind, limit), func(c *h.Case) { clientCase(c, kind, limit) })
		}
	}
	if peer.FastHTTPClient {
		return
	}
	for _, limit := range []int{0, 1, 64, 1000, 65000} {
		limit := limit
		for _, kind := range []string{"tcp", "unix"} {
			kind := kind
			r.Case(fmt.Sprintf("raw/%s/limit=%d", kind, limit), func(c *h.Case) { rawTCP(c, kind, limit) })
		}
		r.Case(fmt.Sprintf("raw/udp/limit=%d", limit), func(c *h.Case) { rawUDP(c, limit) })
		for _, kind := range []string{"http", "fasthttp"} {
			kind := kind
			r.Case(fmt.Sprintf("raw/%s/limit=%d", kind, limit), func(c *h.Case) { rawHTTP(c, kind, limit) })
		}
		for _, kind := range []string{"ws", "ws-fasthttp"} {
			kind := kind
			r.Case(fmt.Sprintf("raw/%s/limit=%d", kind, limit), func(c *h.Case) { rawWS(c, kind, limit) })
		}
	}
}

func clientCase(c *h.Case, kind string, limit int) {
	r := c.R
	svc, m := newService(limit)
	srv, err := peer.Start(kind, svc)
	if err != nil {
		r.Inconclusive("cannot start " + kind + ": " + err.Error())
		return
	}
	defer srv.Close()
	client := srv.NewClient()
	defer client.Abort()
	sizes := sizesFor(kind, limit)
	// every size twice, in a drawn order: a refusal must not affect the next call either
	order := append(append([]int(nil), sizes...), sizes...)
	c.Rand().Shuffle(len(order), func(i, j int) { order[i], order[j] = order[j], order[i] })
	for _, size := range order {
		req, valid, strLen := request(size)
		ctx, _ := peer.Ctx(client, 20*time.Second)
		resp, err := client.Request(ctx, req)
		r.Eval(1)
		ioLens, funcLens := m.take()
		rep := map[string]interface{}{"transport": kind, "limit": limit, "size": size, "valid_call": valid}
		cell := fmt.Sprintf("%s limit=%d size=%d", kind, limit, size)
		if size > limit {
			if len(ioLens) > 0 || len(funcLens) > 0 {
				c.Violation("oversized-request-processed:"+kind, fmt.Sprintf("%s: the IO plugin saw %v, the function ran %d times", cell, ioLens, len(funcLens)), rep)
			}
			if err == nil {
				c.Violation("oversized-request-answered-without-error:"+kind, fmt.Sprintf("%s: response %q", cell, clip(resp, 40)), rep)
			} else if !errors.Is(err, core.ErrRequestEntityTooLarge) {
				c.Violation("oversized-request-wrong-error:"+kind, fmt.Sprintf("%s: caller got %q, not the request-too-large error", cell, err.Error()), rep)
			}
		} else {
			if err != nil {
				c.Violation("request-within-limit-refused:"+kind, fmt.Sprintf("%s: %v", cell, err), rep)
			} else {
				if len(ioLens) != 1 || ioLens[0] != size {
					c.Violation("request-within-limit-not-processed-once:"+kind, fmt.Sprintf("%s: the IO plugin saw %v", cell, ioLens), rep)
				}
				if valid {
					want := "Ri" + strconv.Itoa(strLen) + ";z"
					if strLen >= 0 && strLen <= 9 {
						want = "R" + strconv.Itoa(strLen) + "z"
					}
					if len(funcLens) != 1 || funcLens[0] != strLen || string(resp) != want {
						c.Violation("request-within-limit-wrong-result:"+kind, fmt.Sprintf("%s: function calls %v, response %q, want %q", cell, funcLens, clip(resp, 40), want), rep)
					}
				}
			}
		}
		r.Distinct(cell)
	}
	r.SetAdd("limits", strconv.Itoa(limit))
	// the limit is lowered while the client's connection is established: it applies to the very next request
	if limit >= 64 {
		lower := limit / 2
		svc.MaxRequestLength = lower
		for _, size := range []int{lower + 1, limit - 1, limit, lower, lower - 1} {
			req, _, _ := request(size)
			ctx, _ := peer.Ctx(client, 20*time.Second)
			_, err := client.Request(ctx, req)
			r.Eval(1)
			ioLens, funcLens := m.take()
			rep := map[string]interface{}{"transport": kind, "limit_before": limit, "limit_now": lower, "size": size}
			if size > lower {
				if len(ioLens) > 0 || len(funcLens) > 0 {
					c.Violation("oversized-request-processed:"+kind+":limit-lowered-on-a-live-connection", fmt.Sprintf("MaxRequestLength was lowered from %d to %d after the connection had been used; a request of %d bytes was processed (IO plugin saw %v)", limit, lower, size, ioLens), rep)
				}
				if err == nil || !errors.Is(err, core.ErrRequestEntityTooLarge) {
					c.Violation("oversized-request-wrong-error:"+kind+":limit-lowered-on-a-live-connection", fmt.Sprintf("size %d over the lowered limit %d: err=%v", size, lower, err), rep)
				}
			} else if err != nil || len(ioLens) != 1 {
				c.Violation("request-within-limit-refused:"+kind+":limit-lowered-on-a-live-connection", fmt.Sprintf("size %d within the lowered limit %d: err=%v, IO plugin saw %v", size, lower, err, ioLens), rep)
			}
			r.Distinct(fmt.Sprintf("%s lowered %d->%d size=%d", kind, limit, lower, size))
		}
	}
}

func clip(b []byte, n int) []byte {
	if len(b) > n {
		return b[:n]
	}
	return b
}

func settle() { time.Sleep(30 * time.Millisecond) }

// invariant checks what the monitors saw after a raw exchange.
// wantExactly >= 0: exactly one request of that size must have been processed.
func invariant(c *h.Case, m *monitor, kind, variant string, limit, wantExactly int, rep map[string]interface{}) {
	if wantExactly >= 0 {
		// on a loaded machine the service may be late: wait (up to 5 s) for the request that must arrive
		for i := 0; i < 500; i++ {
			m.mu.Lock()
			k := len(m.ioLens)
			m.mu.Unlock()
			if k >= 1 {
				break
			}
			time.Sleep(10 * time.Millisecond)
		}
	}
	ioLens, _ := m.take()
	c.R.Eval(1)
	for _, l := range ioLens {
		if l > limit {
			c.Violation("oversized-request-processed:"+kind+":"+variant, fmt.Sprintf("limit %d: the IO plugin was handed %d bytes", limit, l), rep)
		}
	}
	if wantExactly >= 0 {
		if len(ioLens) != 1 || ioLens[0] != wantExactly {
			c.Violation("request-within-limit-not-processed-once:"+kind+":"+variant, fmt.Sprintf("limit %d: expected one request of %d bytes, the IO plugin saw %v", limit, wantExactly, ioLens), rep)
		}
	}
	c.R.Distinct(fmt.Sprintf("%s|%s|limit=%d|%v", kind, variant, limit, rep))
}

func rawTCP(c *h.Case, kind string, limit int) {
	r := c.R
	svc, m := newService(limit)
	srv, err := peer.Start(kind, svc)
	if err != nil {
		r.Inconclusive(err.Error())
		return
	}
	defer srv.Close()
	dial := func() net.Conn {
		network := "tcp"
		if kind == "unix" {
			network = "unix"
		}
		conn, err := net.DialTimeout(network, srv.Addr, 2*time.Second)
		if err != nil {
			r.Inconclusive(err.Error())
			return nil
		}
		return conn
	}
	exchange := func(frame []byte) (errFlag bool, body []byte) {
		conn := dial()
		if conn == nil {
			return
		}
		defer conn.Close()
		go conn.Write(frame)
		conn.SetReadDeadline(time.Now().Add(400 * time.Millisecond))
		_, body, errFlag, _ = peer.ReadTCPFrame(conn)
		return
	}
	for _, actual := range []int{0, 1, limit - 1, limit, limit + 1, limit + 100, 3*limit + 5} {
		if actual < 0 {
			continue
		}
		body, _, _ := request(actual)
		// truthful
		want := -1
		if actual <= limit {
			want = actual
		}
		errFlag, resp := exchange(peer.TCPFrame(3, body, false))
		settle()
		invariant(c, m, kind, "truthful", limit, want, map[string]interface{}{"actual": actual})
		if actual > limit && !(errFlag && string(resp) == core.RequestEntityTooLarge) {
			c.Violation("oversized-request-not-signalled:"+kind, fmt.Sprintf("limit %d, %d bytes sent: answer errFlag=%v %q", limit, actual, errFlag, clip(resp, 40)), map[string]interface{}{"actual": actual})
		}
		// declared smaller / larger than sent
		for _, declared := range []int{0, limit, limit + 1, actual / 2, actual + 10} {
			if declared == actual || declared < 0 {
				continue
			}
			exchange(peer.TCPFrameDeclared(3, uint32(declared), body, false))
			settle()
			invariant(c, m, kind, "misdeclared", limit, -1, map[string]interface{}{"actual": actual, "declared": declared})
		}
	}
}

func rawUDP(c *h.Case, limit int) {
	r := c.R
	svc, m := newService(limit)
	srv, err := peer.Start("udp", svc)
	if err != nil {
		r.Inconclusive(err.Error())
		return
	}
	defer srv.Close()
	conn, err := net.Dial("udp", srv.Addr)
	if err != nil {
		r.Inconclusive(err.Error())
		return
	}
	defer conn.Close()
	for _, actual := range []int{0, 1, limit - 1, limit, limit + 1, limit + 100, 3*limit + 5} {
		if actual < 0 || actual > 65499 {
			continue
		}
		body, _, _ := request(actual)
		want := -1
		if actual <= limit {
			want = actual
		}
		conn.Write(peer.UDPFrame(3, body, false))
		settle()
		conn.SetReadDeadline(time.Now().Add(300 * time.Millisecond))
		buf := make([]byte, 65536)
		n, _ := conn.Read(buf)
		invariant(c, m, "udp", "truthful", limit, want, map[string]interface{}{"actual": actual})
		if actual > limit {
			_, _, rb, errFlag, perr := peer.ParseUDPFrame(buf[:n])
			if perr != nil || !errFlag || string(rb) != core.RequestEntityTooLarge {
				c.Violation("oversized-request-not-signalled:udp", fmt.Sprintf("limit %d, %d bytes sent: answer %q", limit, actual, clip(buf[:n], 40)), map[string]interface{}{"actual": actual})
			}
		}
		for _, declared := range []int{0, limit, limit + 1, actual / 2, actual + 10} {
			if declared == actual || declared < 0 || declared > 65535 {
				continue
			}
			conn.Write(peer.UDPFrameDeclared(3, uint16(declared), body, false))
			settle()
			// an inconsistent datagram must not be processed at all
			ioLens, _ := m.take()
			r.Eval(1)
			if len(ioLens) > 0 {
				c.Violation("misdeclared-datagram-processed:udp", fmt.Sprintf("limit %d: datagram carrying %d bytes declared %d: the IO plugin saw %v", limit, actual, declared, ioLens), map[string]interface{}{"actual": actual, "declared": declared})
			}
			conn.SetReadDeadline(time.Now().Add(10 * time.Millisecond))
			conn.Read(buf)
			r.Distinct(fmt.Sprintf("udp|misdeclared|%d|%d|%d", limit, actual, declared))
		}
	}
}

func rawHTTP(c *h.Case, kind string, limit int) {
	r := c.R
	svc, m := newService(limit)
	srv, err := peer.Start(kind, svc)
	if err != nil {
		r.Inconclusive(err.Error())
		return
	}
	defer srv.Close()
	post := func(head string, body []byte, chunked bool) (status string) {
		conn, err := net.DialTimeout("tcp", srv.Addr, 2*time.Second)
		if err != nil {
			r.Inconclusive(err.Error())
			return
		}
		defer conn.Close()
		go func() {
			fmt.Fprintf(conn, "POST / HTTP/1.1\r\nHost: x\r\n%sConnection: close\r\n\r\n", head)
			if chunked {
				for off := 0; off < len(body); off += 777 {
					e := off + 777
					if e > len(body) {
						e = len(body)
					}
					fmt.Fprintf(conn, "%x\r\n", e-off)
					conn.Write(body[off:e])
					conn.Write([]byte("\r\n"))
				}
				conn.Write([]byte("0\r\n\r\n"))
			} else {
				conn.Write(body)
			}
			if tc, ok := conn.(*net.TCPConn); ok {
				tc.CloseWrite()
			}
		}()
		conn.SetReadDeadline(time.Now().Add(time.Second))
		data, _ := io.ReadAll(conn)
		if i := bytes.Index(data, []byte("\r\n")); i > 0 {
			return string(data[:i])
		}
		return string(clip(data, 30))
	}
	for _, actual := range []int{0, 1, limit - 1, limit, limit + 1, limit + 100, 3*limit + 5, limit + 70000} {
		if actual < 0 {
			continue
		}
		body, _, _ := request(actual)
		want := -1
		if actual <= limit {
			want = actual
		}
		rep := map[string]interface{}{"actual": actual}
		st := post(fmt.Sprintf("Content-Length: %d\r\n", actual), body, false)
		settle()
		invariant(c, m, kind, "truthful", limit, want, rep)
		if actual > limit && !bytes.Contains([]byte(st), []byte("413")) {
			c.Violation("oversized-request-not-signalled:"+kind+":truthful", fmt.Sprintf("limit %d, %d bytes: status %q", limit, actual, st), rep)
		}
		// the same with method GET (hprose accepts GET bodies): the limit applies all the same
		if actual > limit {
			func() {
				conn, err := net.DialTimeout("tcp", srv.Addr, 2*time.Second)
				if err != nil {
					return
				}
				defer conn.Close()
				go func() {
					fmt.Fprintf(conn, "GET / HTTP/1.1\r\nHost: x\r\nContent-Length: %d\r\nConnection: close\r\n\r\n", actual)
					conn.Write(body)
				}()
				conn.SetReadDeadline(time.Now().Add(time.Second))
				io.ReadAll(conn)
			}()
			settle()
			invariant(c, m, kind, "GET-with-body", limit, -1, rep)
		}
		st = post("Transfer-Encoding: chunked\r\n", body, true)
		settle()
		invariant(c, m, kind, "chunked", limit, want, rep)
		if actual > limit && !bytes.Contains([]byte(st), []byte("413")) {
			c.Violation("oversized-request-not-signalled:"+kind+":chunked", fmt.Sprintf("limit %d, %d bytes chunked: status %q", limit, actual, st), rep)
		}
		for _, declared := range []int{limit, actual / 2, actual + 10} {
			if declared == actual || declared < 0 {
				continue
			}
			post(fmt.Sprintf("Content-Length: %d\r\n", declared), body, false)
			settle()
			invariant(c, m, kind, "misdeclared", limit, -1, map[string]interface{}{"actual": actual, "declared": declared})
		}
	}
}

func rawWS(c *h.Case, kind string, limit int) {
	r := c.R
	svc, m := newService(limit)
	srv, err := peer.Start(kind, svc)
	if err != nil {
		r.Inconclusive(err.Error())
		return
	}
	defer srv.Close()
	d := websocket.Dialer{HandshakeTimeout: 2 * time.Second}
	for _, actual := range []int{0, 1, limit - 1, limit, limit + 1, limit + 100, 3*limit + 5, limit + 70000} {
		if actual < 0 {
			continue
		}
		body, _, _ := request(actual)
		want := -1
		if actual <= limit {
			want = actual
		}
		for _, fragmented := range []bool{false, true} {
			conn, resp, err := d.Dial("ws://"+srv.Addr+"/", nethttp.Header{"Sec-WebSocket-Protocol": []string{"hprose"}})
			if resp != nil {
				resp.Body.Close()
			}
			if err != nil {
				r.Inconclusive("ws dial: " + err.Error())
				return
			}
			msg := peer.WSFrame(3, body, false)
			if !fragmented {
				conn.WriteMessage(websocket.BinaryMessage, msg)
			} else {
				// several websocket fragments of one message
				w, _ := conn.NextWriter(websocket.BinaryMessage)
				fw := w.(interface{ Write([]byte) (int, error) })
				for off := 0; off < len(msg); off += 5000 {
					e := off + 5000
					if e > len(msg) {
						e = len(msg)
					}
					fw.Write(msg[off:e])
				}
				w.Close()
			}
			conn.SetReadDeadline(time.Now().Add(400 * time.Millisecond))
			_, data, _ := conn.ReadMessage()
			conn.Close()
			settle()
			variant := "whole"
			if fragmented {
				variant = "fragmented"
			}
			rep := map[string]interface{}{"actual": actual}
			invariant(c, m, kind, variant, limit, want, rep)
			if actual > limit {
				if len(data) < 4 || data[0]&0x80 == 0 || string(data[4:]) != core.RequestEntityTooLarge {
					c.Violation("oversized-request-not-signalled:"+kind, fmt.Sprintf("limit %d, %d bytes (%s): answer %q", limit, actual, variant, clip(data, 40)), rep)
				}
			}
		}
	}
}
