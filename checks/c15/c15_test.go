// C15 — plugins run as an ordered onion around the core handler.
package c15

import (
	"bytes"
	"context"
	"errors"
	"fmt"
	"io"
	"net"
	nethttp "net/http"
	"regexp"
	"strings"
	"sync"
	"sync/atomic"
	"testing"
	"time"

	"github.com/anishathalye/porcupine"
	"github.com/hprose/hprose-golang/v3/rpc/core"
	"github.com/hprose/hprose-golang/v3/rpc/mock"
	"verif/internal/h"
	"verif/internal/peer"
)

// ---- trace ----

var (
	traceMu sync.Mutex
	traces  = map[string][]string{}
	shortOf sync.Map // handler id -> bool: short-circuit (do not call next)
)

func emit(cid, ev string) {
	traceMu.Lock()
	traces[cid] = append(traces[cid], ev)
	traceMu.Unlock()
}

func take(cid string) []string {
	traceMu.Lock()
	defer traceMu.Unlock()
	t := traces[cid]
	delete(traces, cid)
	return t
}

var cidRe = regexp.MustCompile(`cid-[0-9]{7}`)

func cidOf(ctx context.Context, request []byte) string {
	if cc, ok := core.FromContext(ctx); ok {
		switch x := cc.(type) {
		case *core.ClientContext:
			return x.Items().GetString("cid")
		case *core.ServiceContext:
			if s := x.RequestHeaders().GetString("cid"); s != "" {
				return s
			}
		}
	}
	if m := cidRe.Find(request); m != nil {
		return string(m)
	}
	return "?"
}

func invGeneric(id string, ctx context.Context, name string, args []interface{}, next core.NextInvokeHandler) ([]interface{}, error) {
	cid := cidOf(ctx, nil)
	emit(cid, "enter "+id)
	defer emit(cid, "exit "+id)
	if v, ok := shortOf.Load(id); ok && v.(bool) {
		return []interface{}{"short:" + id}, nil
	}
	res, err := next(ctx, name, args)
	if err == nil && len(res) == 1 {
		if s, ok := res[0].(string); ok {
			res = []interface{}{s + "," + id}
		}
	}
	return res, err
}

func ioGeneric(id string, ctx context.Context, request []byte, next core.NextIOHandler) ([]byte, error) {
	cid := cidOf(ctx, request)
	emit(cid, "enter "+id)
	defer emit(cid, "exit "+id)
	return next(ctx, request)
}

// Separately declared functions: distinct code pointers.
func inv0(ctx context.Context, n string, a []interface{}, next core.NextInvokeHandler) ([]interface{}, error) {
	return invGeneric("inv0", ctx, n, a, next)
}
func inv1(ctx context.Context, n string, a []interface{}, next core.NextInvokeHandler) ([]interface{}, error) {
	return invGeneric("inv1", ctx, n, a, next)
}
func inv2(ctx context.Context, n string, a []interface{}, next core.NextInvokeHandler) ([]interface{}, error) {
	return invGeneric("inv2", ctx, n, a, next)
}
func inv3(ctx context.Context, n string, a []interface{}, next core.NextInvokeHandler) ([]interface{}, error) {
	return invGeneric("inv3", ctx, n, a, next)
}
func io0(ctx context.Context, r []byte, next core.NextIOHandler) ([]byte, error) {
	return ioGeneric("io0", ctx, r, next)
}
func io1(ctx context.Context, r []byte, next core.NextIOHandler) ([]byte, error) {
	return ioGeneric("io1", ctx, r, next)
}
func io2(ctx context.Context, r []byte, next core.NextIOHandler) ([]byte, error) {
	return ioGeneric("io2", ctx, r, next)
}
func io3(ctx context.Context, r []byte, next core.NextIOHandler) ([]byte, error) {
	return ioGeneric("io3", ctx, r, next)
}

// two-sided plugin objects of distinct types
type plugA struct{}

func (plugA) IOHandler(ctx context.Context, r []byte, next core.NextIOHandler) ([]byte, error) {
	return ioGeneric("plugA.io", ctx, r, next)
}
func (plugA) InvokeHandler(ctx context.Context, n string, a []interface{}, next core.NextInvokeHandler) ([]interface{}, error) {
	return invGeneric("plugA.inv", ctx, n, a, next)
}

type plugB struct{}

func (plugB) IOHandler(ctx context.Context, r []byte, next core.NextIOHandler) ([]byte, error) {
	return ioGeneric("plugB.io", ctx, r, next)
}
func (plugB) InvokeHandler(ctx context.Context, n string, a []interface{}, next core.NextInvokeHandler) ([]interface{}, error) {
	return invGeneric("plugB.inv", ctx, n, a, next)
}

// invoke-only and IO-only plugin objects
type invOnly struct{}

func (invOnly) Handler(ctx context.Context, n string, a []interface{}, next core.NextInvokeHandler) ([]interface{}, error) {
	return invGeneric("invOnly", ctx, n, a, next)
}

type ioOnly struct{}

func (ioOnly) Handler(ctx context.Context, r []byte, next core.NextIOHandler) ([]byte, error) {
	return ioGeneric("ioOnly", ctx, r, next)
}

// item is one thing that can be passed to Use/Unuse, with the handler ids it contributes.
type item struct {
	name string
	h    core.PluginHandler
	inv  string // id contributed to the invoke chain ("" = none)
	io   string
}

var pool = []item{
	{"inv0", core.InvokeHandler(inv0), "inv0", ""},
	{"inv1", core.InvokeHandler(inv1), "inv1", ""},
	{"io0", core.IOHandler(io0), "", "io0"},
	{"io1", core.IOHandler(io1), "", "io1"},
	{"plugA", plugA{}, "plugA.inv", "plugA.io"},
	{"plugB", plugB{}, "plugB.inv", "plugB.io"},
	{"invOnly", invOnly{}, "invOnly", ""},
	{"ioOnly", ioOnly{}, "", "ioOnly"},
	{"inv2", core.InvokeHandler(inv2), "inv2", ""},
	{"io2", core.IOHandler(io2), "", "io2"},
	{"inv3", core.InvokeHandler(inv3), "inv3", ""},
	{"io3", core.IOHandler(io3), "", "io3"},
}

// ---- the system ----

type sys struct {
	service *core.Service
	client  *core.Client
	addr    string
	// model: the four handler lists
	cInv, cIO, sInv, sIO []string
}

var sysN int64

func newSys() *sys {
	s := &sys{addr: fmt.Sprintf("c15-%d", atomic.AddInt64(&sysN, 1))}
	s.service = core.NewService()
	s.service.AddFunction(func() string { return "core" }, "f")
	if err := s.service.Bind(mock.Server{Address: s.addr}); err != nil {
		panic(err)
	}
	s.client = core.NewClient("mock://" + s.addr)
	s.client.Timeout = 0
	return s
}

func (s *sys) close() { mock.Server{Address: s.addr}.Close() }

func remove(list []string, id string) []string {
	var out []string
	for _, x := range list {
		if x != id {
			out = append(out, x)
		}
	}
	return out
}

// apply performs Use/Unuse on the real system and on the model.
func (s *sys) apply(onClient, use bool, it item) {
	if onClient {
		if use {
			s.client.Use(it.h)
		} else {
			s.client.Unuse(it.h)
		}
	} else {
		if use {
			s.service.Use(it.h)
		} else {
			s.service.Unuse(it.h)
		}
	}
	inv, io := &s.sInv, &s.sIO
	if onClient {
		inv, io = &s.cInv, &s.cIO
	}
	if use {
		if it.inv != "" {
			*inv = append(*inv, it.inv)
		}
		if it.io != "" {
			*io = append(*io, it.io)
		}
	} else {
		if it.inv != "" {
			*inv = remove(*inv, it.inv)
		}
		if it.io != "" {
			*io = remove(*io, it.io)
		}
	}
}

var cidN int64

func (s *sys) call() (trace []string, result string, err error, panicked interface{}) {
	cid := fmt.Sprintf("cid-%07d", atomic.AddInt64(&cidN, 1)%10000000)
	cc := core.NewClientContext()
	cc.Items().Set("cid", cid)
	cc.RequestHeaders().Set("cid", cid)
	var res []interface{}
	panicked, _ = h.Try(func() { res, err = s.client.InvokeContext(core.WithContext(context.Background(), cc), "f", nil) })
	if len(res) == 1 {
		result = fmt.Sprint(res[0])
	}
	return take(cid), result, err, panicked
}

// expectedTrace builds the onion for the four lists, honouring a short-circuiting client
// invoke handler.
func expectedTrace(cInv, cIO, sIO, sInv []string) (trace []string, result string) {
	var chain []string
	short := -1
	for i, id := range cInv {
		chain = append(chain, id)
		if v, ok := shortOf.Load(id); ok && v.(bool) {
			short = i
			break
		}
	}
	if short < 0 {
		chain = append(chain, cIO...)
		chain = append(chain, sIO...)
		chain = append(chain, sInv...)
	}
	for _, id := range chain {
		trace = append(trace, "enter "+id)
	}
	for i := len(chain) - 1; i >= 0; i-- {
		trace = append(trace, "exit "+chain[i])
	}
	// results travel back through the invoke handlers in reverse order
	if short >= 0 {
		result = "short:" + cInv[short]
		for i := short - 1; i >= 0; i-- {
			result += "," + cInv[i]
		}
		return
	}
	result = "core"
	for i := len(sInv) - 1; i >= 0; i-- {
		result += "," + sInv[i]
	}
	for i := len(cInv) - 1; i >= 0; i-- {
		result += "," + cInv[i]
	}
	return
}

func (s *sys) check(c *h.Case, ops []string, sig string) bool {
	tr, res, err, pan := s.call()
	c.R.Eval(1)
	want, wantRes := expectedTrace(s.cInv, s.cIO, s.sIO, s.sInv)
	rep := map[string]interface{}{"operations": ops, "expected_trace": want, "observed_trace": tr, "result": res, "error": fmt.Sprint(err)}
	if pan != nil {
		c.Violation("panic-escaped-to-caller:"+sig, fmt.Sprint(pan), rep)
		return false
	}
	if err != nil {
		c.Violation("call-failed:"+sig, err.Error(), rep)
		return false
	}
	if strings.Join(tr, "|") != strings.Join(want, "|") {
		c.Violation("wrong-onion:"+sig, fmt.Sprintf("after %v\nexpected %v\nobserved %v", ops, want, tr), rep)
		return false
	}
	if res != wantRes {
		c.Violation("results-not-in-reverse-order:"+sig, fmt.Sprintf("after %v: expected result %q, got %q", ops, wantRes, res), rep)
		return false
	}
	return true
}

func TestCheck(t *testing.T) {
	peer.Register()
	r := h.Start(t, "C15")
	defer r.Finish()
	r.Meta("rule", "a real Service and Client over the mock transport; handlers (4 invoke functions, 4 IO functions, two two-sided plugin types, an invoke-only and an IO-only plugin type: all with distinct code) record enter/exit per call id and append their id to the result on the way back. Exhaustive: every sequence of length <= 5 of Use/Unuse over 3 handlers for each of the four managers (client invoke, client IO, service invoke, service IO) and for two-sided plugins on client and service, a call after every operation compared with a list model (append on Use, remove all equal on Unuse, no-op for absent), including repeated, absent and already removed handlers and short-circuiting handlers; seeded random sequences of length <= 40 over the whole pool on both sides at once; concurrent histories (2 mutators, 4 callers) per manager checked with porcupine against the list model, every trace checked for onion nesting; the race detector watches plugin_manager.go. distinct_nontrivial = distinct operation sequences with a non-empty chain at the probe call Added: two distinct plugin objects with equal contents; inner handlers that return a response (or results) together with an error, whose pair every outer handler must be handed; entry points on all eight transports (library client, HTTP GET for the function list, POST with and without body, raw socket frame): IO and invoke handlers passed once, the peer receives what the outermost IO handler returned.")
	r.Meta("exhaustive", true)
	r.Meta("assumptions", []string{
		"handlers are distinguished by identity of their code (separately declared functions / distinct plugin types); handlers that share code are the subject of a known finding",
		"a call in flight during Use/Unuse may see the chain before or after the operation, but always one consistent version per manager",
	})
	// exhaustive sequences per target
	targets := []struct {
		name     string
		onClient bool
		items    []item
	}{
		{"client-invoke", true, []item{pool[0], pool[1], pool[8]}},
		{"client-io", true, []item{pool[2], pool[3], pool[9]}},
		{"service-invoke", false, []item{pool[0], pool[1], pool[8]}},
		{"service-io", false, []item{pool[2], pool[3], pool[9]}},
		{"client-plugins", true, []item{pool[4], pool[5], pool[6]}},
		{"service-plugins", false, []item{pool[4], pool[7], pool[5]}},
	}
	maxLen := r.Pick(5, 6)
	for _, tg := range targets {
		tg := tg
		// first operation fixed per case to spread the work
		for first := 0; first < 2*len(tg.items); first++ {
			first := first
			r.Case(fmt.Sprintf("seq/%s/first%d", tg.name, first), func(c *h.Case) { exhaustive(c, tg.name, tg.onClient, tg.items, first, maxLen) })
		}
	}
	r.Case("short-circuit", func(c *h.Case) { shortCircuit(c) })
	nrand := r.Pick(600, 6000)
	for k := 0; k < nrand; k++ {
		k := k
		r.Case(fmt.Sprintf("random/%d", k), func(c *h.Case) { randomSeq(c, k) })
	}
	nconc := r.Pick(800, 8000)
	for k := 0; k < nconc; k++ {
		k := k
		r.Case(fmt.Sprintf("concurrent/%d", k), func(c *h.Case) { concurrentCase(c, k) })
	}
	r.Case("shared-code-handlers", func(c *h.Case) { sharedCode(c) })
	r.Case("response-together-with-error", func(c *h.Case) { responseAndError(c) })
	for _, kind := range peer.Kinds {
		kind := kind
		r.Case("entry-points/"+kind, func(c *h.Case) { entryPoints(c, kind) })
	}
}

// entryPoints: whatever way a request enters a service (the library's client on every transport,
// an HTTP GET asking for the function list, POSTs with and without a body, a raw socket frame)
// it passes the service's IO handlers and invoke handlers once each, and the bytes the peer
// receives are those the outermost IO handler returned.
func entryPoints(c *h.Case, kind string) {
	svc := core.NewService()
	svc.AddFunction(func(s string) string { return "<" + s + ">" }, "wrap")
	var mu sync.Mutex
	var ioReq, ioResp [][]byte
	var invNames []string
	svc.Use(func(ctx context.Context, request []byte, next core.NextIOHandler) ([]byte, error) {
		resp, err := next(ctx, request)
		mu.Lock()
		ioReq = append(ioReq, append([]byte(nil), request...))
		ioResp = append(ioResp, append([]byte(nil), resp...))
		mu.Unlock()
		return resp, err
	}, func(ctx context.Context, name string, args []interface{}, next core.NextInvokeHandler) ([]interface{}, error) {
		mu.Lock()
		invNames = append(invNames, name)
		mu.Unlock()
		return next(ctx, name, args)
	})
	srv, err := peer.Start(kind, svc)
	if err != nil {
		c.R.Inconclusive("entry-points: cannot start " + kind + ": " + err.Error())
		return
	}
	defer srv.Close()
	counts := func() (int, int) {
		mu.Lock()
		defer mu.Unlock()
		return len(ioReq), len(invNames)
	}
	// expect runs one entry and compares what the handlers observed
	expect := func(entry string, wantInv int, do func() ([]byte, error)) {
		io0, inv0 := counts()
		got, err := do()
		c.R.Eval(1)
		rep := map[string]interface{}{"transport": kind, "entry": entry}
		if err != nil {
			c.Violation("entry-failed:"+entry, fmt.Sprintf("%s on %s: %v", entry, kind, err), rep)
			return
		}
		io1, inv1 := counts()
		if io1-io0 != 1 {
			c.Violation("io-handlers-not-passed-once:"+entry, fmt.Sprintf("%s on %s was answered (%q) but the service's IO handler ran %d times", entry, kind, got, io1-io0), rep)
			return
		}
		if wantInv >= 0 && inv1-inv0 != wantInv {
			c.Violation("invoke-handlers-not-passed-once:"+entry, fmt.Sprintf("%s on %s: the service's invoke handler ran %d times, expected %d", entry, kind, inv1-inv0, wantInv), rep)
		}
		mu.Lock()
		seen := ioResp[len(ioResp)-1]
		mu.Unlock()
		if got != nil && !bytes.Equal(got, seen) {
			c.Violation("peer-did-not-get-what-the-io-handler-returned:"+entry, fmt.Sprintf("%s on %s: peer received %q, the outermost IO handler returned %q", entry, kind, got, seen), rep)
		}
		c.R.Distinct("entry|" + kind + "|" + entry)
	}
	client := srv.NewClient()
	expect("client-call", 1, func() ([]byte, error) {
		res, err := client.Invoke("wrap", []interface{}{"x"})
		if err == nil && (len(res) != 1 || fmt.Sprint(res[0]) != "<x>") {
			err = fmt.Errorf("result %v", res)
		}
		return nil, err
	})
	call := []byte(`Cs4"wrap"a1{s1"y"}z`)
	switch kind {
	case "http", "fasthttp", "ws", "ws-fasthttp":
		url := "http://" + srv.Addr + "/"
		hc := &nethttp.Client{Transport: &nethttp.Transport{DisableKeepAlives: true}}
		fetch := func(method string, body []byte) func() ([]byte, error) {
			return func() ([]byte, error) {
				var rd io.Reader
				if body != nil {
					rd = bytes.NewReader(body)
				}
				req, _ := nethttp.NewRequest(method, url, rd)
				resp, err := hc.Do(req)
				if err != nil {
					return nil, err
				}
				defer resp.Body.Close()
				b, err := io.ReadAll(resp.Body)
				if err == nil && resp.StatusCode != 200 {
					err = fmt.Errorf("status %d", resp.StatusCode)
				}
				return b, err
			}
		}
		expect("http-get", -1, fetch("GET", nil))
		expect("http-post-empty", -1, fetch("POST", []byte{}))
		expect("http-post-function-list", -1, fetch("POST", []byte("z")))
		expect("http-post-call", 1, fetch("POST", call))
	case "tcp", "unix":
		network := kind
		expect("raw-frame", 1, func() ([]byte, error) {
			conn, err := net.DialTimeout(network, srv.Addr, 5*time.Second)
			if err != nil {
				return nil, err
			}
			defer conn.Close()
			conn.SetDeadline(time.Now().Add(20 * time.Second))
			if _, err := conn.Write(peer.TCPFrame(7, call, false)); err != nil {
				return nil, err
			}
			_, body, _, err := peer.ReadTCPFrame(conn)
			return body, err
		})
	}
}

func exhaustive(c *h.Case, name string, onClient bool, items []item, first, maxLen int) {
	nops := 2 * len(items)
	var rec func(seq []int)
	rec = func(seq []int) {
		// replay the sequence on a fresh system, probing after every operation
		s := newSys()
		var ops []string
		ok := true
		for _, op := range seq {
			it := items[op/2]
			use := op%2 == 0
			s.apply(onClient, use, it)
			if use {
				ops = append(ops, "Use("+it.name+")")
			} else {
				ops = append(ops, "Unuse("+it.name+")")
			}
		}
		ok = s.check(c, ops, name)
		if len(s.cInv)+len(s.cIO)+len(s.sInv)+len(s.sIO) > 0 {
			c.R.Distinct(name + "|" + strings.Join(ops, ","))
		}
		s.close()
		if !ok || len(seq) == maxLen {
			return
		}
		for op := 0; op < nops; op++ {
			rec(append(seq, op))
		}
	}
	rec([]int{first})
}

func shortCircuit(c *h.Case) {
	for _, which := range []string{"inv0", "inv1", "inv2"} {
		shortOf.Store(which, true)
		s := newSys()
		var ops []string
		for _, it := range []item{pool[0], pool[2], pool[1], pool[8], pool[4]} {
			s.apply(true, true, it)
			ops = append(ops, "Use("+it.name+")")
			s.check(c, append(ops, "short-circuit="+which), "short-circuit")
		}
		s.apply(true, false, pool[0])
		s.check(c, append(ops, "Unuse(inv0)", "short-circuit="+which), "short-circuit")
		s.close()
		shortOf.Store(which, false)
		c.R.Distinct("short|" + which)
	}
}

func randomSeq(c *h.Case, k int) {
	rng := c.Rand()
	s := newSys()
	defer s.close()
	var ops []string
	n := 5 + rng.Intn(36)
	for i := 0; i < n; i++ {
		it := pool[rng.Intn(len(pool))]
		onClient := rng.Intn(2) == 0
		use := rng.Intn(5) < 3
		s.apply(onClient, use, it)
		side := "service"
		if onClient {
			side = "client"
		}
		if use {
			ops = append(ops, side+".Use("+it.name+")")
		} else {
			ops = append(ops, side+".Unuse("+it.name+")")
		}
		if rng.Intn(3) == 0 || i == n-1 {
			if !s.check(c, ops, "random") {
				return
			}
		}
	}
	c.R.Distinct("rnd|" + strings.Join(ops, ","))
	if k == 0 {
		tr, res, _, _ := s.call()
		c.R.Sample(map[string]interface{}{"operations": ops, "trace": tr, "result": res})
	}
}

// ---- concurrent ----

type opIn struct {
	kind string // use, unuse, call
	id   string
}

func splitTrace(tr []string) (ids []string, nested bool) {
	// the enter sequence; nesting: exits are the exact reverse
	var enters, exits []string
	for _, e := range tr {
		if strings.HasPrefix(e, "enter ") {
			if len(exits) > 0 {
				return nil, false
			}
			enters = append(enters, strings.TrimPrefix(e, "enter "))
		} else {
			exits = append(exits, strings.TrimPrefix(e, "exit "))
		}
	}
	if len(enters) != len(exits) {
		return enters, false
	}
	for i := range enters {
		if enters[i] != exits[len(exits)-1-i] {
			return enters, false
		}
	}
	return enters, true
}

func concurrentCase(c *h.Case, k int) {
	rng := c.Rand()
	s := newSys()
	defer s.close()
	// one manager per history: client invoke (0), client IO (1), service invoke (2), service IO (3)
	mgr := k % 4
	onClient := mgr < 2
	var items []item
	if mgr%2 == 0 {
		items = []item{pool[0], pool[1], pool[8], pool[10]}
	} else {
		items = []item{pool[2], pool[3], pool[9], pool[11]}
	}
	idOf := func(it item) string {
		if it.inv != "" {
			return it.inv
		}
		return it.io
	}
	var clock int64
	tick := func() int64 { return atomic.AddInt64(&clock, 1) }
	var mu sync.Mutex
	var ops []porcupine.Operation
	var wg sync.WaitGroup
	type plan struct {
		use bool
		it  item
	}
	mutPlans := make([][]plan, 2)
	for m := range mutPlans {
		for i := 0; i < 3+rng.Intn(4); i++ {
			mutPlans[m] = append(mutPlans[m], plan{rng.Intn(3) != 0, items[rng.Intn(len(items))]})
		}
	}
	ncalls := 2 + rng.Intn(3)
	var bad atomic.Value
	for m := 0; m < 2; m++ {
		m := m
		wg.Add(1)
		go func() {
			defer wg.Done()
			for _, p := range mutPlans[m] {
				t0 := tick()
				if onClient {
					if p.use {
						s.client.Use(p.it.h)
					} else {
						s.client.Unuse(p.it.h)
					}
				} else {
					if p.use {
						s.service.Use(p.it.h)
					} else {
						s.service.Unuse(p.it.h)
					}
				}
				t1 := tick()
				kind := "unuse"
				if p.use {
					kind = "use"
				}
				mu.Lock()
				ops = append(ops, porcupine.Operation{ClientId: m, Input: opIn{kind, idOf(p.it)}, Call: t0, Output: "", Return: t1})
				mu.Unlock()
			}
		}()
	}
	for g := 0; g < 4; g++ {
		g := g
		wg.Add(1)
		go func() {
			defer wg.Done()
			for i := 0; i < ncalls; i++ {
				t0 := tick()
				tr, _, err, pan := s.call()
				t1 := tick()
				if err != nil || pan != nil {
					bad.Store(fmt.Sprintf("call failed during concurrent Use/Unuse: err=%v panic=%v", err, pan))
					continue
				}
				ids, nested := splitTrace(tr)
				if !nested {
					bad.Store(fmt.Sprintf("trace is not an onion: %v", tr))
					continue
				}
				mu.Lock()
				ops = append(ops, porcupine.Operation{ClientId: 2 + g, Input: opIn{"call", ""}, Call: t0, Output: strings.Join(ids, ","), Return: t1})
				mu.Unlock()
			}
		}()
	}
	wg.Wait()
	c.R.Eval(int64(len(ops)))
	sig := []string{"client-invoke", "client-io", "service-invoke", "service-io"}[mgr]
	if b := bad.Load(); b != nil {
		c.Violation("chain-corrupted-by-concurrent-use:"+sig, b.(string), nil)
		return
	}
	model := porcupine.Model{
		Init: func() interface{} { return "" },
		Step: func(state, input, output interface{}) (bool, interface{}) {
			st := state.(string)
			in := input.(opIn)
			var list []string
			if st != "" {
				list = strings.Split(st, ",")
			}
			switch in.kind {
			case "use":
				return true, strings.Join(append(list, in.id), ",")
			case "unuse":
				return true, strings.Join(remove(list, in.id), ",")
			}
			return output.(string) == st, st
		},
	}
	switch porcupine.CheckOperationsTimeout(model, ops, 20*time.Second) {
	case porcupine.Illegal:
		var sb strings.Builder
		for _, o := range ops {
			fmt.Fprintf(&sb, "[client %d %v -> %q @%d..%d]", o.ClientId, o.Input, o.Output, o.Call, o.Return)
		}
		c.Violation("concurrent-history-not-linearizable:"+sig, "no order of Use/Unuse/call consistent with real time explains the handler lists the calls went through: "+sb.String(), map[string]interface{}{"history": sb.String()})
	case porcupine.Unknown:
		c.R.Inconclusive("porcupine timed out on a C15 history")
	}
	c.R.Distinct(fmt.Sprintf("conc|%d", k))
}

// sharedCode: handlers that share code (method values of two instances of one plugin type;
// closures of one literal). Unuse compares code pointers, so removing one removes both.
type counting struct{ id string }

func (p *counting) Handler(ctx context.Context, n string, a []interface{}, next core.NextInvokeHandler) ([]interface{}, error) {
	return invGeneric(p.id, ctx, n, a, next)
}

//go:noinline
func mkClosure(id string) core.InvokeHandler {
	return func(ctx context.Context, n string, a []interface{}, next core.NextInvokeHandler) ([]interface{}, error) {
		return invGeneric(id, ctx, n, a, next)
	}
}

// twin: plugin objects that are distinct but have equal contents; which one ran is known from a
// table keyed by the object's address.
type twin struct {
	kind string
	opts []string
}

var twinIDs sync.Map

func (p *twin) Handler(ctx context.Context, n string, a []interface{}, next core.NextInvokeHandler) ([]interface{}, error) {
	id, _ := twinIDs.Load(p)
	return invGeneric(id.(string), ctx, n, a, next)
}

func mkTwins() (core.PluginHandler, core.PluginHandler) {
	a, b := &twin{"same", []string{"x"}}, &twin{"same", []string{"x"}}
	twinIDs.Store(a, "instA")
	twinIDs.Store(b, "instB")
	return a, b
}

func sharedCode(c *h.Case) {
	for variant, mk := range []func() (a, b core.PluginHandler){
		func() (core.PluginHandler, core.PluginHandler) { return &counting{"instA"}, &counting{"instB"} },
		func() (core.PluginHandler, core.PluginHandler) { return mkClosure("instA"), mkClosure("instB") },
		mkTwins,
	} {
		s := newSys()
		a, b := mk()
		s.client.Use(a, b)
		s.client.Unuse(a)
		tr, _, _, _ := s.call()
		c.R.Eval(1)
		ids, _ := splitTrace(tr)
		name := []string{"two-instances-of-one-plugin-type", "closures-of-one-literal", "two-plugin-objects-with-equal-contents"}[variant]
		if strings.Join(ids, ",") != "instB" {
			c.Violation("unuse-removes-handlers-sharing-code:"+name, fmt.Sprintf("Use(A, B); Unuse(A): the call went through %v, expected [instB]", ids), map[string]interface{}{"variant": name, "trace": tr})
		}
		s.close()
		c.R.Distinct("shared|" + name)
	}
}

// responseAndError: an inner IO handler that returns a response together with an error, and an
// inner invoke handler that returns results together with an error: the handlers outside it
// must be handed exactly that pair on the way back.
func responseAndError(c *h.Case) {
	r := c.R
	for _, side := range []string{"client", "service"} {
		for depth := 1; depth <= 3; depth++ {
			for _, level := range []string{"io", "invoke"} {
				s := newSys()
				type seen struct {
					n   int
					err string
				}
				var mu sync.Mutex
				var ioSeen, invSeen []seen
				ioOuter := func(ctx context.Context, req []byte, next core.NextIOHandler) ([]byte, error) {
					resp, err := next(ctx, req)
					mu.Lock()
					ioSeen = append(ioSeen, seen{len(resp), fmt.Sprint(err)})
					mu.Unlock()
					return resp, err
				}
				ioInner := func(ctx context.Context, req []byte, next core.NextIOHandler) ([]byte, error) {
					resp, _ := next(ctx, req)
					return resp, errors.New("flagged by the inner IO handler")
				}
				invOuter := func(ctx context.Context, n string, a []interface{}, next core.NextInvokeHandler) ([]interface{}, error) {
					res, err := next(ctx, n, a)
					mu.Lock()
					invSeen = append(invSeen, seen{len(res), fmt.Sprint(err)})
					mu.Unlock()
					return res, err
				}
				invInner := func(ctx context.Context, n string, a []interface{}, next core.NextInvokeHandler) ([]interface{}, error) {
					res, _ := next(ctx, n, a)
					return res, errors.New("flagged by the inner invoke handler")
				}
				var hs []core.PluginHandler
				for i := 0; i < depth; i++ {
					hs = append(hs, core.IOHandler(ioOuter), core.InvokeHandler(invOuter))
				}
				// one level at a time: an error at the invoke level legitimately leaves the IO level without a response
				if level == "io" {
					hs = append(hs, core.IOHandler(ioInner))
				} else {
					hs = append(hs, core.InvokeHandler(invInner))
				}
				if side == "client" {
					s.client.Use(hs...)
				} else {
					s.service.Use(hs...)
				}
				s.call()
				r.Eval(1)
				mu.Lock()
				rep := map[string]interface{}{"side": side, "outer_handlers": depth, "io_seen": fmt.Sprint(ioSeen), "invoke_seen": fmt.Sprint(invSeen)}
				if len(ioSeen) != depth || len(invSeen) != depth {
					c.Violation("handlers-not-run-once:response-with-error:"+side, fmt.Sprintf("%d outer IO and invoke handlers each: IO handlers ran %d times, invoke handlers %d times", depth, len(ioSeen), len(invSeen)), rep)
				}
				for i, x := range ioSeen {
					if level != "io" {
						break
					}
					if x.n == 0 || x.err != "flagged by the inner IO handler" {
						c.Violation("response-dropped-on-the-way-back:io:"+side, fmt.Sprintf("the inner IO handler returned a response together with an error; outer handler %d was handed %d bytes and error %q", i, x.n, x.err), rep)
						break
					}
				}
				for i, x := range invSeen {
					if level != "invoke" {
						break
					}
					if x.n == 0 || x.err != "flagged by the inner invoke handler" {
						c.Violation("results-dropped-on-the-way-back:invoke:"+side, fmt.Sprintf("the inner invoke handler returned results together with an error; outer handler %d was handed %d results and error %q", i, x.n, x.err), rep)
						break
					}
				}
				mu.Unlock()
				s.close()
				r.Distinct(fmt.Sprintf("response-and-error|%s|%d|%s", side, depth, level))
			}
		}
	}
}
