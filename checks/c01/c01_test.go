// C01 — typed round trip: Unmarshal(Marshal(v)) reproduces v for every supported value.
package c01

import (
	"fmt"
	"math/rand"
	"reflect"
	"testing"

	"verif/internal/eqv"
	"verif/internal/gen"
	"verif/internal/gentypes"
	"verif/internal/h"
	"verif/internal/iox"
)

func ifaceExtra() []interface{} {
	one := 1
	n2 := &gentypes.Node{V: 2}
	n1 := &gentypes.Node{V: 1, Next: n2}
	return []interface{}{
		&gentypes.One{A: 5}, gentypes.One{A: 6}, &gentypes.OnePtr{P: &one}, gentypes.OnePtr{P: &one}, gentypes.OneMap{M: map[string]int{"k": 1}},
		&gentypes.Scalars{B: true, I: -1, I8: -8, U64: 1 << 63, F32: 0.1, F64: 1e100, S: "s"}, gentypes.Scalars{S: "value"},
		n1, &gentypes.Tagged{X: 1, Y: "y", Z: 0, W: true, Upper: "U", Unicode: "名"}, &gentypes.Embeds{Inner: gentypes.Inner{IA: 1, IB: "b"}, InnerP: &gentypes.InnerP{PA: 2.5}, Name: "n"},
		&gentypes.Empty{}, gentypes.Empty{},
		[]*gentypes.One{{A: 1}, nil, {A: 2}}, []gentypes.One{{A: 1}}, map[string]*gentypes.One{"a": {A: 1}},
		gentypes.MyInt(5), gentypes.MyString("named"), gentypes.MyFloat32(1.5), gentypes.MyBytes("nb"), gentypes.MyIntSlice{1, 2}, gentypes.MyStrMap{"k": 2},
	}
}

type universeEntry struct {
	gen.Labeled
	block string
	max   int
}

func universe(r *h.Run) []universeEntry {
	var out []universeEntry
	for _, l := range gen.Leaves() {
		out = append(out, universeEntry{gen.Labeled{T: l, Label: l.String()}, "leaf", 0})
	}
	for _, l := range gen.Depth1() {
		out = append(out, universeEntry{l, "depth1", 48})
	}
	for _, l := range gen.MapCells() {
		out = append(out, universeEntry{l, "mapcell", 40})
	}
	for _, l := range gen.Depth2() {
		out = append(out, universeEntry{l, "depth2", r.Pick(10, 24)})
	}
	rng := rand.New(rand.NewSource(r.Seed*7919 + 13))
	n := r.Pick(1500, 30000)
	depth := r.Pick(5, 7)
	for i := 0; i < n; i++ {
		l := gen.RandomType(rng, depth)
		l.Label = fmt.Sprintf("rnd%d:%s", i, l.Label)
		out = append(out, universeEntry{l, "random", 8})
	}
	return out
}

func clipv(v reflect.Value) string {
	s := fmt.Sprintf("%#v", v.Interface())
	if len(s) > 400 {
		s = s[:400] + "…"
	}
	return s
}

func typeClass(t reflect.Type) string {
	s := t.String()
	if len(s) > 90 {
		s = s[:90]
	}
	return s
}

func TestCheck(t *testing.T) {
	r := h.Start(t, "C01")
	defer r.Finish()
	r.Meta("rule", "cases = every leaf type, every constructor applied to every leaf (depth 1) and every pair of constructors (depth 2), all 225 specialised map cells, plus seeded random deeper types; per type the systematic boundary value list (+ seeded random values) x {simple, reference} x encode entry points {Marshal, Encode, Write, Writer} x decode entry points {Unmarshal, NewDecoder, FromReader} x decoder settings where interface{} occurs. distinct_nontrivial = distinct (type, value index, mode) triples whose value is not the zero value of its type")
	r.Meta("assumptions", []string{
		"equality oracle eqv.Equal: nil==empty for slices/maps, **T->nil collapses, time by instant+UTC flag, floats by == plus NaN==NaN, big.* by Cmp, interface{} positions by denotation",
		"big.Float values restricted to values whose shortest decimal is exact (the wire carries no precision)",
		"map keys never contain NaN, pointers or nil; list.List only behind a pointer",
		"under a Long/Real setting that cannot represent a number held in an interface{} position the case is counted as undetermined, not checked",
	})
	extra := ifaceExtra()
	for _, ue := range universe(r) {
		ue := ue
		r.Case(ue.Label, func(c *h.Case) {
			g := &gen.Gen{Rng: c.Rand(), IfaceExtra: extra}
			if ue.block == "leaf" || ue.block == "depth1" {
				g.AllTimes = true
			}
			vals := g.Values(ue.T, ue.max)
			hasIface := iox.ContainsInterface(ue.T)
			r.SetAdd("blocks", ue.block)
			for j, v := range vals {
				j, v := j, v
				c.Sub(int64(j), func() { roundTrips(c, ue, j, v, hasIface) })
			}
		})
	}
}

func roundTrips(c *h.Case, ue universeEntry, j int, v reflect.Value, hasIface bool) {
	r := c.R
	rng := c.Rand()
	nontrivial := !v.IsZero()
	for _, simple := range []bool{true, false} {
		encs := []int{iox.EncMarshal, 1 + rng.Intn(iox.NEnc-1)}
		decs := []int{iox.DecUnmarshal, 1 + rng.Intn(iox.NDec-1)}
		settings := []iox.Setting{{}}
		if hasIface {
			settings = append(settings, iox.RandSetting(rng), iox.RandSetting(rng))
		}
		for ei, enc := range encs {
			data, ok := encodeOne(c, ue, j, v, simple, enc)
			if !ok {
				continue
			}
			for di, dec := range decs {
				if ei == 1 && di == 1 {
					continue
				}
				for _, s := range settings {
					decodeOne(c, ue, j, v, data, simple, enc, dec, s)
				}
			}
		}
		if nontrivial {
			r.Distinct(fmt.Sprintf("%s|%d|%v", ue.Label, j, simple))
		}
	}
	if j == 1 && c.Index%97 == 0 {
		data, _ := iox.Encode(v.Interface(), false, iox.EncMarshal)
		r.Sample(map[string]string{"type": ue.T.String(), "value": clipv(v), "reference_mode_bytes": h.Hex(clip(data, 200))})
	}
}

func clip(b []byte, n int) []byte {
	if len(b) > n {
		return b[:n]
	}
	return b
}

func iface(v reflect.Value) interface{} {
	if v.Kind() == reflect.Interface && v.IsNil() {
		return nil
	}
	return v.Interface()
}

func encodeOne(c *h.Case, ue universeEntry, j int, v reflect.Value, simple bool, enc int) (data []byte, ok bool) {
	var err error
	p, st := h.Try(func() { data, err = iox.Encode(iface(v), simple, enc) })
	c.R.Eval(1)
	rep := map[string]interface{}{"type": ue.T.String(), "label": ue.Label, "value_index": j, "value": clipv(v), "simple": simple, "enc": iox.EncName(enc)}
	if p != nil {
		c.Violation("encode-panic:"+culprit(ue.T, v)+":"+h.PanicClass(fmt.Sprint(p))+"@"+h.FirstRepoFrame(st), fmt.Sprintf("encoding panicked: %v\nvalue=%s\n%s", p, clipv(v), h.TrimStack(st)), rep)
		return nil, false
	}
	if err != nil {
		c.Violation("encode-error:"+culprit(ue.T, v), fmt.Sprintf("encoding returned error %v for value %s", err, clipv(v)), rep)
		return nil, false
	}
	return data, true
}

func decodeOne(c *h.Case, ue universeEntry, j int, v reflect.Value, data []byte, simple bool, enc, dec int, s iox.Setting) {
	ptr := reflect.New(ue.T)
	var err error
	// decode from a private copy so that a later scribble cannot be blamed on aliasing here
	in := append([]byte(nil), data...)
	p, st := h.Try(func() { err = iox.Decode(in, ptr.Interface(), simple, s, dec) })
	c.R.Eval(1)
	rep := map[string]interface{}{"type": ue.T.String(), "label": ue.Label, "value_index": j, "value": clipv(v), "simple": simple, "enc": iox.EncName(enc), "dec": iox.DecName(dec), "setting": s.String(), "bytes": h.Hex(clip(data, 600))}
	undetermined := func() bool {
		if s.IsDefault() {
			// default settings read long tokens into int: values beyond int64 held in an
			// interface{} position cannot be represented
			return !iox.SettingCanHold(eqv.DenoteValue(v), s) && iox.ContainsInterface(ue.T)
		}
		return !iox.SettingCanHold(eqv.DenoteValue(v), s)
	}
	if p != nil {
		c.Violation("decode-panic:"+culprit(ue.T, v)+":"+h.PanicClass(fmt.Sprint(p))+"@"+h.FirstRepoFrame(st), fmt.Sprintf("decoding panicked: %v\nbytes=%s\n%s", p, h.Hex(clip(data, 300)), h.TrimStack(st)), rep)
		return
	}
	if err != nil {
		if undetermined() {
			c.R.Stat("undetermined_setting_cannot_hold", 1)
			return
		}
		c.Violation("decode-error:"+culprit(ue.T, v), fmt.Sprintf("decoding own output failed: %v\nvalue=%s\nbytes=%s setting=%s", err, clipv(v), h.Hex(clip(data, 300)), s), rep)
		return
	}
	var why string
	p, st = h.Try(func() { why = eqv.Equal(v, ptr.Elem()) })
	if p != nil {
		c.Violation("compare-panic:"+culprit(ue.T, v), fmt.Sprintf("decoded value cannot be traversed (corrupt memory?): %v\n%s", p, h.TrimStack(st)), rep)
		return
	}
	if why != "" {
		if undetermined() {
			c.R.Stat("undetermined_setting_cannot_hold", 1)
			return
		}
		c.Violation("mismatch:"+culprit(ue.T, v), fmt.Sprintf("round trip changed the value at %s\nvalue=%s\ndecoded=%s\nbytes=%s setting=%s", why, clipv(v), clipv(ptr.Elem()), h.Hex(clip(data, 300)), s), rep)
	}
}

// culprit names the smallest sub-value that fails on its own (one level of shrinking per
// container kind), so that signatures are stable across seeds and container shapes.
func culprit(t reflect.Type, v reflect.Value) string {
	for depth := 0; depth < 8; depth++ {
		sub, ok := failingChild(v)
		if !ok {
			break
		}
		v = sub
	}
	if v.IsValid() {
		return typeClass(v.Type()) + valueClass(v)
	}
	return typeClass(t)
}

// failingChild returns a direct child of v that fails the default round trip by itself.
func failingChild(v reflect.Value) (reflect.Value, bool) {
	var kids []reflect.Value
	switch v.Kind() {
	case reflect.Ptr, reflect.Interface:
		if !v.IsNil() {
			kids = append(kids, v.Elem())
		}
	case reflect.Slice, reflect.Array:
		if v.Type().Elem().Kind() == reflect.Uint8 {
			return v, false
		}
		for i := 0; i < v.Len() && i < 64; i++ {
			kids = append(kids, v.Index(i))
		}
	case reflect.Map:
		it := v.MapRange()
		for n := 0; it.Next() && n < 64; n++ {
			kids = append(kids, it.Key(), it.Value())
		}
	case reflect.Struct:
		if v.Type().PkgPath() == "time" || v.Type().PkgPath() == "math/big" || v.Type().PkgPath() == "container/list" || v.Type().PkgPath() == "github.com/google/uuid" {
			return v, false
		}
		for i := 0; i < v.NumField(); i++ {
			if v.Type().Field(i).PkgPath == "" {
				kids = append(kids, v.Field(i))
			}
		}
	}
	for _, k := range kids {
		if !k.CanInterface() {
			continue
		}
		if fails(k) {
			return k, true
		}
	}
	return v, false
}

func fails(v reflect.Value) (bad bool) {
	if v.Kind() == reflect.Interface && v.IsNil() {
		return false
	}
	defer func() {
		if recover() != nil {
			bad = true
		}
	}()
	for _, simple := range []bool{true, false} {
		data, err := iox.Encode(v.Interface(), simple, iox.EncMarshal)
		if err != nil {
			return true
		}
		ptr := reflect.New(v.Type())
		if err := iox.Decode(data, ptr.Interface(), simple, iox.Setting{}, iox.DecUnmarshal); err != nil {
			return true
		}
		if eqv.Equal(v, ptr.Elem()) != "" {
			return true
		}
	}
	return false
}

// valueClass adds a coarse class of the failing value for kinds where the class matters.
func valueClass(v reflect.Value) string {
	switch v.Kind() {
	case reflect.Complex64, reflect.Complex128:
		if imag(v.Complex()) != 0 {
			return "{imag!=0}"
		}
	case reflect.String:
		if len(v.String()) == 0 {
			return "{empty}"
		}
		if !eqv.ValidHproseUTF8(v.String()) {
			return "{invalid-utf8}"
		}
		n := 0
		for range v.String() {
			n++
		}
		if n == 1 {
			return "{1-char}"
		}
	case reflect.Struct:
		if tm, ok := v.Interface().(interface{ Year() int }); ok {
			y := tm.Year()
			if y < 0 || y > 9999 {
				return "{year-outside-0..9999}"
			}
			if y == 0 {
				return "{year-0}"
			}
		}
	}
	return ""
}
