// C01 — typed round trip: Unmarshal(Marshal(v)) reproduces v for every supported value.
package c01

import (
	"fmt"
	"math/big"
	"reflect"
	"testing"

	hio "github.com/hprose/hprose-golang/v3/io"
	"verif/internal/corpus"
	"verif/internal/eqv"
	"verif/internal/gen"
	"verif/internal/gentypes"
	"verif/internal/h"
	"verif/internal/iox"
)

type universeEntry = corpus.Entry

func clipv(v reflect.Value) string {
	s := fmt.Sprintf("%#v", v.Interface())
	if len(s) > 400 {
		s = s[:400] + "…"
	}
	return s
}

func typeClass(t reflect.Type) string {
	s := t.String()
	if len(s) > 90 {
		s = s[:90]
	}
	return s
}

func TestCheck(t *testing.T) {
	r := h.Start(t, "C01")
	defer r.Finish()
	r.Meta("rule", "cases = every leaf type, every constructor applied to every leaf (depth 1) and every pair of constructors (depth 2), all 225 specialised map cells, plus seeded random deeper types; per type the systematic boundary value list (+ seeded random values) x {simple, reference} x encode entry points {Marshal, Encode, Write, Writer} x decode entry points {Unmarshal, NewDecoder, FromReader} x decoder settings where interface{} occurs. distinct_nontrivial = distinct (type, value index, mode) triples whose value is not the zero value of its type Added: values made of more than 10 000 containers in total (wide), strings with a continuation byte at a character start, 5/6-byte leads and overlong forms.")
	r.Meta("assumptions", []string{
		"equality oracle eqv.Equal: nil==empty for slices/maps, **T->nil collapses, time by instant+UTC flag, floats by == plus NaN==NaN, big.* by Cmp, interface{} positions by denotation",
		"big.Float values restricted to values whose shortest decimal is exact (the wire carries no precision)",
		"map keys never contain NaN, pointers or nil; list.List only behind a pointer",
		"under a Long/Real setting that cannot represent a number held in an interface{} position the case is counted as undetermined, not checked",
	})
	for k, v := range manyContainers() {
		k, v := k, v
		r.Case(fmt.Sprintf("many-containers/%d/%s", k, v.Type()), func(c *h.Case) { manyCase(c, k, v) })
	}
	// big floats with five-digit decimal exponents (the largest the decoder accepts), positive
	// and negative, in the positions a big.Float can take
	r.Case("big-float-five-digit-exponents", func(c *h.Case) {
		mk := func(s string) *big.Float { f, _, _ := big.ParseFloat(s, 10, 64, big.ToNearestEven); return f }
		j := 0
		for _, s := range []string{"1.5e10000", "-2.25e-10001"} {
			f := mk(s)
			for _, v := range []interface{}{f, *f, []*big.Float{f, f}, &gentypes.Libs{BF: f}} {
				rv := reflect.ValueOf(v)
				ue := universeEntry{Labeled: gen.Labeled{T: rv.Type(), Label: "bigexp:" + rv.Type().String()}, Block: "leaf"}
				roundTrips(c, ue, j, rv, iox.ContainsInterface(rv.Type()))
				j++
			}
		}
	})
	for _, ue := range corpus.Universe(r.Seed, r.Pick(10, 24), r.Pick(1500, 30000), r.Pick(5, 7)) {
		ue := ue
		r.Case(ue.Label, func(c *h.Case) {
			vals := corpus.Values(ue, c.Rand())
			hasIface := iox.ContainsInterface(ue.T)
			r.SetAdd("blocks", ue.Block)
			for j, v := range vals {
				j, v := j, v
				c.Sub(int64(j), func() { roundTrips(c, ue, j, v, hasIface) })
			}
		})
	}
}

// manyContainers: values made of more than 10 000 lists, maps or objects in total (wide, not
// deep): whatever the decoder counts per container must be given back when the container ends.
func manyContainers() []reflect.Value {
	const n = 10500
	var out []reflect.Value
	arrs := make([][3]int, n)
	pos := make([]struct{ Pos [3]float32 }, n)
	marr := map[int][2]int16{}
	inner := make([][]int, n)
	maps := make([]map[string]int, n)
	objs := make([]*gentypes.One, n)
	vals := make([]gentypes.One, n)
	ifs := make([]interface{}, n)
	mm := map[int]map[int]int{}
	parr := make([]*[2]string, n)
	for i := 0; i < n; i++ {
		arrs[i] = [3]int{i, -i, 1}
		pos[i].Pos = [3]float32{float32(i), 0.5, -1}
		marr[i] = [2]int16{int16(i), 1}
		inner[i] = []int{i}
		maps[i] = map[string]int{"k": i}
		objs[i] = &gentypes.One{A: i}
		vals[i] = gentypes.One{A: -i}
		switch i % 4 {
		case 0:
			ifs[i] = []interface{}{i}
		case 1:
			ifs[i] = map[string]interface{}{"k": i}
		case 2:
			ifs[i] = &gentypes.One{A: i}
		default:
			ifs[i] = [2]int{i, i}
		}
		mm[i] = map[int]int{i: i}
		parr[i] = &[2]string{"a", "b"}
	}
	for _, x := range []interface{}{arrs, pos, marr, inner, maps, objs, vals, ifs, mm, parr} {
		out = append(out, reflect.ValueOf(x))
	}
	return out
}

func manyCase(c *h.Case, k int, v reflect.Value) {
	r := c.R
	for _, simple := range []bool{true, false} {
		for enc := 0; enc < iox.NEnc; enc += 2 {
			var data []byte
			var err error
			p, st := h.Try(func() { data, err = iox.Encode(v.Interface(), simple, enc) })
			r.Eval(1)
			rep := map[string]interface{}{"type": v.Type().String(), "elements": v.Len(), "simple": simple}
			if p != nil || err != nil {
				c.Violation("many-containers-encode:"+v.Type().String(), fmt.Sprintf("panic=%v err=%v\n%s", p, err, h.TrimStack(st)), rep)
				return
			}
			for dec := 0; dec < iox.NDec; dec++ {
				dst := reflect.New(v.Type())
				p, st = h.Try(func() { err = iox.Decode(append([]byte(nil), data...), dst.Interface(), simple, iox.Setting{}, dec) })
				r.Eval(1)
				if p != nil {
					c.Violation("many-containers-decode-panic:"+v.Type().String(), fmt.Sprintf("%v\n%s", p, h.TrimStack(st)), rep)
					continue
				}
				if err != nil && !iox.EOFOK(err) {
					c.Violation("many-containers-decode-error:"+v.Type().String(), fmt.Sprintf("%s of a value with %d containers: %v", iox.DecName(dec), v.Len(), err), rep)
					continue
				}
				if iox.ContainsInterface(v.Type()) {
					if why := eqv.DEqual(eqv.Denote(v.Interface()), eqv.DenoteValue(dst.Elem())); why != "" {
						c.Violation("many-containers-mismatch:"+v.Type().String(), why, rep)
					}
				} else if why := eqv.Equal(v, dst.Elem()); why != "" {
					c.Violation("many-containers-mismatch:"+v.Type().String(), why, rep)
				}
			}
		}
	}
	r.Distinct(fmt.Sprintf("many|%d", k))
}

func roundTrips(c *h.Case, ue universeEntry, j int, v reflect.Value, hasIface bool) {
	r := c.R
	rng := c.Rand()
	nontrivial := !v.IsZero()
	for _, simple := range []bool{true, false} {
		encs := []int{iox.EncMarshal, 1 + rng.Intn(iox.NEnc-1)}
		decs := []int{iox.DecUnmarshal, 1 + rng.Intn(iox.NDec-1)}
		settings := []iox.Setting{{}}
		if hasIface {
			settings = append(settings, iox.RandSetting(rng), iox.RandSetting(rng), iox.Setting{Struct: hio.StructTypeValue, List: hio.ListTypeSlice})
		}
		for ei, enc := range encs {
			data, ok := encodeOne(c, ue, j, v, simple, enc)
			if !ok {
				continue
			}
			for di, dec := range decs {
				if ei == 1 && di == 1 {
					continue
				}
				for _, s := range settings {
					decodeOne(c, ue, j, v, data, simple, enc, dec, s)
				}
			}
		}
		if nontrivial {
			r.Distinct(fmt.Sprintf("%s|%d|%v", ue.Label, j, simple))
		}
	}
	if j == 1 && c.Index%97 == 0 {
		data, _ := iox.Encode(v.Interface(), false, iox.EncMarshal)
		r.Sample(map[string]string{"type": ue.T.String(), "value": clipv(v), "reference_mode_bytes": h.Hex(clip(data, 200))})
	}
}

func clip(b []byte, n int) []byte {
	if len(b) > n {
		return b[:n]
	}
	return b
}

func iface(v reflect.Value) interface{} {
	if v.Kind() == reflect.Interface && v.IsNil() {
		return nil
	}
	return v.Interface()
}

func encodeOne(c *h.Case, ue universeEntry, j int, v reflect.Value, simple bool, enc int) (data []byte, ok bool) {
	var err error
	p, st := h.Try(func() { data, err = iox.Encode(iface(v), simple, enc) })
	c.R.Eval(1)
	rep := map[string]interface{}{"type": ue.T.String(), "label": ue.Label, "value_index": j, "value": clipv(v), "simple": simple, "enc": iox.EncName(enc)}
	if p != nil {
		c.Violation("encode-panic:"+culprit(ue.T, v)+":"+h.PanicClass(fmt.Sprint(p))+"@"+h.FirstRepoFrame(st), fmt.Sprintf("encoding panicked: %v\nvalue=%s\n%s", p, clipv(v), h.TrimStack(st)), rep)
		return nil, false
	}
	if err != nil {
		c.Violation("encode-error:"+h.PanicClass(err.Error()), fmt.Sprintf("encoding returned error %v for value %s", err, clipv(v)), rep)
		return nil, false
	}
	return data, true
}

func decodeOne(c *h.Case, ue universeEntry, j int, v reflect.Value, data []byte, simple bool, enc, dec int, s iox.Setting) {
	ptr := reflect.New(ue.T)
	var err error
	// decode from a private copy so that a later scribble cannot be blamed on aliasing here
	in := append([]byte(nil), data...)
	p, st := h.Try(func() { err = iox.Decode(in, ptr.Interface(), simple, s, dec) })
	c.R.Eval(1)
	rep := map[string]interface{}{"type": ue.T.String(), "label": ue.Label, "value_index": j, "value": clipv(v), "simple": simple, "enc": iox.EncName(enc), "dec": iox.DecName(dec), "setting": s.String(), "bytes": h.Hex(clip(data, 600))}
	undetermined := func() bool {
		if s.IsDefault() {
			// default settings read long tokens into int: values beyond int64 held in an
			// interface{} position cannot be represented
			return !iox.SettingCanHold(eqv.DenoteValue(v), s) && iox.ContainsInterface(ue.T)
		}
		return !iox.SettingCanHold(eqv.DenoteValue(v), s)
	}
	if p != nil {
		c.Violation("decode-panic:"+culprit(ue.T, v)+":"+h.PanicClass(fmt.Sprint(p))+"@"+h.FirstRepoFrame(st), fmt.Sprintf("decoding panicked: %v\nbytes=%s\n%s", p, h.Hex(clip(data, 300)), h.TrimStack(st)), rep)
		return
	}
	if err != nil {
		if undetermined() {
			c.R.Stat("undetermined_setting_cannot_hold", 1)
			return
		}
		c.Violation("decode-error:"+culprit(ue.T, v), fmt.Sprintf("decoding own output failed: %v\nvalue=%s\nbytes=%s setting=%s", err, clipv(v), h.Hex(clip(data, 300)), s), rep)
		return
	}
	var why string
	p, st = h.Try(func() { why = eqv.Equal(v, ptr.Elem()) })
	if p != nil {
		c.Violation("compare-panic:"+culprit(ue.T, v), fmt.Sprintf("decoded value cannot be traversed (corrupt memory?): %v\n%s", p, h.TrimStack(st)), rep)
		return
	}
	if why != "" {
		if undetermined() {
			c.R.Stat("undetermined_setting_cannot_hold", 1)
			return
		}
		c.Violation("mismatch:"+culprit(ue.T, v), fmt.Sprintf("round trip changed the value at %s\nvalue=%s\ndecoded=%s\nbytes=%s setting=%s", why, clipv(v), clipv(ptr.Elem()), h.Hex(clip(data, 300)), s), rep)
	}
}

// culprit names the smallest sub-value that fails on its own (one level of shrinking per
// container kind), so that signatures are stable across seeds and container shapes.
func culprit(t reflect.Type, v reflect.Value) string {
	for depth := 0; depth < 40; depth++ {
		sub, ok := failingChild(v)
		if !ok {
			break
		}
		v = sub
	}
	if v.IsValid() {
		return typeClass(v.Type()) + valueClass(v)
	}
	return typeClass(t)
}

// failingChild returns a direct child of v that fails the default round trip by itself.
func failingChild(v reflect.Value) (reflect.Value, bool) {
	var kids []reflect.Value
	switch v.Kind() {
	case reflect.Ptr, reflect.Interface:
		if !v.IsNil() {
			kids = append(kids, v.Elem())
		}
	case reflect.Slice, reflect.Array:
		if v.Type().Elem().Kind() == reflect.Uint8 {
			return v, false
		}
		for i := 0; i < v.Len() && i < 64; i++ {
			kids = append(kids, v.Index(i))
		}
	case reflect.Map:
		it := v.MapRange()
		for n := 0; it.Next() && n < 64; n++ {
			kids = append(kids, it.Key(), it.Value())
		}
	case reflect.Struct:
		if v.Type().PkgPath() == "time" || v.Type().PkgPath() == "math/big" || v.Type().PkgPath() == "container/list" || v.Type().PkgPath() == "github.com/google/uuid" {
			return v, false
		}
		for i := 0; i < v.NumField(); i++ {
			if v.Type().Field(i).PkgPath == "" {
				kids = append(kids, v.Field(i))
			}
		}
	}
	for _, k := range kids {
		if !k.CanInterface() {
			continue
		}
		if fails(k) {
			return k, true
		}
	}
	return v, false
}

func fails(v reflect.Value) (bad bool) {
	if v.Kind() == reflect.Interface && v.IsNil() {
		return false
	}
	defer func() {
		if recover() != nil {
			bad = true
		}
	}()
	for _, simple := range []bool{true, false} {
		data, err := iox.Encode(v.Interface(), simple, iox.EncMarshal)
		if err != nil {
			return true
		}
		ptr := reflect.New(v.Type())
		if err := iox.Decode(data, ptr.Interface(), simple, iox.Setting{}, iox.DecUnmarshal); err != nil {
			return true
		}
		if eqv.Equal(v, ptr.Elem()) != "" {
			return true
		}
	}
	return false
}

// valueClass adds a coarse class of the failing value for kinds where the class matters.
func valueClass(v reflect.Value) string {
	switch v.Kind() {
	case reflect.Complex64, reflect.Complex128:
		if imag(v.Complex()) != 0 {
			return "{imag!=0}"
		}
	case reflect.String:
		if len(v.String()) == 0 {
			return "{empty}"
		}
		if !eqv.ValidHproseUTF8(v.String()) {
			return "{invalid-utf8}"
		}
		n := 0
		for range v.String() {
			n++
		}
		if n == 1 {
			return "{1-char}"
		}
	case reflect.Struct:
		if tm, ok := v.Interface().(interface{ Year() int }); ok {
			y := tm.Year()
			if y < 0 || y > 9999 {
				return "{year-outside-0..9999}"
			}
			if y == 0 {
				return "{year-0}"
			}
		}
	}
	return ""
}
