// C07 — RPC codec round trip: the service decodes what the client encoded, and back.
package c07

import (
	"math"
	"context"
	"errors"
	"fmt"
	"math/big"
	"math/rand"
	"reflect"
	"strings"
	"testing"
	"time"

	"github.com/google/uuid"
	hio "github.com/hprose/hprose-golang/v3/io"
	"github.com/hprose/hprose-golang/v3/rpc/codec/jsonrpc"
	"github.com/hprose/hprose-golang/v3/rpc/core"
	"verif/internal/eqv"
	"verif/internal/gen"
	"verif/internal/gentypes"
	"verif/internal/h"
	"verif/internal/hpref"
	"verif/internal/iox"
)

// lib is the signature library: the functions are never called here, only their parameter
// types matter to the service codec.
type lib struct{}

func (lib) NoArgs()                                                                               {}
func (lib) OneInt(a int) int                                                                      { return a }
func (lib) TwoInts(a, b int) int                                                                  { return a + b }
func (lib) Ints(a int8, b int16, c int32, d int64, e uint, f uint8, g uint16, h uint32, i uint64) {}
func (lib) Floats(a float32, b float64, c complex64, d complex128)                                {}
func (lib) Str(s string) string                                                                   { return s }
func (lib) Strs(a, b, c string) string                                                            { return a }
func (lib) Bytes(b []byte) []byte                                                                 { return b }
func (lib) Bool(b bool) bool                                                                      { return b }
func (lib) Time(t time.Time, u uuid.UUID) time.Time                                               { return t }
func (lib) Bigs(a *big.Int, b *big.Float, c *big.Rat)                                             {}
func (lib) Slices(a []int, b []string, c [][]byte, d []interface{}, e []float64)                  {}
func (lib) Arrays(a [3]int, b [4]byte)                                                            {}
func (lib) Maps(a map[string]int, b map[int]string, c map[string]interface{}, d map[interface{}]interface{}) {
}
func (lib) Struct(a gentypes.Scalars) gentypes.Scalars               { return a }
func (lib) StructPtr(a *gentypes.Tree, b *gentypes.One)              {}
func (lib) Ptrs(a *int, b *string, c **int)                          {}
func (lib) Any(a interface{}) interface{}                            { return a }
func (lib) Anys(a, b interface{}, c []interface{})                   {}
func (lib) Variadic(prefix string, xs ...int) int                    { return len(xs) }
func (lib) VariadicAny(xs ...interface{}) int                        { return len(xs) }
func (lib) VariadicStr(n int, ss ...string) int                      { return len(ss) }
func (lib) Ctx(ctx context.Context, s string, n int) (string, error) { return s, nil }
func (lib) Named(a gentypes.MyInt, b gentypes.MyString, c gentypes.MyFloat64, d gentypes.MyIntSlice, e gentypes.MyStrMap) {
}
func (lib) Mixed(s string, t *gentypes.Tree, m map[string]interface{}, n int, again string) {}
func (lib) Libs(l gentypes.Libs, s gentypes.Slices, m gentypes.Maps)                        {}
func (lib) AnonStruct(a struct {
	A int
	B string
}) {
}

var svc *core.Service
var methods []string

func initSvc() {
	svc = core.NewService()
	svc.AddInstanceMethods(lib{})
	t := reflect.TypeOf(lib{})
	for i := 0; i < t.NumMethod(); i++ {
		methods = append(methods, t.Method(i).Name)
	}
	// names that are not plain ASCII identifiers
	svc.AddFunction(func(s string) string { return s }, "你好")
	svc.AddFunction(func(s string) string { return s }, "ns_sub.method_1")
	svc.AddFunction(func(s string) string { return s }, "x")
	svc.AddFunction(func(s string) string { return s }, "привет")
	svc.AddFunction(func(s string) string { return s }, "Ünal_Ωmega")
	svc.AddFunction(func(s string) string { return s }, "éCOLE2")
	methods = append(methods, "你好", "ns_sub.method_1", "x", "привет", "Ünal_Ωmega", "éCOLE2")
	svc.AddMissingMethod(func(name string, args []interface{}) ([]interface{}, error) { return args, nil })
}

func spell(rng *rand.Rand, name string) string {
	switch rng.Intn(4) {
	case 0:
		return strings.ToLower(name)
	case 1:
		return strings.ToUpper(name)
	case 2:
		var sb strings.Builder
		for _, r := range name {
			if rng.Intn(2) == 0 {
				sb.WriteString(strings.ToUpper(string(r)))
			} else {
				sb.WriteString(strings.ToLower(string(r)))
			}
		}
		return sb.String()
	}
	return name
}

type opts struct {
	clientSimple, serviceSimple bool
	set                         iox.Setting
	debug                       bool
}

func (o opts) String() string {
	return fmt.Sprintf("cs=%v ss=%v %s dbg=%v", o.clientSimple, o.serviceSimple, o.set, o.debug)
}

func (o opts) client() core.ClientCodec {
	return core.NewClientCodec(core.WithSimple(o.clientSimple), core.WithLongType(o.set.Long), core.WithRealType(o.set.Real), core.WithMapType(o.set.Map), core.WithStructType(o.set.Struct), core.WithListType(o.set.List))
}

func (o opts) service() core.ServiceCodec {
	return core.NewServiceCodec(core.WithSimple(o.serviceSimple), core.WithDebug(o.debug), core.WithLongType(o.set.Long), core.WithRealType(o.set.Real), core.WithMapType(o.set.Map), core.WithStructType(o.set.Struct), core.WithListType(o.set.List))
}

func headerValues(rng *rand.Rand) map[string]interface{} {
	// (struct values of the types that also occur as arguments: header section and argument list share class definitions or must not)
	pool := []interface{}{1, -5, 1.5, true, "shared-arg", "v", "", "中文", []interface{}{1, "two"}, map[string]interface{}{"k": "shared-arg"}, nil, int64(1) << 40, []byte("hb"),
		&gentypes.One{A: 3}, &gentypes.Tree{Name: "header-tree"}, &gentypes.Scalars{I: 4, S: "in-header"}, []interface{}{&gentypes.One{A: 5}, &gentypes.Tree{Name: "t2"}}}
	m := map[string]interface{}{}
	for i := rng.Intn(5); i > 0; i-- {
		m[[]string{"a", "key", "shared-arg", "ключ", "x-y_z", "Simple2"}[rng.Intn(6)]] = pool[rng.Intn(len(pool))]
	}
	return m
}

func TestCheck(t *testing.T) {
	r := h.Start(t, "C07")
	defer r.Finish()
	initSvc()
	r.Meta("rule", "requests: every method of a library of 30 signatures (all parameter kinds incl. variadic, context-taking, named types, structs, pointers, maps, interface{}) x name spellings (lower/upper/mixed case, non-ASCII, dotted) x seeded argument lists from the C01 generator for the parameter types (exact count, fewer, more, variadic tails 0/1/many, the same string/pointer repeated across arguments and headers, arguments of convertible other types) x header maps x all 4 WithSimple combinations x decoder settings; decoded by the real service codec and compared: method, headers, argument count, argument types = parameter types, argument values. responses: none/one/several results, error, panic error x return-type lists x options, decoded by the real client codec. Both directions are also read by the independent reader (envelope H..C..z / H..R..z with its three reference scopes). The JSON-RPC codec pair on JSON-representable values, and its fall-back to the default codec. distinct_nontrivial = distinct (method, argument shape, option combination) with at least one argument or result")
	r.Meta("assumptions", []string{
		"arguments of exactly the parameter type must come back eqv.Equal; arguments of another convertible type must denote the same value (loose numeric comparison)",
		"under decoder settings, interface{} parameters are compared by denotation where the setting can hold the value (as in C01)",
		"the reserved header 'simple' is excluded from header comparison",
	})
	for mi, m := range methods {
		reps := r.Pick(400, 4000)
		for k := 0; k < reps; k++ {
			mi, m, k := mi, m, k
			r.Case(fmt.Sprintf("req/%s/%d", m, k), func(c *h.Case) { requestCase(c, mi, m, k) })
		}
	}
	nmiss := r.Pick(1500, 20000)
	for k := 0; k < nmiss; k++ {
		k := k
		r.Case(fmt.Sprintf("missing/%d", k), func(c *h.Case) { missingCase(c, k) })
	}
	nresp := r.Pick(10000, 100000)
	for k := 0; k < nresp; k++ {
		k := k
		r.Case(fmt.Sprintf("resp/%d", k), func(c *h.Case) { responseCase(c, k) })
	}
	njson := r.Pick(3000, 30000)
	for k := 0; k < njson; k++ {
		k := k
		r.Case(fmt.Sprintf("jsonrpc/%d", k), func(c *h.Case) { jsonCase(c, k) })
	}
}

var tCtx = reflect.TypeOf((*context.Context)(nil)).Elem()

func genArg(g *gen.Gen, t reflect.Type, rng *rand.Rand) reflect.Value {
	v := g.Pick(t, 3)
	return v
}

// convertible returns a value of another type that converts losslessly to t, if the kind allows.
func convertible(rng *rand.Rand, t reflect.Type) (interface{}, bool) {
	switch t.Kind() {
	case reflect.Int, reflect.Int64, reflect.Uint64, reflect.Uint:
		return []interface{}{int8(7), uint16(300), int32(-5) * int32(boolToInt(t.Kind() == reflect.Int || t.Kind() == reflect.Int64)), "123", 12.0}[rng.Intn(5)], true
	case reflect.Float64:
		return []interface{}{3, float32(1.5), "2.5", int64(1 << 40)}[rng.Intn(4)], true
	case reflect.String:
		return []interface{}{5, []byte("bytes-as-string"), 'x'}[rng.Intn(2)], true
	case reflect.Slice:
		if t.Elem().Kind() == reflect.Int {
			return []interface{}{[]int8{1, 2}, []interface{}{1, 2, 3}, [2]int{4, 5}}[rng.Intn(3)], true
		}
	}
	return nil, false
}

func boolToInt(b bool) int {
	if b {
		return 1
	}
	return 0
}

func requestCase(c *h.Case, mi int, m string, k int) {
	r := c.R
	rng := c.Rand()
	method := svc.Get(m)
	if method == nil {
		c.Violation("method-not-registered:"+m, "library method not found in the service", nil)
		return
	}
	params := method.Parameters()
	variadic := method.Func().Type().IsVariadic()
	g := &gen.Gen{Rng: rng}
	o := opts{clientSimple: k&1 == 1, serviceSimple: k&2 == 2}
	if k%5 == 4 {
		o.set = iox.RandSetting(rng)
	}
	// argument list
	n := len(params)
	shape := "exact"
	if variadic {
		switch k % 4 {
		case 0:
			n = len(params) - 1
			shape = "variadic-0"
		case 1:
			shape = "variadic-1"
		default:
			n = len(params) + 1 + rng.Intn(5)
			shape = "variadic-many"
		}
	} else if len(params) > 0 && k%7 == 5 {
		n = rng.Intn(len(params))
		shape = "fewer"
	} else if k%7 == 6 {
		n = len(params) + 1 + rng.Intn(2)
		shape = "more"
	}
	ptype := func(i int) reflect.Type {
		if variadic && i >= len(params)-1 {
			return params[len(params)-1].Elem()
		}
		if i < len(params) {
			return params[i]
		}
		return nil
	}
	args := make([]interface{}, n)
	exact := make([]bool, n)
	sharedStr := "shared-arg"
	sharedTree := &gentypes.Tree{Name: "shared-tree"}
	for i := 0; i < n; i++ {
		pt := ptype(i)
		switch {
		case pt == nil:
			args[i] = []interface{}{1, "extra", nil}[rng.Intn(3)]
		case pt.Kind() == reflect.String && rng.Intn(3) == 0:
			args[i] = reflect.ValueOf(sharedStr).Convert(pt).Interface()
			exact[i] = true
		case pt == reflect.TypeOf((*gentypes.Tree)(nil)) && rng.Intn(2) == 0:
			args[i] = sharedTree
			exact[i] = true
		case pt.Kind() == reflect.Interface && rng.Intn(3) == 0:
			args[i] = []interface{}{sharedStr, sharedTree, []interface{}{sharedStr, sharedTree}}[rng.Intn(3)]
			exact[i] = true
		case rng.Intn(6) == 0:
			if v, ok := convertible(rng, pt); ok {
				args[i] = v
				break
			}
			fallthrough
		default:
			v := genArg(g, pt, rng)
			if v.Kind() == reflect.Interface && v.IsNil() {
				args[i] = nil
			} else {
				args[i] = v.Interface()
			}
			exact[i] = true
		}
	}
	hdr := headerValues(rng)
	cctx := core.NewClientContext()
	for hk, hv := range hdr {
		cctx.RequestHeaders().Set(hk, hv)
	}
	name := spell(rng, m)
	rep := map[string]interface{}{"method": m, "name": name, "shape": shape, "opts": o.String(), "args": fmt.Sprintf("%#v", args), "headers": fmt.Sprintf("%#v", hdr)}
	var req []byte
	var err error
	p, st := h.Try(func() { req, err = o.client().Encode(name, args, cctx) })
	r.Eval(1)
	if p != nil {
		c.Violation("client-encode-panic:"+h.PanicClass(fmt.Sprint(p))+"@"+h.FirstRepoFrame(st), fmt.Sprintf("%v\n%s", p, h.TrimStack(st)), rep)
		return
	}
	if err != nil {
		if strings.Contains(err.Error(), "year outside") {
			return
		}
		c.Violation("client-encode-error", err.Error(), rep)
		return
	}
	rep["request"] = h.Hex(clip(req, 1500))
	// independent reading of the envelope
	if why := readEnvelope(req, 'C', name, args, hdr, o.clientSimple); why != "" {
		c.Violation("request-envelope:"+classOf(why), fmt.Sprintf("independent reader: %s\nrequest=%s", why, h.Hex(clip(req, 800))), rep)
	}
	sctx := core.NewServiceContext(svc)
	var gotName string
	var gotArgs []interface{}
	p, st = h.Try(func() { gotName, gotArgs, err = o.service().Decode(append([]byte(nil), req...), sctx) })
	r.Eval(1)
	if p != nil {
		c.Violation("service-decode-panic:"+shape+":"+h.PanicClass(fmt.Sprint(p))+"@"+h.FirstRepoFrame(st), fmt.Sprintf("%v\nrequest=%s\n%s", p, h.Hex(clip(req, 600)), h.TrimStack(st)), rep)
		return
	}
	if err != nil {
		if hasInexact(exact) || !canHold(args, o.set) {
			r.Stat("undetermined_conversion_error", 1)
			return
		}
		c.Violation("service-decode-error:"+shape, fmt.Sprintf("%v\nrequest=%s", err, h.Hex(clip(req, 800))), rep)
		return
	}
	if gotName != name {
		c.Violation("method-name-changed", fmt.Sprintf("sent %q, service codec decoded %q", name, gotName), rep)
	}
	if sctx.Method == nil || sctx.Method.Name() != method.Name() {
		c.Violation("wrong-method", fmt.Sprintf("name %q resolved to %v, expected %s", name, sctx.Method, method.Name()), rep)
	}
	// headers
	got := sctx.RequestHeaders().ToMap()
	delete(got, "simple")
	want := map[string]interface{}{}
	for hk, hv := range hdr {
		want[hk] = hv
	}
	if why := eqv.DEqual(eqv.Denote(want), eqv.Denote(got)); why != "" {
		c.Violation("headers-differ", fmt.Sprintf("%s\nsent=%#v\ngot =%#v", why, want, got), rep)
	}
	if len(gotArgs) != n {
		c.Violation("argument-count:"+shape, fmt.Sprintf("sent %d arguments, service codec decoded %d", n, len(gotArgs)), rep)
		return
	}
	seenPtr := map[uintptr]bool{}
	for hv := range hdr {
		_ = hv
	}
	for i := range gotArgs {
		pt := ptype(i)
		if pt != nil && pt.Kind() != reflect.Interface {
			if gotArgs[i] == nil || reflect.TypeOf(gotArgs[i]) != pt {
				c.Violation("argument-type:"+shape, fmt.Sprintf("argument %d: parameter type %s, decoded %T", i, pt, gotArgs[i]), rep)
				continue
			}
		}
		if pt == nil || pt.Kind() == reflect.Interface {
			if why := structShape(seenPtr, args[i], gotArgs[i], o.set.Struct); why != "" {
				c.Violation("struct-type-option-ignored:"+shape, fmt.Sprintf("argument %d: %s (service codec option StructType=%d)", i, why, o.set.Struct), rep)
			}
		}
		if args[i] != nil && iox.ContainsInterface(reflect.TypeOf(args[i])) && !iox.SettingCanHold(eqv.Denote(args[i]), o.set) {
			r.Stat("undetermined_setting", 1)
			continue
		}
		if exact[i] && pt != nil && pt.Kind() != reflect.Interface {
			if why := eqv.Equal(reflect.ValueOf(args[i]), reflect.ValueOf(gotArgs[i])); why != "" {
				c.Violation("argument-value:"+tname(pt), fmt.Sprintf("argument %d (%s) changed at %s\nsent=%#v\ngot =%#v\nrequest=%s", i, pt, why, args[i], gotArgs[i], h.Hex(clip(req, 600))), rep)
			}
			continue
		}
		ds, dg := eqv.Denote(args[i]), eqv.Denote(gotArgs[i])
		if !iox.SettingCanHold(ds, o.set) {
			r.Stat("undetermined_setting", 1)
			continue
		}
		var why string
		if exact[i] {
			why = eqv.DEqual(ds, dg)
		} else {
			why = looseEqual(ds, dg)
		}
		if why != "" {
			c.Violation("argument-denotation:"+tname(pt), fmt.Sprintf("argument %d (parameter %v) denotes another value: %s\nsent=%#v\ngot =%#v\nrequest=%s", i, pt, why, args[i], gotArgs[i], h.Hex(clip(req, 600))), rep)
		}
	}
	if n > 0 {
		r.Distinct(fmt.Sprintf("req|%s|%s|%s|%d", m, shape, o.String(), k%16))
	}
	if k == 3 {
		r.Sample(map[string]interface{}{"method": m, "name_sent": name, "args": fmt.Sprintf("%#v", args), "headers": fmt.Sprintf("%#v", hdr), "request": h.Hex(clip(req, 300)), "options": o.String()})
	}
}

// missingCase: an unpublished name is routed to the missing-method handler with all arguments
// decoded as interface{} values.
func missingCase(c *h.Case, k int) {
	r := c.R
	rng := c.Rand()
	o := opts{clientSimple: k&1 == 1, serviceSimple: k&2 == 2}
	if k%5 == 4 {
		o.set = iox.RandSetting(rng)
	}
	shared := "shared-arg"
	tree := &gentypes.Tree{Name: shared}
	pool := []interface{}{shared, shared, "other string", tree, tree, 1, 2.5, nil, true, []byte("bytes"), []interface{}{shared, tree}, map[string]interface{}{"k": shared}, &gentypes.One{A: 3}, "x", ""}
	n := rng.Intn(7)
	args := make([]interface{}, n)
	for i := range args {
		args[i] = pool[rng.Intn(len(pool))]
	}
	name := []string{"unpublished", "NoSuchMethod", "нет_такого", "a.b.c", "y"}[rng.Intn(5)]
	cctx := core.NewClientContext()
	hdr := headerValues(rng)
	for hk, hv := range hdr {
		cctx.RequestHeaders().Set(hk, hv)
	}
	rep := map[string]interface{}{"name": name, "args": fmt.Sprintf("%#v", args), "opts": o.String()}
	req, err := o.client().Encode(name, args, cctx)
	if err != nil {
		return
	}
	rep["request"] = h.Hex(clip(req, 1200))
	sctx := core.NewServiceContext(svc)
	var gotName string
	var gotArgs []interface{}
	p, st := h.Try(func() { gotName, gotArgs, err = o.service().Decode(append([]byte(nil), req...), sctx) })
	r.Eval(1)
	if p != nil {
		c.Violation("service-decode-panic:missing:"+h.PanicClass(fmt.Sprint(p))+"@"+h.FirstRepoFrame(st), fmt.Sprintf("%v\n%s", p, h.TrimStack(st)), rep)
		return
	}
	if err != nil {
		if !canHold(args, o.set) {
			return
		}
		c.Violation("service-decode-error:missing", fmt.Sprintf("%v\nrequest=%s", err, h.Hex(clip(req, 800))), rep)
		return
	}
	if gotName != name || sctx.Method == nil || !sctx.Method.Missing() {
		c.Violation("missing-method-routing", fmt.Sprintf("name %q decoded as %q, method %v", name, gotName, sctx.Method), rep)
	}
	if len(gotArgs) != n {
		c.Violation("argument-count:missing", fmt.Sprintf("sent %d, decoded %d", n, len(gotArgs)), rep)
		return
	}
	// the service's StructType option decides how a registered struct arrives where no Go type is declared
	seenPtr := map[uintptr]bool{}
	for i := range gotArgs {
		if why := structShape(seenPtr, args[i], gotArgs[i], o.set.Struct); why != "" {
			c.Violation("struct-type-option-ignored:missing", fmt.Sprintf("argument %d: %s (service codec option StructType=%d)", i, why, o.set.Struct), rep)
			break
		}
	}
	if canHold(args, o.set) {
		if why := eqv.DEqual(eqv.Denote(args), eqv.Denote(gotArgs)); why != "" {
			c.Violation("argument-denotation:missing", fmt.Sprintf("arguments of a call routed to the missing-method handler changed: %s\nsent=%#v\ngot =%#v\nrequest=%s", why, args, gotArgs, h.Hex(clip(req, 600))), rep)
		}
	}
	if n > 1 {
		r.Distinct(fmt.Sprintf("missing|%d|%s", k%64, o.String()))
	}
}

// structShape: a registered struct sent as a value or pointer arrives as *T under
// StructTypePtr (the default) and as T under StructTypeValue, at the top of an interface{}
// position and inside untyped lists.
func structShape(seen map[uintptr]bool, sent, got interface{}, st hio.StructType) string {
	if sent == nil || got == nil {
		return ""
	}
	sv := reflect.ValueOf(sent)
	if sv.Kind() == reflect.Slice && sv.Type().Elem().Kind() == reflect.Interface {
		gv := reflect.ValueOf(got)
		if gv.Kind() == reflect.Slice && gv.Len() == sv.Len() {
			for i := 0; i < sv.Len(); i++ {
				if why := structShape(seen, sv.Index(i).Interface(), gv.Index(i).Interface(), st); why != "" {
					return why
				}
			}
		}
		return ""
	}
	t := sv.Type()
	if t.Kind() == reflect.Ptr {
		// a pointer that occurred before travels as a back-reference, which always yields the pointer
		if sv.IsNil() || seen[sv.Pointer()] {
			return ""
		}
		seen[sv.Pointer()] = true
		t = t.Elem()
	}
	if t.Kind() != reflect.Struct || t.PkgPath() != "verif/internal/gentypes" {
		return ""
	}
	gt := reflect.TypeOf(got)
	if st == hio.StructTypeValue && gt.Kind() != reflect.Struct {
		return fmt.Sprintf("sent %T, decoded %T: a struct value is wanted", sent, got)
	}
	if st != hio.StructTypeValue && gt.Kind() != reflect.Ptr {
		return fmt.Sprintf("sent %T, decoded %T: a pointer is wanted", sent, got)
	}
	return ""
}

// looseEqual: a convertible argument: digit strings and numbers of other widths denote the number.
func looseEqual(a, b *eqv.D) string {
	if a.K == eqv.KStr && (b.K == eqv.KInt || b.K == eqv.KFloat) {
		if bi, ok := new(big.Int).SetString(a.S, 10); ok {
			return eqv.DEqualLoose(&eqv.D{K: eqv.KInt, I: bi}, b)
		}
		var f float64
		if _, err := fmt.Sscan(a.S, &f); err == nil {
			return eqv.DEqualLoose(&eqv.D{K: eqv.KFloat, F: f}, b)
		}
	}
	if (a.K == eqv.KInt || a.K == eqv.KBytes) && b.K == eqv.KStr {
		if a.K == eqv.KInt && a.I.String() == b.S {
			return ""
		}
		if a.K == eqv.KBytes && a.S == b.S {
			return ""
		}
	}
	return eqv.DEqualLoose(a, b)
}

func hasInexact(exact []bool) bool {
	for _, e := range exact {
		if !e {
			return true
		}
	}
	return false
}

func canHold(args []interface{}, s iox.Setting) bool {
	return iox.SettingCanHold(eqv.Denote(args), s)
}

func tname(t reflect.Type) string {
	if t == nil {
		return "extra"
	}
	s := t.String()
	if len(s) > 50 {
		s = s[:50]
	}
	return s
}

func classOf(s string) string {
	if i := strings.Index(s, ":"); i > 0 {
		s = s[:i]
	}
	return h.PanicClass(s)
}

// readEnvelope parses [H map] (C|R) ... z with the independent reader.
func readEnvelope(b []byte, kind byte, name string, args []interface{}, hdr map[string]interface{}, simple bool) string {
	rd := hpref.NewReader(b)
	rest := rd.Rest()
	if len(rest) == 0 {
		return "empty: envelope"
	}
	wantHdr := map[string]interface{}{}
	for k, v := range hdr {
		wantHdr[k] = v
	}
	if simple {
		wantHdr["simple"] = true
	}
	if rest[0] == 'H' {
		rd = hpref.NewReader(b[1:])
		hv, err := rd.ReadValue()
		if err != nil {
			return "headers: " + err.Error()
		}
		if why := eqv.DEqual(eqv.Denote(wantHdr), hv); why != "" {
			return "headers: " + why
		}
		b = rd.Rest()
	} else if len(wantHdr) > 0 {
		return "headers: missing H section"
	}
	if len(b) == 0 || b[0] != kind {
		return fmt.Sprintf("tag: expected %q", kind)
	}
	rd = hpref.NewReader(b[1:])
	if kind == 'C' {
		nv, err := rd.ReadValue()
		if err != nil {
			return "name: " + err.Error()
		}
		if nv.K != eqv.KStr || nv.S != name {
			return "name: " + nv.String()
		}
		b = rd.Rest()
		if len(args) > 0 {
			rd = hpref.NewReader(b)
			av, err := rd.ReadValue()
			if err != nil {
				return "arguments: " + err.Error()
			}
			if why := eqv.DEqual(eqv.Denote(args), av); why != "" {
				return "arguments: " + why
			}
			b = rd.Rest()
		}
	}
	if kind == 'C' && (len(b) != 1 || b[0] != 'z') {
		return fmt.Sprintf("end: expected z, found %q", clip(b, 20))
	}
	return ""
}

// ---- responses ----

type resultSpec struct {
	name   string
	result interface{}    // what the service codec is given
	types  []reflect.Type // the caller's declared return types
	want   []interface{}  // expected decoded results (nil: not compared)
	errMsg string         // expected error message ("" = no error)
}

func responseSpecs(rng *rand.Rand) []resultSpec {
	g := &gen.Gen{Rng: rng}
	ti := func(v interface{}) reflect.Type { return reflect.TypeOf(v) }
	one := func(t reflect.Type) resultSpec {
		v := g.Pick(t, 3)
		var iv interface{}
		if !(v.Kind() == reflect.Interface && v.IsNil()) {
			iv = v.Interface()
		}
		return resultSpec{name: "one:" + tname(t), result: iv, types: []reflect.Type{t}, want: []interface{}{iv}}
	}
	types := []reflect.Type{gen.TInt, gen.TInt8, gen.TUint64, gen.TFloat64, gen.TFloat32, gen.TString, gen.TBytes, gen.TBool, gen.TTime, gen.TUUID, gen.TBigIntP,
		ti([]int(nil)), ti([]string(nil)), ti(map[string]int(nil)), ti(map[string]interface{}(nil)), ti(gentypes.Scalars{}), ti(&gentypes.Tree{}), ti(&gentypes.One{}), gen.TIface, ti([]interface{}(nil)), ti([2]int{}), ti(gentypes.MyInt(0)), ti((*string)(nil))}
	var specs []resultSpec
	specs = append(specs, one(types[rng.Intn(len(types))]), one(types[rng.Intn(len(types))]), one(types[rng.Intn(len(types))]))
	specs = append(specs, resultSpec{name: "none", result: nil, types: nil, want: nil})
	specs = append(specs, resultSpec{name: "none-but-caller-wants-one", result: nil, types: []reflect.Type{gen.TString}, want: []interface{}{""}})
	// several results
	k := 2 + rng.Intn(3)
	var rs []interface{}
	var ts []reflect.Type
	for i := 0; i < k; i++ {
		t := types[rng.Intn(len(types))]
		v := g.Pick(t, 2)
		var iv interface{}
		if !(v.Kind() == reflect.Interface && v.IsNil()) {
			iv = v.Interface()
		}
		rs = append(rs, iv)
		ts = append(ts, t)
	}
	specs = append(specs, resultSpec{name: fmt.Sprintf("several:%d", k), result: rs, types: ts, want: rs})
	// the same string and pointer repeated among several results
	sh := "shared-result"
	tr := &gentypes.Tree{Name: sh}
	specs = append(specs, resultSpec{name: "several-shared", result: []interface{}{sh, tr, sh, tr}, types: []reflect.Type{gen.TString, ti(tr), gen.TString, ti(tr)}, want: []interface{}{sh, tr, sh, tr}})
	// errors
	msg := []string{"plain error", "", "e", "错误 message", "with \"quotes\" and ; { }", strings.Repeat("long", 100), "timeout"}[rng.Intn(7)]
	specs = append(specs, resultSpec{name: "error", result: errors.New(msg), types: []reflect.Type{gen.TString}, errMsg: msg})
	specs = append(specs, resultSpec{name: "panic-error", result: core.NewPanicError("boom: " + msg), types: []reflect.Type{gen.TInt, gen.TString}, errMsg: "boom: " + msg})
	return specs
}

func responseCase(c *h.Case, k int) {
	r := c.R
	rng := c.Rand()
	specs := responseSpecs(rng)
	sp := specs[k%len(specs)]
	o := opts{clientSimple: k&1 == 1, serviceSimple: k&2 == 2, debug: k&4 == 4}
	if k%5 == 4 {
		o.set = iox.RandSetting(rng)
	}
	sctx := core.NewServiceContext(svc)
	hdr := headerValues(rng)
	for hk, hv := range hdr {
		sctx.ResponseHeaders().Set(hk, hv)
	}
	rep := map[string]interface{}{"spec": sp.name, "opts": o.String(), "result": fmt.Sprintf("%#v", sp.result), "headers": fmt.Sprintf("%#v", hdr)}
	var resp []byte
	var err error
	p, st := h.Try(func() { resp, err = o.service().Encode(sp.result, sctx) })
	r.Eval(1)
	if p != nil {
		c.Violation("service-encode-panic:"+h.PanicClass(fmt.Sprint(p))+"@"+h.FirstRepoFrame(st), fmt.Sprintf("%v\n%s", p, h.TrimStack(st)), rep)
		return
	}
	if err != nil {
		if strings.Contains(err.Error(), "year outside") {
			return
		}
		c.Violation("service-encode-error", err.Error(), rep)
		return
	}
	rep["response"] = h.Hex(clip(resp, 1500))
	// envelope must be well formed: [H map] (R value | E string) z
	if why := readResponse(resp, sp, hdr, o.serviceSimple); why != "" {
		c.Violation("response-envelope:"+classOf(why), fmt.Sprintf("independent reader: %s\nresponse=%s", why, h.Hex(clip(resp, 800))), rep)
	}
	// the client decodes the response with the context that carried the request (its request
	// headers hold the client's own simple flag)
	cctx := core.NewClientContext()
	cctx.ReturnType = sp.types
	if _, e := o.client().Encode("m", nil, cctx); e != nil {
		return
	}
	var got []interface{}
	p, st = h.Try(func() { got, err = o.client().Decode(append([]byte(nil), resp...), cctx) })
	r.Eval(1)
	if p != nil {
		c.Violation("client-decode-panic:"+sp.name+":"+h.PanicClass(fmt.Sprint(p))+"@"+h.FirstRepoFrame(st), fmt.Sprintf("%v\nresponse=%s\n%s", p, h.Hex(clip(resp, 600)), h.TrimStack(st)), rep)
		return
	}
	if sp.errMsg != "" || sp.name == "error" || sp.name == "panic-error" {
		if err == nil {
			c.Violation("error-arrived-as-success:"+sp.name, fmt.Sprintf("service encoded error %q, client codec returned results %#v and no error", sp.errMsg, got), rep)
			return
		}
		gm := err.Error()
		okMsg := gm == sp.errMsg
		if sp.name == "panic-error" && o.debug {
			okMsg = strings.HasPrefix(gm, sp.errMsg)
		}
		if !okMsg {
			c.Violation("error-message-changed:"+sp.name, fmt.Sprintf("service encoded error %q, client codec returned error %q", sp.errMsg, gm), rep)
		}
		if sp.errMsg == "timeout" && err != core.ErrTimeout {
			c.Violation("timeout-error-identity", fmt.Sprintf("message timeout decoded as %T", err), rep)
		}
	} else {
		if err != nil {
			if !iox.SettingCanHold(eqv.Denote(sp.result), o.set) {
				return
			}
			c.Violation("client-decode-error:"+sp.name, fmt.Sprintf("%v\nresponse=%s", err, h.Hex(clip(resp, 800))), rep)
			return
		}
		if len(got) != len(sp.types) {
			c.Violation("result-count:"+sp.name, fmt.Sprintf("declared %d return types, got %d results", len(sp.types), len(got)), rep)
			return
		}
		for i := range got {
			t := sp.types[i]
			if t.Kind() != reflect.Interface && (got[i] == nil || reflect.TypeOf(got[i]) != t) {
				c.Violation("result-type:"+sp.name, fmt.Sprintf("result %d: declared %s, got %T", i, t, got[i]), rep)
				continue
			}
			if sp.want == nil || i >= len(sp.want) {
				continue
			}
			if t.Kind() == reflect.Interface {
				dw := eqv.Denote(sp.want[i])
				if !iox.SettingCanHold(dw, o.set) {
					continue
				}
				if why := eqv.DEqual(dw, eqv.Denote(got[i])); why != "" {
					c.Violation("result-denotation:"+sp.name, fmt.Sprintf("result %d: %s\nwant=%#v\ngot =%#v", i, why, sp.want[i], got[i]), rep)
				}
				continue
			}
			wv := reflect.ValueOf(sp.want[i])
			if !wv.IsValid() {
				wv = reflect.Zero(t)
			}
			if iox.ContainsInterface(t) && !iox.SettingCanHold(eqv.Denote(sp.want[i]), o.set) {
				continue
			}
			if why := eqv.Equal(wv, reflect.ValueOf(got[i])); why != "" {
				c.Violation("result-value:"+tname(t), fmt.Sprintf("result %d (%s) changed at %s\nwant=%#v\ngot =%#v\nresponse=%s", i, t, why, sp.want[i], got[i], h.Hex(clip(resp, 600))), rep)
			}
		}
		// response headers
		gh := cctx.ResponseHeaders().ToMap()
		delete(gh, "simple")
		if why := eqv.DEqual(eqv.Denote(hdr), eqv.Denote(gh)); why != "" && len(hdr) > 0 {
			c.Violation("response-headers-differ", fmt.Sprintf("%s\nsent=%#v\ngot =%#v", why, hdr, gh), rep)
		}
	}
	r.Distinct(fmt.Sprintf("resp|%s|%s", sp.name, o.String()))
	if k == 5 {
		r.Sample(map[string]interface{}{"spec": sp.name, "response": h.Hex(clip(resp, 300)), "options": o.String()})
	}
}

func readResponse(b []byte, sp resultSpec, hdr map[string]interface{}, simple bool) string {
	wantHdr := map[string]interface{}{}
	for k, v := range hdr {
		wantHdr[k] = v
	}
	if simple {
		wantHdr["simple"] = true
	}
	if len(b) > 0 && b[0] == 'H' {
		rd := hpref.NewReader(b[1:])
		hv, err := rd.ReadValue()
		if err != nil {
			return "headers: " + err.Error()
		}
		if why := eqv.DEqual(eqv.Denote(wantHdr), hv); why != "" {
			return "headers: " + why
		}
		b = rd.Rest()
	} else if len(wantHdr) > 0 {
		return "headers: missing H section"
	}
	if len(b) == 0 {
		return "tag: empty"
	}
	switch b[0] {
	case 'R':
		rd := hpref.NewReader(b[1:])
		v, err := rd.ReadValue()
		if err != nil {
			return "result: " + err.Error()
		}
		if _, isErr := sp.result.(error); isErr {
			return "result: an error was encoded as a result"
		}
		if why := eqv.DEqual(eqv.Denote(sp.result), v); why != "" {
			return "result: " + why
		}
		b = rd.Rest()
	case 'E':
		rd := hpref.NewReader(b[1:])
		v, err := rd.ReadValue()
		if err != nil {
			return "error: " + err.Error()
		}
		if v.K != eqv.KStr {
			return "error: E not followed by a string"
		}
		b = rd.Rest()
	default:
		return fmt.Sprintf("tag: %q", b[0])
	}
	if len(b) != 1 || b[0] != 'z' {
		return fmt.Sprintf("end: expected z, found %q", clip(b, 20))
	}
	return ""
}

// ---- JSON-RPC ----

func jsonCase(c *h.Case, k int) {
	r := c.R
	rng := c.Rand()
	cc := jsonrpc.NewClientCodec(nil)
	sc := jsonrpc.NewServiceCodec(nil)
	type jm struct {
		name string
		args []interface{}
	}
	tree := map[string]interface{}{"name": "t", "kids": []interface{}{map[string]interface{}{"name": "k"}}}
	ms := []jm{
		{"OneInt", []interface{}{rng.Intn(1000) - 500}},
		{"OneInt", []interface{}{[]int{1<<53 + 1, 1<<60 + 1, math.MaxInt64, math.MinInt64 + 1, -(1<<53 + 1), 1 << 53}[rng.Intn(6)]}},
		{"TwoInts", []interface{}{rng.Intn(100), rng.Intn(100)}},
		{"Str", []interface{}{[]string{"", "a", "json \"string\"", "中文😀", "line\nbreak"}[rng.Intn(5)]}},
		{"Bool", []interface{}{rng.Intn(2) == 0}},
		{"Slices", []interface{}{[]int{1, 2, 3}, []string{"a", "b"}, [][]byte{[]byte("x")}, []interface{}{1.5, "s", nil, true}, []float64{1.5, -2}}},
		{"Struct", []interface{}{gentypes.Scalars{I: 5, S: "s", F64: 2.5, B: true}}},
		{"Variadic", []interface{}{"p", 1, 2, 3}},
		{"Variadic", []interface{}{"p"}},
		{"Any", []interface{}{tree}},
		{"NoArgs", nil},
		{"noSuchJSONMethod", []interface{}{nil, 1, "x", nil}},
		{"noSuchJSONMethod", []interface{}{nil}},
		{"Bytes", []interface{}{[]byte(nil)}},
		{"Any", []interface{}{nil}},
		{"Slices", []interface{}{[]int(nil), []string{}, [][]byte{nil}, []interface{}{nil}, []float64(nil)}},
	}
	m := ms[k%len(ms)]
	method := svc.Get(m.name)
	cctx := core.NewClientContext()
	hdr := map[string]interface{}{}
	if rng.Intn(2) == 0 {
		hdr["trace"] = "id-" + fmt.Sprint(rng.Intn(100))
		hdr["n"] = float64(rng.Intn(10))
		for hk, hv := range hdr {
			cctx.RequestHeaders().Set(hk, hv)
		}
	}
	rep := map[string]interface{}{"method": m.name, "args": fmt.Sprintf("%#v", m.args)}
	var req []byte
	var err error
	p, st := h.Try(func() { req, err = cc.Encode(m.name, m.args, cctx) })
	r.Eval(1)
	if p != nil || err != nil {
		c.Violation("jsonrpc-client-encode", fmt.Sprintf("panic=%v err=%v\n%s", p, err, h.TrimStack(st)), rep)
		return
	}
	rep["request"] = string(clip(req, 800))
	sctx := core.NewServiceContext(svc)
	var name string
	var args []interface{}
	p, st = h.Try(func() { name, args, err = sc.Decode(req, sctx) })
	r.Eval(1)
	if p != nil {
		c.Violation("jsonrpc-service-decode-panic:"+h.PanicClass(fmt.Sprint(p))+"@"+h.FirstRepoFrame(st), fmt.Sprintf("%v\nrequest=%s\n%s", p, clip(req, 500), h.TrimStack(st)), rep)
		return
	}
	if err != nil {
		c.Violation("jsonrpc-service-decode-error:"+m.name, fmt.Sprintf("%v\nrequest=%s", err, clip(req, 500)), rep)
		return
	}
	if name != m.name || sctx.Method == nil || sctx.Method.Name() != method.Name() {
		c.Violation("jsonrpc-wrong-method", fmt.Sprintf("sent %s decoded %s", m.name, name), rep)
	}
	if len(args) != len(m.args) {
		c.Violation("jsonrpc-argument-count", fmt.Sprintf("sent %d decoded %d", len(m.args), len(args)), rep)
		return
	}
	params := method.Parameters()
	for i := range args {
		var pt reflect.Type
		if method.Func().Type().IsVariadic() && i >= len(params)-1 {
			pt = params[len(params)-1].Elem()
		} else if i < len(params) {
			pt = params[i]
		}
		if method.Missing() {
			pt = nil
		}
		if pt != nil && pt.Kind() != reflect.Interface && reflect.TypeOf(args[i]) != pt {
			c.Violation("jsonrpc-argument-type", fmt.Sprintf("argument %d: parameter %s, decoded %T", i, pt, args[i]), rep)
			continue
		}
		if why := eqv.DEqualLoose(jsonDenote(m.args[i]), jsonDenote(args[i])); why != "" {
			c.Violation("jsonrpc-argument-value:"+m.name, fmt.Sprintf("argument %d: %s\nsent=%#v\ngot =%#v", i, why, m.args[i], args[i]), rep)
		}
	}
	gh := sctx.RequestHeaders().ToMap()
	if why := eqv.DEqualLoose(eqv.Denote(hdr), eqv.Denote(gh)); why != "" && len(hdr) > 0 {
		c.Violation("jsonrpc-headers", why, rep)
	}
	// response direction
	results := []struct {
		res   interface{}
		types []reflect.Type
		emsg  string
	}{
		{"result string", []reflect.Type{gen.TString}, ""},
		{42, []reflect.Type{gen.TInt}, ""},
		{[]int64{1<<53 + 1, 1<<60 + 1, math.MaxInt64, math.MinInt64 + 1}[rng.Intn(4)], []reflect.Type{reflect.TypeOf(int64(0))}, ""},
		{[]interface{}{int64(1<<60 + 1), "two"}, []reflect.Type{reflect.TypeOf(int64(0)), gen.TString}, ""},
		{[]interface{}{1, "two"}, []reflect.Type{gen.TInt, gen.TString}, ""},
		{map[string]interface{}{"a": 1.5}, []reflect.Type{reflect.TypeOf(map[string]interface{}(nil))}, ""},
		{gentypes.Scalars{I: 3, S: "x"}, []reflect.Type{reflect.TypeOf(gentypes.Scalars{})}, ""},
		{errors.New("json error"), []reflect.Type{gen.TString}, "json error"},
		{nil, nil, ""},
	}
	rs := results[k%len(results)]
	var resp []byte
	p, st = h.Try(func() { resp, err = sc.Encode(rs.res, sctx) })
	r.Eval(1)
	if p != nil || err != nil {
		c.Violation("jsonrpc-service-encode", fmt.Sprintf("panic=%v err=%v", p, err), rep)
		return
	}
	c2 := core.NewClientContext()
	c2.ReturnType = rs.types
	var got []interface{}
	p, st = h.Try(func() { got, err = cc.Decode(resp, c2) })
	r.Eval(1)
	if p != nil {
		c.Violation("jsonrpc-client-decode-panic:"+h.PanicClass(fmt.Sprint(p))+"@"+h.FirstRepoFrame(st), fmt.Sprintf("%v\nresponse=%s\n%s", p, clip(resp, 500), h.TrimStack(st)), rep)
		return
	}
	if rs.emsg != "" {
		if err == nil || err.Error() != rs.emsg {
			c.Violation("jsonrpc-error-message", fmt.Sprintf("service encoded %q, client got %v", rs.emsg, err), rep)
		}
	} else if err != nil {
		c.Violation("jsonrpc-client-decode-error", fmt.Sprintf("%v\nresponse=%s", err, clip(resp, 500)), rep)
	} else if rs.res != nil {
		var want interface{} = rs.res
		var gv interface{} = got
		if len(rs.types) == 1 && len(got) == 1 {
			gv = got[0]
		}
		if why := eqv.DEqualLoose(jsonDenote(want), jsonDenote(gv)); why != "" {
			c.Violation("jsonrpc-result-value", fmt.Sprintf("%s\nwant=%#v got=%#v\nresponse=%s", why, want, gv, clip(resp, 400)), rep)
		}
	}
	// fall-back: a non-JSON request goes through the default codec
	if k%10 == 0 {
		hreq, _ := core.NewClientCodec().Encode("Str", []interface{}{"fallback"}, core.NewClientContext())
		s2 := core.NewServiceContext(svc)
		n2, a2, e2 := sc.Decode(hreq, s2)
		r.Eval(1)
		if e2 != nil || n2 != "Str" || len(a2) != 1 || a2[0] != "fallback" {
			c.Violation("jsonrpc-fallback", fmt.Sprintf("hprose request through the JSON-RPC service codec: name=%q args=%#v err=%v", n2, a2, e2), rep)
		}
	}
	r.Distinct(fmt.Sprintf("json|%s|%d", m.name, k%len(results)))
}

// jsonDenote denotes a value the way JSON carries it: struct = object keyed by its json/field
// names is outside what we compare, so structs are compared through their hprose aliases only
// when both sides are structs; numbers are loose.
func jsonDenote(v interface{}) *eqv.D {
	d := eqv.Denote(v)
	return normJSON(d)
}

func normJSON(d *eqv.D) *eqv.D {
	switch d.K {
	case eqv.KBytes:
		return &eqv.D{K: eqv.KBytes, S: d.S}
	case eqv.KObj:
		m := &eqv.D{K: eqv.KObj, Class: "", Field: d.Field}
		for _, x := range d.Vals {
			m.Vals = append(m.Vals, normJSON(x))
		}
		return m
	case eqv.KList:
		l := &eqv.D{K: eqv.KList, List: []*eqv.D{}}
		for _, x := range d.List {
			l.List = append(l.List, normJSON(x))
		}
		return l
	case eqv.KMap:
		m := &eqv.D{K: eqv.KMap}
		for i := range d.Keys {
			k := d.Keys[i]
			if k.K == eqv.KInt {
				k = &eqv.D{K: eqv.KStr, S: k.I.String()}
			}
			m.Keys = append(m.Keys, k)
			m.Vals = append(m.Vals, normJSON(d.Vals[i]))
		}
		return m
	}
	return d
}

func clip(b []byte, n int) []byte {
	if len(b) > n {
		return b[:n]
	}
	return b
}

var _ = hio.Marshal
