// C08 — a remote call returns what the service function returns, on every transport.
package c08

import (
	"context"
	"errors"
	"fmt"
	"math/big"
	"math/rand"
	"os"
	"reflect"
	"strings"
	"sync"
	"testing"
	"time"
	"unicode/utf8"

	"github.com/google/uuid"
	"github.com/hprose/hprose-golang/v3/rpc/codec/jsonrpc"
	"github.com/hprose/hprose-golang/v3/rpc/core"
	"github.com/hprose/hprose-golang/v3/rpc/socket"
	"github.com/hprose/hprose-golang/v3/rpc/udp"
	"github.com/hprose/hprose-golang/v3/rpc/websocket"
	"verif/internal/eqv"
	"verif/internal/gen"
	"verif/internal/gentypes"
	"verif/internal/h"
	"verif/internal/iox"
	"verif/internal/peer"
)

var light = os.Getenv("VERIF_LIGHT") == "1"

type customPanic struct {
	Code int
	Why  string
}

type myErr struct{ msg string }

func (e *myErr) Error() string { return e.msg }

// the pure functions: what they return is a function of all their arguments.
var funcs = []struct {
	name string
	f    interface{}
}{
	{"NoArgs", func() {}},
	{"NoArgsResult", func() string { return "constant result" }},
	{"OneInt", func(a int) int { return a*3 + 1 }},
	{"TwoResults", func(a int, s string) (string, int) { return s + "!", a - 1 }},
	{"ManyResults", func(a int, b float64, s string, bs []byte, ok bool) (int, float64, string, []byte, bool) {
		return a + 1, b, "<" + s + ">", append([]byte("x"), bs...), !ok
	}},
	{"ErrResult", func(s string, n int) (string, error) {
		if n%2 == 0 {
			return "", errors.New("boom: " + s)
		}
		return s + s, nil
	}},
	{"OnlyErr", func(n int) error {
		if n%3 == 0 {
			return &myErr{fmt.Sprintf("custom error #%d with 中文 and \"quotes\"", n)}
		}
		return nil
	}},
	{"ErrAndResults", func(a, b int) (int, int, error) {
		if b == 0 {
			return 0, 0, fmt.Errorf("division of %d by zero", a)
		}
		return a / b, a % b, nil
	}},
	{"Panics", func(kind int, s string) string {
		switch ((kind % 6) + 6) % 6 {
		case 0:
			panic("panic with string: " + s)
		case 1:
			panic(errors.New("panic with error: " + s))
		case 2:
			panic(kind)
		case 3:
			panic(customPanic{kind, s})
		case 4:
			var m map[string]int
			m[s] = 1 // runtime error
		}
		return "no panic " + s
	}},
	{"Variadic", func(prefix string, xs ...int) (string, int, int) {
		sum := 0
		for _, x := range xs {
			sum += x
		}
		return prefix, sum, len(xs)
	}},
	{"VariadicAny", func(xs ...interface{}) int { return len(xs) }},
	{"VariadicStr", func(n int, ss ...string) string { return fmt.Sprint(n, ":", strings.Join(ss, "|")) }},
	{"Ctx", func(ctx context.Context, s string) (string, error) {
		sc := core.GetServiceContext(ctx)
		if sc == nil || sc.Method == nil {
			return "", errors.New("no service context")
		}
		return s + "@" + sc.Method.Name(), nil
	}},
	{"CtxAny", func(ctx context.Context, n int, a interface{}, s string) (string, interface{}, int) {
		return s, a, n
	}},
	{"CtxVariadicAny", func(ctx context.Context, s string, xs ...interface{}) ([]interface{}, string) {
		return xs, s
	}},
	{"IntThenAny", func(n int, a interface{}, b interface{}) (interface{}, interface{}, int) { return b, a, n }},
	{"Struct", func(a gentypes.Scalars) gentypes.Scalars { return a }},
	{"StructPtr", func(t *gentypes.Tree) *gentypes.Tree { return t }},
	{"Maps", func(m map[string]int, n map[int]string) (map[int]string, map[string]int) { return n, m }},
	{"Slices", func(a []int, b []string, c [][]byte) ([][]byte, []string, []int) { return c, b, a }},
	{"Any", func(a interface{}) interface{} { return a }},
	{"Anys", func(a, b interface{}) []interface{} { return []interface{}{b, a} }},
	{"Time", func(t time.Time, u uuid.UUID) (uuid.UUID, time.Time) { return u, t }},
	{"Bigs", func(a *big.Int, f *big.Float, r *big.Rat) (*big.Rat, *big.Float, *big.Int) { return r, f, a }},
	{"Ptrs", func(a *int, s *string) (*string, *int) { return s, a }},
	{"Named", func(a gentypes.MyInt, b gentypes.MyString) (gentypes.MyString, gentypes.MyInt) { return b, a }},
	{"Bytes", func(b []byte) []byte { return b }},
	{"Bool", func(b bool) bool { return !b }},
	{"Floats", func(a float32, b float64) (float64, float32) { return b, a }},
	{"Libs", func(l gentypes.Libs) gentypes.Libs { return l }},
	{"ns_sub_echo", func(s string) string { return "ns:" + s }},
	{"你好", func(s string) string { return "你好 " + s }},
	{"Ünal_Ωmega", func(s string) string { return "Ω " + s }},
}

type record struct {
	name string
	args []reflect.Value
}

type recorder struct {
	mu   sync.Mutex
	recs []record
}

func (r *recorder) add(name string, args []reflect.Value) {
	r.mu.Lock()
	r.recs = append(r.recs, record{name, args})
	r.mu.Unlock()
}

func (r *recorder) take() []record {
	r.mu.Lock()
	defer r.mu.Unlock()
	x := r.recs
	r.recs = nil
	return x
}

var tCtx = reflect.TypeOf((*context.Context)(nil)).Elem()
var tErr = reflect.TypeOf((*error)(nil)).Elem()

// publish registers recording wrappers of all pure functions.
func publish(svc *core.Service, rec *recorder, missing int) {
	for _, fn := range funcs {
		fn := fn
		pure := reflect.ValueOf(fn.f)
		ft := pure.Type()
		w := reflect.MakeFunc(ft, func(in []reflect.Value) []reflect.Value {
			args := in
			if len(args) > 0 && args[0].Type() == tCtx {
				args = args[1:]
			}
			rec.add(fn.name, append([]reflect.Value(nil), args...))
			if ft.IsVariadic() {
				return pure.CallSlice(in)
			}
			return pure.Call(in)
		})
		svc.AddFunction(w.Interface(), fn.name)
	}
	switch missing {
	case 1:
		svc.AddMissingMethod(func(name string, args []interface{}) ([]interface{}, error) {
			rec.add("*", []reflect.Value{reflect.ValueOf(name), reflect.ValueOf(args)})
			if len(args) > 0 && args[0] == "fail" {
				return nil, errors.New("missing method says no to " + name)
			}
			return []interface{}{"missing:" + strings.ToLower(name), len(args)}, nil
		})
	case 2:
		svc.AddMissingMethod(func(ctx context.Context, name string, args []interface{}) ([]interface{}, error) {
			rec.add("*", []reflect.Value{reflect.ValueOf(name), reflect.ValueOf(args)})
			if core.GetServiceContext(ctx) == nil {
				return nil, errors.New("no service context")
			}
			if len(args) > 0 && args[0] == "panic" {
				panic("missing method panics for " + strings.ToLower(name))
			}
			return []interface{}{"missing:" + strings.ToLower(name), len(args)}, nil
		})
	}
}

// proxyFor builds a proxy struct with one function field per published function. The fields
// take the pure function's parameters (optionally preceded by a context) and return its results
// plus an error.
func proxyFor(rng *rand.Rand, withCtx bool) (reflect.Value, map[string]string) {
	var fields []reflect.StructField
	spelled := map[string]string{}
	for i, fn := range funcs {
		ft := reflect.TypeOf(fn.f)
		var in, out []reflect.Type
		if withCtx {
			in = append(in, tCtx)
		}
		for j := 0; j < ft.NumIn(); j++ {
			if ft.In(j) == tCtx {
				continue
			}
			in = append(in, ft.In(j))
		}
		for j := 0; j < ft.NumOut(); j++ {
			if ft.Out(j) == tErr {
				continue
			}
			out = append(out, ft.Out(j))
		}
		out = append(out, tErr)
		name := spell(rng, fn.name)
		spelled[fn.name] = name
		fields = append(fields, reflect.StructField{
			Name: fmt.Sprintf("F%d", i),
			Type: reflect.FuncOf(in, out, ft.IsVariadic()),
			Tag:  reflect.StructTag(fmt.Sprintf(`name:"%s"`, name)),
		})
	}
	p := reflect.New(reflect.StructOf(fields))
	return p, spelled
}

func spell(rng *rand.Rand, name string) string {
	switch rng.Intn(4) {
	case 0:
		return strings.ToLower(name)
	case 1:
		return strings.ToUpper(name)
	case 2:
		var sb strings.Builder
		for _, r := range name {
			if rng.Intn(2) == 0 {
				sb.WriteString(strings.ToUpper(string(r)))
			} else {
				sb.WriteString(strings.ToLower(string(r)))
			}
		}
		return sb.String()
	}
	return name
}

type group struct {
	kind    string
	pool    bool
	simple  bool
	missing int
	withCtx bool
	set     iox.Setting
	json    bool // JSON-RPC codecs on both sides
}

func (g group) String() string {
	s := fmt.Sprintf("%s/pool=%v/simple=%v/missing=%d/ctx=%v", g.kind, g.pool, g.simple, g.missing, g.withCtx)
	if !g.set.IsDefault() {
		s += "/" + g.set.String()
	}
	if g.json {
		s += "/jsonrpc"
	}
	return s
}

type pool struct{ tasks chan func() }

func newPool(n int) *pool {
	p := &pool{tasks: make(chan func(), 1024)}
	for i := 0; i < n; i++ {
		go func() {
			for f := range p.tasks {
				f()
			}
		}()
	}
	return p
}
func (p *pool) Submit(f func()) { p.tasks <- f }

func setPool(svc *core.Service, p core.WorkerPool) {
	if hd, ok := svc.GetHandler("socket").(*socket.Handler); ok {
		hd.Pool = p
	}
	if hd, ok := svc.GetHandler("udp").(*udp.Handler); ok {
		hd.Pool = p
	}
	if hd, ok := svc.GetHandler("websocket").(*websocket.Handler); ok {
		hd.Pool = p
	}
}

func TestCheck(t *testing.T) {
	peer.Register()
	r := h.Start(t, "C08")
	defer r.Finish()
	r.Meta("rule", "a service publishes 33 functions of different shapes (context-taking functions with interface{} parameters and nil interface arguments, no/one/many parameters and results, error-returning, error-only, panicking with string/error/int/struct/runtime error, variadic of ints/strings/interfaces, context-taking, struct, struct pointer, maps, slices, interface{}, time/uuid, big numbers, pointers, named types, non-ASCII and namespaced names) as recording wrappers (reflect.MakeFunc) plus a missing-method handler (absent / plain / context-taking). Per transport {mock, tcp, unix, udp, net/http, fasthttp server, ws, ws-fasthttp; fasthttp client in processes of its own} x worker pool off/on x simple codec off/on x proxy with/without leading context: a proxy struct generated with reflect.StructOf (name tags in PRNG-drawn letter case) is filled by Client.UseService and every function is called with arguments drawn from the C01 value domain (boundary lists and PRNG); the same functions are also called through raw Client.Invoke, and unpublished names through both. Also: concurrent calls to different functions over one client (issued multiset == recorded multiset), and a proxy with nested, embedded (top level, inside a named part, two levels down), pointer and name-tagged parts whose every function must be bound to the name its position spells. Oracle: the recorder saw exactly one call, of the function published under that name, with arguments equal (typed, eqv.Equal; denotation for interface{} parameters) to those passed; the results equal those of calling the pure function locally with the same arguments; an error returned or a panic raised locally must arrive as an error with the same message. distinct_nontrivial = distinct (transport group, function, outcome class) cells Added: context-taking functions with interface{} parameters and nil interface arguments; a proxy with nested, embedded, pointer and name-tagged parts; JSON-RPC codec groups (typed proxies, JSON-representable values) over mock, http, fasthttp and tcp. Round 3 additions: net/rpc style methods, last results of concrete error types, one client pointed at two services in turn.")
	r.Meta("assumptions", []string{"argument values from the C01 generator (depth 3)", "udp: calls whose encoded request or response exceeds a datagram are expected to fail and are not counted", "time values whose year is outside 0..9999 are not encodable (open C01 finding) and are skipped"})
	var groups []group
	kinds := peer.Kinds
	if peer.FastHTTPClient {
		kinds = []string{"fasthttp", "http"}
	}
	for _, kind := range kinds {
		multiplexed := false
		for _, m := range peer.Multiplexed {
			if m == kind {
				multiplexed = true
			}
		}
		i := 0
		for _, pl := range []bool{false, true} {
			if pl && !multiplexed {
				continue
			}
			for _, simple := range []bool{false, true} {
				groups = append(groups, group{kind, pl, simple, i % 3, i%2 == 1, iox.Setting{}, false})
				i++
			}
		}
	}
	// codec options other than the defaults, on the transports with the fewest moving parts
	srng := rand.New(rand.NewSource(int64(r.Seed) + 77))
	if !peer.FastHTTPClient {
		for i := 0; i < r.Pick(4, 12); i++ {
			groups = append(groups, group{[]string{"mock", "tcp", "http"}[i%3], false, i%2 == 0, i % 3, false, iox.RandSetting(srng), false})
		}
	}
	// the JSON-RPC codecs, for the functions whose values JSON can represent
	for i, kind := range []string{"mock", "http", "fasthttp", "tcp"} {
		if peer.FastHTTPClient && kind != "http" && kind != "fasthttp" {
			continue
		}
		groups = append(groups, group{kind, false, false, 1 + i%2, i%2 == 1, iox.Setting{}, true})
	}
	rounds := r.Pick(24, 150)
	if light {
		rounds = 2
	}
	for _, g := range groups {
		g := g
		for fi := range funcs {
			fi := fi
			if g.json && !jsonFuncs[funcs[fi].name] {
				continue
			}
			r.Case(fmt.Sprintf("call/%s/%s", g, funcs[fi].name), func(c *h.Case) { callCase(c, g, fi, rounds) })
		}
		if g.json {
			continue
		}
		r.Case(fmt.Sprintf("missing/%s", g), func(c *h.Case) { missingCase(c, g) })
		r.Case(fmt.Sprintf("concurrent/%s", g), func(c *h.Case) { concurrentCase(c, g) })
		r.Case(fmt.Sprintf("nested-proxy/%s", g), func(c *h.Case) { nestedProxyCase(c, g) })
		r.Case(fmt.Sprintf("net-rpc-and-error-types/%s", g), func(c *h.Case) { netRPCCase(c, g) })
		r.Case(fmt.Sprintf("two-services-one-client/%s", g), func(c *h.Case) { twoServices(c, g) })
	}
}

type env struct {
	svc    *core.Service
	rec    *recorder
	srv    *peer.Server
	client *core.Client
}

// jsonFuncs are the functions whose parameters and results JSON can represent.
var jsonFuncs = map[string]bool{"NoArgs": true, "NoArgsResult": true, "OneInt": true, "TwoResults": true, "ErrResult": true, "OnlyErr": true, "ErrAndResults": true, "Panics": true, "Variadic": true, "VariadicStr": true, "Bool": true, "Bytes": true, "ns_sub_echo": true, "你好": true, "Ünal_Ωmega": true}

func start(c *h.Case, g group) *env {
	svc := core.NewService()
	svc.Codec = core.NewServiceCodec(core.WithSimple(g.simple), core.WithLongType(g.set.Long), core.WithRealType(g.set.Real), core.WithMapType(g.set.Map), core.WithStructType(g.set.Struct), core.WithListType(g.set.List))
	if g.json {
		svc.Codec = jsonrpc.NewServiceCodec(nil)
	}
	rec := &recorder{}
	publish(svc, rec, g.missing)
	if g.pool {
		setPool(svc, newPool(4))
	}
	srv, err := peer.Start(g.kind, svc)
	if err != nil {
		c.R.Inconclusive("cannot start " + g.kind + ": " + err.Error())
		return nil
	}
	client := srv.NewClient()
	client.Codec = core.NewClientCodec(core.WithSimple(g.simple), core.WithLongType(g.set.Long), core.WithRealType(g.set.Real), core.WithMapType(g.set.Map), core.WithStructType(g.set.Struct), core.WithListType(g.set.List))
	if g.json {
		client.Codec = jsonrpc.NewClientCodec(nil)
	}
	client.Timeout = 20 * time.Second
	return &env{svc, rec, srv, client}
}

func (e *env) stop() {
	e.client.Abort()
	e.srv.Close()
}

// callLocal calls the pure function.
func callLocal(fn interface{}, args []reflect.Value) (out []reflect.Value, err error, panicked interface{}) {
	pure := reflect.ValueOf(fn)
	ft := pure.Type()
	in := args
	if ft.NumIn() > 0 && ft.In(0) == tCtx {
		in = append([]reflect.Value{reflect.ValueOf(context.Background())}, args...)
	}
	defer func() {
		if p := recover(); p != nil {
			panicked = p
		}
	}()
	if ft.IsVariadic() {
		out = pure.CallSlice(in)
	} else {
		out = pure.Call(in)
	}
	if n := len(out); n > 0 && ft.Out(n-1) == tErr {
		if !out[n-1].IsNil() {
			err = out[n-1].Interface().(error)
		}
		out = out[:n-1]
	}
	return
}

func genArgs(g *gen.Gen, rng *rand.Rand, ft reflect.Type, round int) []reflect.Value {
	var args []reflect.Value
	for j := 0; j < ft.NumIn(); j++ {
		t := ft.In(j)
		if t == tCtx {
			continue
		}
		if ft.IsVariadic() && j == ft.NumIn()-1 {
			n := []int{0, 1, 2, 5}[round%4]
			s := reflect.MakeSlice(t, n, n)
			for k := 0; k < n; k++ {
				s.Index(k).Set(pick(g, rng, t.Elem(), round))
			}
			args = append(args, s)
			continue
		}
		args = append(args, pick(g, rng, t, round))
	}
	return args
}

func pick(g *gen.Gen, rng *rand.Rand, t reflect.Type, round int) reflect.Value {
	if t.Kind() == reflect.Interface && round%4 == 1 {
		return reflect.Zero(t) // a nil interface value
	}
	if round%3 == 0 {
		if bs := g.Bounds(t); len(bs) > 0 {
			return bs[rng.Intn(len(bs))]
		}
	}
	return g.Pick(t, 3)
}

func describe(vs []reflect.Value) string {
	var sb strings.Builder
	for i, v := range vs {
		if i > 0 {
			sb.WriteString(", ")
		}
		if v.IsValid() && v.CanInterface() {
			s := fmt.Sprintf("%#v", v.Interface())
			if len(s) > 300 {
				s = s[:300] + "…"
			}
			sb.WriteString(s)
		} else {
			sb.WriteString("<invalid>")
		}
	}
	return sb.String()
}

func hasIface(t reflect.Type) bool { return iox.ContainsInterface(t) }

// sameValue compares what was sent with what arrived in a position of static type t.
func sameValue(set iox.Setting, t reflect.Type, sent, got reflect.Value) (why string, undetermined bool) {
	if hasIface(t) {
		var si, gi interface{}
		if sent.IsValid() && sent.CanInterface() {
			si = sent.Interface()
		}
		if got.IsValid() && got.CanInterface() {
			gi = got.Interface()
		}
		ds, dg := eqv.Denote(si), eqv.Denote(gi)
		if !iox.SettingCanHold(ds, set) {
			return "", true
		}
		return eqv.DEqual(ds, dg), false
	}
	return eqv.Equal(sent, got), false
}

func callCase(c *h.Case, g group, fi int, rounds int) {
	r := c.R
	rng := c.Rand()
	e := start(c, g)
	if e == nil {
		return
	}
	defer e.stop()
	fn := funcs[fi]
	pft := reflect.TypeOf(fn.f)
	proxy, spelled := proxyFor(rng, g.withCtx)
	e.client.UseService(proxy.Interface())
	field := proxy.Elem().Field(fi)
	ft := field.Type()
	gg := &gen.Gen{Rng: rng}
	for round := 0; round < rounds; round++ {
		args := genArgs(gg, rng, pft, round)
		if g.json {
			// JSON strings are valid UTF-8
			for tries := 0; tries < 50 && !jsonRepresentable(args); tries++ {
				args = genArgs(gg, rng, pft, round+tries+1)
			}
			if !jsonRepresentable(args) {
				continue
			}
		}
		rep := map[string]interface{}{"group": g.String(), "function": fn.name, "spelled": spelled[fn.name], "args": describe(args)}
		// expected
		var exp []reflect.Value
		var expErr error
		var expPanic interface{}
		if fn.name == "Ctx" {
			exp = []reflect.Value{reflect.ValueOf(args[0].String() + "@" + fn.name)}
		} else {
			exp, expErr, expPanic = callLocal(fn.f, args)
		}
		viaInvoke := round%3 == 2 && !g.json // untyped JSON results are float64 / base64 strings by nature: typed proxies only
		// values the codec options cannot hold in interface{} positions are outside the property's reach
		holdable := true
		for _, a := range args {
			if hasIface(a.Type()) && !iox.SettingCanHold(eqv.Denote(valueIface(a)), g.set) {
				holdable = false
			}
		}
		for _, x := range exp {
			if (viaInvoke || hasIface(x.Type())) && !iox.SettingCanHold(eqv.Denote(valueIface(x)), g.set) {
				holdable = false
			}
		}
		if viaInvoke && len(exp) > 1 {
			// several results travel as one list
			var l []interface{}
			for _, x := range exp {
				l = append(l, valueIface(x))
			}
			if !iox.SettingCanHold(eqv.Denote(l), g.set) {
				holdable = false
			}
		}
		if !holdable {
			r.Stat("undetermined_interface_value", 1)
			continue
		}
		var got []reflect.Value
		var err error
		e.rec.take()
		var pv interface{}
		var st string
		if !viaInvoke {
			in := args
			if g.withCtx {
				in = append([]reflect.Value{reflect.ValueOf(context.Background())}, args...)
			}
			pv, st = h.Try(func() {
				var out []reflect.Value
				if ft.IsVariadic() {
					out = field.CallSlice(in)
				} else {
					out = field.Call(in)
				}
				if !out[len(out)-1].IsNil() {
					err = out[len(out)-1].Interface().(error)
				}
				got = out[:len(out)-1]
			})
		} else {
			var flat []interface{}
			for j, a := range args {
				if pft.IsVariadic() && j == len(args)-1 {
					for k := 0; k < a.Len(); k++ {
						flat = append(flat, a.Index(k).Interface())
					}
					continue
				}
				if a.Kind() == reflect.Interface && a.IsNil() {
					flat = append(flat, nil)
				} else {
					flat = append(flat, a.Interface())
				}
			}
			pv, st = h.Try(func() {
				var res []interface{}
				res, err = e.client.Invoke(spelled[fn.name], flat)
				// Invoke without return types yields one value (a list for several results)
				if err == nil {
					n := len(exp)
					switch {
					case n == 0:
					case n == 1:
						if len(res) == 1 {
							got = []reflect.Value{reflect.ValueOf(&res[0]).Elem()}
						}
					default:
						if len(res) == 1 && res[0] != nil {
							if l := reflect.ValueOf(res[0]); l.Kind() == reflect.Slice || l.Kind() == reflect.Array {
								for k := 0; k < l.Len(); k++ {
									got = append(got, l.Index(k))
								}
							}
						}
					}
				}
			})
		}
		r.Eval(1)
		how := "proxy"
		if viaInvoke {
			how = "invoke"
		}
		rep["via"] = how
		if pv != nil {
			c.Violation("client-panic:"+how+":"+fn.name+":"+h.PanicClass(fmt.Sprint(pv)), fmt.Sprintf("%v\n%s", pv, h.TrimStack(st)), rep)
			continue
		}
		recs := e.rec.take()
		if err != nil && (strings.Contains(err.Error(), "year outside") || strings.Contains(err.Error(), "year is outside")) {
			r.Stat("skipped_unencodable_year", 1)
			continue
		}
		if g.kind == "udp" && err != nil && (errors.Is(err, core.ErrRequestEntityTooLarge) || strings.Contains(err.Error(), "too large")) {
			r.Stat("skipped_udp_too_large", 1)
			continue
		}
		// invocation monitor
		if len(recs) != 1 || recs[0].name != fn.name {
			var names []string
			for _, rc := range recs {
				names = append(names, rc.name)
			}
			c.Violation("not-invoked-exactly-once:"+fn.name, fmt.Sprintf("called %q (%s): the service ran %v; caller got err=%v", spelled[fn.name], how, names, err), rep)
			continue
		}
		recArgs := recs[0].args
		if len(recArgs) != len(args) {
			c.Violation("argument-count:"+fn.name, fmt.Sprintf("passed %d, function received %d", len(args), len(recArgs)), rep)
			continue
		}
		argsOK := true
		for j := range args {
			why, und := sameValue(g.set, args[j].Type(), args[j], recArgs[j])
			if und {
				r.Stat("undetermined_interface_value", 1)
				continue
			}
			if why != "" {
				argsOK = false
				c.Violation("argument-changed:"+fn.name+":"+args[j].Type().String(), fmt.Sprintf("argument %d: %s\npassed  =%s\nreceived=%s", j, why, describe(args[j:j+1]), describe(recArgs[j:j+1])), rep)
			}
		}
		if !argsOK {
			continue
		}
		switch {
		case expPanic != nil:
			want := fmt.Sprintf("%v", expPanic)
			if err == nil {
				c.Violation("panic-became-success:"+fn.name, fmt.Sprintf("the function panicked with %q, the caller got results %s", want, describe(got)), rep)
			} else if err.Error() != want {
				c.Violation("panic-message-changed:"+fn.name, fmt.Sprintf("panic %q reached the caller as %q", want, err.Error()), rep)
			}
			r.Distinct(fmt.Sprintf("%s|%s|panic|%s", g, fn.name, how))
		case expErr != nil:
			if err == nil {
				c.Violation("error-became-success:"+fn.name, fmt.Sprintf("the function returned error %q, the caller got results %s", expErr, describe(got)), rep)
			} else if err.Error() != expErr.Error() {
				c.Violation("error-message-changed:"+fn.name, fmt.Sprintf("error %q reached the caller as %q", expErr, err.Error()), rep)
			}
			r.Distinct(fmt.Sprintf("%s|%s|error|%s", g, fn.name, how))
		default:
			if err != nil && viaInvoke && strings.Contains(err.Error(), "unhashable map key") {
				// an untyped decode cannot hold a map whose key is a byte string
				r.Stat("undetermined_interface_value", 1)
				continue
			}
			if err != nil {
				c.Violation("success-became-error:"+fn.name+":"+how, fmt.Sprintf("the function returned %s, the caller got error %q", describe(exp), err.Error()), rep)
				continue
			}
			if len(got) != len(exp) {
				c.Violation("result-count:"+fn.name+":"+how, fmt.Sprintf("function returned %d values (%s), caller got %d (%s)", len(exp), describe(exp), len(got), describe(got)), rep)
				continue
			}
			for j := range exp {
				var why string
				var und bool
				if viaInvoke {
					// untyped results: compare denotations
					ds := eqv.Denote(valueIface(exp[j]))
					if !iox.SettingCanHold(ds, g.set) {
						und = true
					} else {
						why = eqv.DEqualLoose(ds, eqv.Denote(valueIface(got[j])))
					}
				} else {
					why, und = sameValue(g.set, exp[j].Type(), exp[j], got[j])
				}
				if und {
					r.Stat("undetermined_interface_value", 1)
					continue
				}
				if why != "" {
					c.Violation("result-changed:"+fn.name+":"+how, fmt.Sprintf("result %d: %s\nreturned=%s\ngot     =%s", j, why, describe(exp[j:j+1]), describe(got[j:j+1])), rep)
				}
			}
			r.Distinct(fmt.Sprintf("%s|%s|ok|%s", g, fn.name, how))
		}
	}
}

func valueIface(v reflect.Value) interface{} {
	if !v.IsValid() {
		return nil
	}
	if v.Kind() == reflect.Interface && v.IsNil() {
		return nil
	}
	return v.Interface()
}

// missingCase: unpublished names.
func missingCase(c *h.Case, g group) {
	r := c.R
	rng := c.Rand()
	e := start(c, g)
	if e == nil {
		return
	}
	defer e.stop()
	var proxy struct {
		Unknown  func(a int, s string) (string, int, error) `name:"noSuchFunction"`
		Unknown2 func(s string) (string, int, error)        `name:"oneint2"`
		Unknown3 func() (string, int, error)                `name:"ns_sub_echo_x"`
	}
	e.client.UseService(&proxy)
	type probe struct {
		name string
		call func() (string, int, error)
		args []interface{}
	}
	s := gen.RandString(rng)
	probes := []probe{
		{"noSuchFunction", func() (string, int, error) { return proxy.Unknown(5, s) }, []interface{}{5, s}},
		{"oneint2", func() (string, int, error) { return proxy.Unknown2("fail") }, []interface{}{"fail"}},
		{"oneint2", func() (string, int, error) { return proxy.Unknown2("panic") }, []interface{}{"panic"}},
		{"ns_sub_echo_x", func() (string, int, error) { return proxy.Unknown3() }, nil},
	}
	for _, p := range probes {
		e.rec.take()
		var a string
		var n int
		var err error
		pv, st := h.Try(func() { a, n, err = p.call() })
		r.Eval(1)
		rep := map[string]interface{}{"group": g.String(), "name": p.name, "args": fmt.Sprint(p.args)}
		if pv != nil {
			c.Violation("client-panic:missing:"+h.PanicClass(fmt.Sprint(pv)), fmt.Sprintf("%v\n%s", pv, h.TrimStack(st)), rep)
			continue
		}
		recs := e.rec.take()
		if g.missing == 0 {
			if len(recs) != 0 {
				c.Violation("unpublished-name-ran-a-function", fmt.Sprintf("%q ran %s", p.name, recs[0].name), rep)
			}
			if err == nil {
				c.Violation("unpublished-name-succeeded", fmt.Sprintf("%q returned (%q, %d) although nothing is published under that name and there is no missing-method handler", p.name, a, n), rep)
			}
			r.Distinct(fmt.Sprintf("%s|missing|none", g))
			continue
		}
		if len(recs) != 1 || recs[0].name != "*" {
			var names []string
			for _, rc := range recs {
				names = append(names, rc.name)
			}
			c.Violation("missing-handler-not-invoked-once", fmt.Sprintf("%q: the service ran %v", p.name, names), rep)
			continue
		}
		gotName := recs[0].args[0].String()
		gotArgs := recs[0].args[1].Interface().([]interface{})
		if !strings.EqualFold(gotName, p.name) {
			c.Violation("missing-handler-wrong-name", fmt.Sprintf("called %q, handler got %q", p.name, gotName), rep)
		}
		if why := eqv.DEqualLoose(eqv.Denote(p.args), eqv.Denote(gotArgs)); why != "" && len(p.args) > 0 {
			c.Violation("missing-handler-arguments-changed", fmt.Sprintf("%s: passed %v got %v", why, p.args, gotArgs), rep)
		}
		switch {
		case g.missing == 1 && len(p.args) > 0 && p.args[0] == "fail":
			if err == nil || err.Error() != "missing method says no to "+gotName {
				c.Violation("error-message-changed:missing", fmt.Sprintf("got (%q,%d,%v)", a, n, err), rep)
			}
		case g.missing == 2 && len(p.args) > 0 && p.args[0] == "panic":
			if err == nil || err.Error() != "missing method panics for "+strings.ToLower(gotName) {
				c.Violation("panic-message-changed:missing", fmt.Sprintf("got (%q,%d,%v)", a, n, err), rep)
			}
		default:
			if err != nil || a != "missing:"+strings.ToLower(p.name) || n != len(p.args) {
				c.Violation("result-changed:missing", fmt.Sprintf("handler returned (%q, %d), caller got (%q, %d, %v)", "missing:"+strings.ToLower(p.name), len(p.args), a, n, err), rep)
			}
		}
		r.Distinct(fmt.Sprintf("%s|missing|%d|%s", g, g.missing, p.name))
	}
}

// concurrentCase: calls to different functions in flight at once over one client: each must run
// its own function with its own arguments.
func concurrentCase(c *h.Case, g group) {
	r := c.R
	e := start(c, g)
	if e == nil {
		return
	}
	defer e.stop()
	var proxy struct {
		OneInt     func(a int) (int, error)                   `name:"oneint"`
		TwoResults func(a int, s string) (string, int, error) `name:"TWORESULTS"`
		ErrResult  func(s string, n int) (string, error)      `name:"errResult"`
		Bool       func(b bool) (bool, error)                 `name:"bool"`
		Echo       func(s string) (string, error)             `name:"ns_sub_echo"`
		Variadic   func(p string, xs ...int) (string, int, int, error)
		Unknown    func(s string) (string, int, error) `name:"notPublished"`
	}
	e.client.UseService(&proxy)
	e.rec.take()
	const workers = 8
	rounds := 30
	if light {
		rounds = 8
	}
	var wg sync.WaitGroup
	var mu sync.Mutex
	issued := map[string]int{}
	note := func(k string) {
		mu.Lock()
		issued[k]++
		mu.Unlock()
	}
	bad := func(sig, detail string) {
		c.Violation(sig, detail, map[string]interface{}{"group": g.String()})
	}
	for w := 0; w < workers; w++ {
		wg.Add(1)
		go func(w int) {
			defer wg.Done()
			for i := 0; i < rounds; i++ {
				x := w*100000 + i
				sx := fmt.Sprintf("w%d-i%d", w, i)
				r.Eval(1)
				switch (w + i) % 7 {
				case 0:
					note(fmt.Sprintf("OneInt(%d)", x))
					if got, err := proxy.OneInt(x); err != nil || got != x*3+1 {
						bad("concurrent-wrong-result:OneInt", fmt.Sprintf("OneInt(%d) = %d, %v", x, got, err))
					}
				case 1:
					note(fmt.Sprintf("TwoResults(%d, %s)", x, sx))
					if a, b, err := proxy.TwoResults(x, sx); err != nil || a != sx+"!" || b != x-1 {
						bad("concurrent-wrong-result:TwoResults", fmt.Sprintf("TwoResults(%d,%q) = %q, %d, %v", x, sx, a, b, err))
					}
				case 2:
					note(fmt.Sprintf("ErrResult(%s, %d)", sx, x))
					got, err := proxy.ErrResult(sx, x)
					if x%2 == 0 {
						if err == nil || err.Error() != "boom: "+sx {
							bad("concurrent-wrong-result:ErrResult", fmt.Sprintf("ErrResult(%q,%d) = %q, %v; want error boom: %s", sx, x, got, err, sx))
						}
					} else if err != nil || got != sx+sx {
						bad("concurrent-wrong-result:ErrResult", fmt.Sprintf("ErrResult(%q,%d) = %q, %v", sx, x, got, err))
					}
				case 3:
					note(fmt.Sprintf("Bool(%v)", i%2 == 0))
					if got, err := proxy.Bool(i%2 == 0); err != nil || got != (i%2 != 0) {
						bad("concurrent-wrong-result:Bool", fmt.Sprintf("Bool(%v) = %v, %v", i%2 == 0, got, err))
					}
				case 4:
					note(fmt.Sprintf("ns_sub_echo(%s)", sx))
					if got, err := proxy.Echo(sx); err != nil || got != "ns:"+sx {
						bad("concurrent-wrong-result:ns_sub_echo", fmt.Sprintf("echo(%q) = %q, %v", sx, got, err))
					}
				case 5:
					note(fmt.Sprintf("Variadic(%s, [%d %d])", sx, x, i))
					if p, sum, n, err := proxy.Variadic(sx, x, i); err != nil || p != sx || sum != x+i || n != 2 {
						bad("concurrent-wrong-result:Variadic", fmt.Sprintf("Variadic(%q,%d,%d) = %q,%d,%d,%v", sx, x, i, p, sum, n, err))
					}
				case 6:
					a, n, err := proxy.Unknown(sx)
					if g.missing == 0 {
						if err == nil {
							bad("unpublished-name-succeeded", fmt.Sprintf("notPublished(%q) = %q, %d", sx, a, n))
						}
					} else {
						note("*(" + sx + ")")
						if err != nil || a != "missing:notpublished" || n != 1 {
							bad("concurrent-wrong-result:missing", fmt.Sprintf("notPublished(%q) = %q, %d, %v", sx, a, n, err))
						}
					}
				}
			}
		}(w)
	}
	wg.Wait()
	// the recorder must have seen exactly the issued multiset
	seen := map[string]int{}
	for _, rc := range e.rec.take() {
		var k string
		if rc.name == "*" {
			k = "*(" + fmt.Sprint(rc.args[1].Interface().([]interface{})[0]) + ")"
		} else {
			var parts []string
			for _, a := range rc.args {
				parts = append(parts, fmt.Sprint(a.Interface()))
			}
			k = rc.name + "(" + strings.Join(parts, ", ") + ")"
		}
		seen[k]++
	}
	for k, n := range issued {
		if seen[k] != n {
			bad("concurrent-invocations-differ", fmt.Sprintf("%s was issued %d times and ran %d times", k, n, seen[k]))
		}
	}
	for k, n := range seen {
		if issued[k] == 0 {
			bad("concurrent-invocations-differ", fmt.Sprintf("%s ran %d times and was never issued", k, n))
		}
	}
	r.Distinct(fmt.Sprintf("%s|concurrent", g))
}

// ---- proxies with nested and embedded parts ----

type adderPart struct {
	Sum func(xs ...int) (int, error)
}

type namedPart struct {
	Sum  func(xs ...int) (int, error)
	Deep struct {
		adderPart
		Sum2 func(a, b int) (int, error) `name:"sum"`
	}
}

type nestedProxy struct {
	adderPart          // embedded at the top: Sum
	Group     struct { // embedded inside a named part: Group_Sum
		adderPart
	}
	Plain  namedPart  // Plain_Sum, Plain_Deep_Sum, Plain_Deep_sum
	Ptr    *namedPart // Ptr_Sum ...
	Tagged struct {
		Total func(xs ...int) (int, error) `name:"Sum"`
	}
}

// nestedProxyCase: every function of a proxy with nested, embedded and pointer parts must be
// bound to the name its position spells (parts joined with '_'), each published as a
// different function.
func nestedProxyCase(c *h.Case, g group) {
	r := c.R
	svc := core.NewService()
	svc.Codec = core.NewServiceCodec(core.WithSimple(g.simple))
	bases := map[string]int{"Sum": 0, "Group_Sum": 1000, "Plain_Sum": 2000, "Plain_Deep_Sum": 3000, "Ptr_Sum": 4000, "Ptr_Deep_Sum": 5000, "Tagged_Sum": 6000}
	for name, base := range bases {
		base := base
		svc.AddFunction(func(xs ...int) int {
			t := base
			for _, x := range xs {
				t += x
			}
			return t
		}, name)
	}
	srv, err := peer.Start(g.kind, svc)
	if err != nil {
		r.Inconclusive(err.Error())
		return
	}
	defer srv.Close()
	client := srv.NewClient()
	client.Codec = core.NewClientCodec(core.WithSimple(g.simple))
	defer client.Abort()
	var proxy nestedProxy
	var pv interface{}
	var st string
	pv, st = h.Try(func() { client.UseService(&proxy) })
	if pv != nil {
		c.Violation("client-panic:UseService-nested:"+h.PanicClass(fmt.Sprint(pv)), fmt.Sprintf("%v\n%s", pv, h.TrimStack(st)), nil)
		return
	}
	type probe struct {
		path string
		f    func(xs ...int) (int, error)
		base int
	}
	probes := []probe{
		{"Sum (embedded at the top)", proxy.Sum, 0},
		{"Group.Sum (embedded inside a named part)", proxy.Group.Sum, 1000},
		{"Plain.Sum", proxy.Plain.Sum, 2000},
		{"Plain.Deep.Sum (embedded two levels down)", proxy.Plain.Deep.Sum, 3000},
		{"Tagged.Total (a name tag spells the whole remote name: Sum)", proxy.Tagged.Total, 0},
	}
	if proxy.Ptr != nil {
		probes = append(probes, probe{"Ptr.Sum (pointer part)", proxy.Ptr.Sum, 4000}, probe{"Ptr.Deep.Sum", proxy.Ptr.Deep.Sum, 5000})
	}
	for _, p := range probes {
		r.Eval(1)
		if p.f == nil {
			c.Violation("proxy-function-not-built", p.path+" is nil after UseService", map[string]interface{}{"group": g.String()})
			continue
		}
		got, err := p.f(1, 2, 3)
		if err != nil || got != p.base+6 {
			c.Violation("nested-proxy-bound-to-another-function", fmt.Sprintf("%s(1,2,3) = %d, %v; the function published under that name returns %d", p.path, got, err, p.base+6), map[string]interface{}{"group": g.String(), "path": p.path})
		}
		r.Distinct(fmt.Sprintf("%s|nested|%s", g, p.path))
	}
	if got, err := proxy.Plain.Deep.Sum2(4, 5); err != nil || got != 9 {
		c.Violation("nested-proxy-bound-to-another-function", fmt.Sprintf("Plain.Deep.Sum2 (name tag sum, the whole remote name) (4,5) = %d, %v; want 9", got, err), map[string]interface{}{"group": g.String()})
	}
}

func jsonRepresentable(args []reflect.Value) bool {
	for _, a := range args {
		switch a.Kind() {
		case reflect.String:
			if !utf8.ValidString(a.String()) {
				return false
			}
		case reflect.Slice:
			if a.Type().Elem().Kind() == reflect.String {
				for i := 0; i < a.Len(); i++ {
					if !utf8.ValidString(a.Index(i).String()) {
						return false
					}
				}
			}
		}
	}
	return true
}

// ---- net/rpc style methods, concrete error types ----

type Args struct{ A, B int }

type Reply struct {
	Sum   int
	Notes []string
	Seen  map[string]int
}

type Arith struct{}

// Add fills only part of the reply, depending on the arguments, and appends to the rest: a reply
// object shared between calls shows as left-overs of an earlier (or concurrent) call.
func (Arith) Add(args *Args, reply *Reply) error {
	reply.Sum += args.A + args.B
	if args.A%2 == 0 {
		reply.Notes = append(reply.Notes, fmt.Sprintf("even:%d", args.A))
	}
	if args.B%3 == 0 {
		if reply.Seen == nil {
			reply.Seen = map[string]int{}
		}
		reply.Seen[fmt.Sprint(args.B)]++
	}
	if args.A < 0 {
		return fmt.Errorf("negative operand %d", args.A)
	}
	return nil
}

type quotaError struct{ Left int }

func (e *quotaError) Error() string { return fmt.Sprintf("quota exceeded, %d left", e.Left) }

type richError interface {
	error
	Code() int
}

type codedError struct{ code int }

func (e *codedError) Error() string { return fmt.Sprintf("coded error %d", e.code) }
func (e *codedError) Code() int     { return e.code }

func netRPCCase(c *h.Case, g group) {
	r := c.R
	svc := core.NewService()
	svc.Codec = core.NewServiceCodec(core.WithSimple(g.simple))
	svc.AddNetRPCMethods(Arith{})
	svc.AddNetRPCMethods(Arith{}, "ns")
	// last results of a concrete error type and of an interface embedding error
	svc.AddFunction(func(n int) (int, *quotaError) {
		if n > 100 {
			return 0, &quotaError{Left: n - 100}
		}
		return n * 2, nil
	}, "quota")
	svc.AddFunction(func(n int) (string, richError) {
		if n%2 == 1 {
			return "", &codedError{n}
		}
		return fmt.Sprint("even ", n), nil
	}, "rich")
	srv, err := peer.Start(g.kind, svc)
	if err != nil {
		r.Inconclusive(err.Error())
		return
	}
	defer srv.Close()
	client := srv.NewClient()
	client.Codec = core.NewClientCodec(core.WithSimple(g.simple))
	client.Timeout = 20 * time.Second
	defer client.Abort()
	var proxy struct {
		Add   func(args *Args) (*Reply, error)
		NsAdd func(args *Args) (*Reply, error) `name:"ns_Add"`
		Quota func(n int) (int, error)          `name:"quota"`
		Rich  func(n int) (string, error)       `name:"rich"`
	}
	client.UseService(&proxy)
	rep := map[string]interface{}{"group": g.String()}
	check := func(how string, a Args, got *Reply, err error) {
		var want Reply
		werr := Arith{}.Add(&a, &want)
		r.Eval(1)
		if (werr == nil) != (err == nil) || werr != nil && werr.Error() != err.Error() {
			c.Violation("net-rpc-error-changed", fmt.Sprintf("%s Add(%+v): local error %v, remote error %v", how, a, werr, err), rep)
			return
		}
		if werr != nil {
			return
		}
		if got == nil || got.Sum != want.Sum || fmt.Sprint(got.Notes) != fmt.Sprint(want.Notes) || fmt.Sprint(got.Seen) != fmt.Sprint(want.Seen) {
			c.Violation("net-rpc-reply-carries-another-calls-data", fmt.Sprintf("%s Add(%+v): a fresh reply gives %+v, the caller got %+v", how, a, want, got), rep)
		}
	}
	// sequential: calls that fill different parts of the reply
	for _, a := range []Args{{2, 3}, {1, 1}, {4, 6}, {7, 9}, {-2, 3}, {3, 2}, {0, 0}, {5, 5}} {
		got, err := proxy.Add(&a)
		check("sequential", a, got, err)
		got, err = proxy.NsAdd(&a)
		check("sequential ns_", a, got, err)
	}
	// concurrent
	var wg sync.WaitGroup
	for w := 0; w < 6; w++ {
		wg.Add(1)
		go func(w int) {
			defer wg.Done()
			for i := 0; i < 12; i++ {
				a := Args{w*10 + i, i}
				got, err := proxy.Add(&a)
				check("concurrent", a, got, err)
			}
		}(w)
	}
	wg.Wait()
	// concrete error types: a typed nil means "no error"
	for _, n := range []int{1, 50, 100, 101, 500} {
		got, err := proxy.Quota(n)
		r.Eval(1)
		if n > 100 {
			if err == nil || err.Error() != fmt.Sprintf("quota exceeded, %d left", n-100) {
				c.Violation("error-message-changed:concrete-error-type", fmt.Sprintf("quota(%d): got (%d, %v)", n, got, err), rep)
			}
		} else if err != nil || got != n*2 {
			c.Violation("success-became-error:concrete-error-type", fmt.Sprintf("quota(%d) returns (%d, nil) locally; the caller got (%d, %v)", n, n*2, got, err), rep)
		}
	}
	for _, n := range []int{0, 1, 2, 7} {
		got, err := proxy.Rich(n)
		r.Eval(1)
		if n%2 == 1 {
			if err == nil || err.Error() != fmt.Sprintf("coded error %d", n) {
				c.Violation("error-message-changed:error-interface-type", fmt.Sprintf("rich(%d): got (%q, %v)", n, got, err), rep)
			}
		} else if err != nil || got != fmt.Sprint("even ", n) {
			c.Violation("success-became-error:error-interface-type", fmt.Sprintf("rich(%d): the caller got (%q, %v)", n, got, err), rep)
		}
	}
	r.Distinct(fmt.Sprintf("%s|netrpc", g))
}

// twoServices: one client addresses two services in turn (changing its URI); every call must
// reach the service that is addressed.
func twoServices(c *h.Case, g group) {
	r := c.R
	mk := func(tag string) (*peer.Server, error) {
		svc := core.NewService()
		svc.AddFunction(func(s string) string { return tag + ":" + s }, "who")
		return peer.Start(g.kind, svc)
	}
	a, err := mk("service-A")
	if err != nil {
		r.Inconclusive(err.Error())
		return
	}
	defer a.Close()
	b, err := mk("service-B")
	if err != nil {
		r.Inconclusive(err.Error())
		return
	}
	defer b.Close()
	client := core.NewClient(a.URL)
	client.Timeout = 10 * time.Second
	defer client.Abort()
	var proxy struct {
		Who func(s string) (string, error) `name:"who"`
	}
	client.UseService(&proxy)
	for i := 0; i < 8; i++ {
		srv, tag := a, "service-A"
		if i%2 == 1 {
			srv, tag = b, "service-B"
		}
		client.SetURI(srv.URL)
		got, err := proxy.Who(fmt.Sprint(i))
		r.Eval(1)
		if err != nil || got != fmt.Sprintf("%s:%d", tag, i) {
			c.Violation("call-reached-another-service", fmt.Sprintf("the client was pointed at %s (%s) and who(%d) returned (%q, %v)", tag, srv.URL, i, got, err), map[string]interface{}{"group": g.String()})
			break
		}
	}
	r.Distinct(fmt.Sprintf("%s|two-services", g))
}
