//go:build go1.25

// C17 — limiters bound concurrency and rate and never lose permits. Runs under virtual time.
package c17

import (
	"context"
	"errors"
	"fmt"
	"math"
	"sort"
	"sync"
	"sync/atomic"
	"testing"
	"testing/synctest"
	"time"

	hio "github.com/hprose/hprose-golang/v3/io"
	"github.com/hprose/hprose-golang/v3/rpc/core"
	"github.com/hprose/hprose-golang/v3/rpc/plugins/limiter"
	"verif/internal/h"
)

var okResp = func() []byte { b, _ := hio.Marshal("ok"); return append(append([]byte("R"), b...), 'z') }()

func TestCheck(t *testing.T) {
	r := h.Start(t, "C17")
	defer r.Finish()
	r.Meta("rule", "under virtual time. Concurrent limiter: max in {1,2,5} x limiter timeout {none, 1ms, 20ms, 1s} x seeded arrival scripts of 1..64 requests (arrival instants on a 1 ms grid so that timeouts, arrivals and releases coincide), service times 0..30 ms, outcomes return/error/panic/core.ErrTimeout or context.DeadlineExceeded answered by the next handler (what a time-limited handler further down returns); monitors: in-flight counter inside the next handler (maximum must be <= max), exact return instant of timed-out waiters, ConcurrentRequests()==0 at quiescence, and a fresh batch of max requests released at one instant must all be inside simultaneously afterwards (not wedged, no permit lost or leaked). Rate limiter: rate in {1,10,1000}/s x maxPermits {inf,0,1,10} x timeout {0, 50ms, exact boundaries +-1ns} x token sizes (invoke path 1 token, IO path len(request)) x sequential arrival scripts: every window [i,j] of admissions is checked against burst + rate*elapsed + slack, every rejection against a reference bucket charged with admitted requests only, every wait against the timeout; concurrent: same-instant parallel bursts against a full bucket. distinct_nontrivial = distinct (limiter configuration, script) pairs with at least one contended or delayed request Added: callers that cancel their own context (deadline and explicit cancellation) while queued at the concurrent limiter; maxPermits 0.")
	r.Meta("assumptions", []string{
		"rate window slack = 2*kmax tokens (pay-later admission: a request is admitted when the previous debt is paid, its own tokens are charged afterwards; cap applied after subtraction)",
		"a rejection is reported only if even a strict token bucket (admitted requests only) would have had the tokens within the timeout: tokens - available <= timeout*rate",
		"a limiter timeout racing with a release at the same virtual instant may go either way",
	})
	for _, max := range []int{1, 2, 5} {
		for _, to := range []time.Duration{0, time.Millisecond, 20 * time.Millisecond, time.Second} {
			n := r.Pick(40, 600)
			for k := 0; k < n; k++ {
				max, to, k := max, to, k
				r.Case(fmt.Sprintf("concurrent/max%d/timeout%v/%d", max, to, k), func(c *h.Case) {
					synctest.Test(t, func(t *testing.T) { concurrentLimiterCase(c, max, to, k) })
				})
			}
		}
	}
	for _, rate := range []int64{1, 10, 1000} {
		for _, mp := range []float64{math.Inf(1), 0, 1, 10} {
			for _, to := range []time.Duration{0, 50 * time.Millisecond} {
				n := r.Pick(40, 600)
				for k := 0; k < n; k++ {
					rate, mp, to, k := rate, mp, to, k
					r.Case(fmt.Sprintf("rate/%dps/max%v/timeout%v/%d", rate, mp, to, k), func(c *h.Case) {
						synctest.Test(t, func(t *testing.T) { rateSequentialCase(c, rate, mp, to, k) })
					})
				}
			}
		}
	}
	for _, rate := range []int64{300000000, 700000000, 123456789, 1500000000, 3000000000, 999999999, 7} {
		rate := rate
		r.Case(fmt.Sprintf("rate/byte-rate/%dps", rate), func(c *h.Case) {
			synctest.Test(t, func(t *testing.T) { byteRateCase(c, rate) })
		})
	}
	r.Case("rate/timeout-boundaries", func(c *h.Case) {
		synctest.Test(t, func(t *testing.T) { rateBoundaryCase(c) })
	})
	r.Case("rate/starvation-after-rejections", func(c *h.Case) {
		synctest.Test(t, func(t *testing.T) { rateStarvationCase(c) })
	})
	nb := r.Pick(6, 40)
	for k := 0; k < nb; k++ {
		k := k
		r.Case(fmt.Sprintf("rate/parallel-burst/%d", k), func(c *h.Case) {
			synctest.Test(t, func(t *testing.T) { rateBurstCase(c, k) })
		})
	}
}

// ---- concurrent limiter ----

type creq struct {
	arrive  time.Duration
	service time.Duration
	outcome byte
	cancel  time.Duration // > 0: the caller cancels its own context this long after arriving
	// observed
	entered  bool
	enterAt  time.Duration
	returnAt time.Duration
	err      error
	panicked interface{}
}

func concurrentLimiterCase(c *h.Case, max int, to time.Duration, k int) {
	r := c.R
	rng := c.Rand()
	n := 1 + rng.Intn(64)
	if k%7 == 0 {
		n = 64
	}
	reqs := make([]*creq, n)
	for i := range reqs {
		reqs[i] = &creq{
			arrive:  time.Duration(rng.Intn(40)) * time.Millisecond,
			service: []time.Duration{0, time.Millisecond, 5 * time.Millisecond, 20 * time.Millisecond, 30 * time.Millisecond}[rng.Intn(5)],
			outcome: "SSSEPTD"[rng.Intn(7)],
		}
		if k%5 == 0 {
			reqs[i].arrive = time.Duration(rng.Intn(3)) * time.Millisecond // heavy contention
		}
		if to > 0 && k%3 == 1 && rng.Intn(4) == 0 {
			// callers that give up on their own, before or after the limiter would
			reqs[i].cancel = []time.Duration{time.Millisecond, 3 * time.Millisecond, 10 * time.Millisecond, 19 * time.Millisecond, 25 * time.Millisecond}[rng.Intn(5)]
		}
	}
	var lim *limiter.ConcurrentLimiter
	if to > 0 {
		lim = limiter.NewConcurrentLimiter(max, to)
	} else {
		lim = limiter.NewConcurrentLimiter(max)
	}
	var inflight, maxInflight int64
	t0 := time.Now()
	term := func(ctx context.Context, request []byte, next core.NextIOHandler) ([]byte, error) {
		q := ctx.Value(reqKey{}).(*creq)
		cur := atomic.AddInt64(&inflight, 1)
		for {
			m := atomic.LoadInt64(&maxInflight)
			if cur <= m || atomic.CompareAndSwapInt64(&maxInflight, m, cur) {
				break
			}
		}
		defer atomic.AddInt64(&inflight, -1)
		q.entered = true
		q.enterAt = time.Since(t0)
		if q.service > 0 {
			time.Sleep(q.service)
		}
		switch q.outcome {
		case 'E':
			return nil, errors.New("service error")
		case 'P':
			panic("service panic")
		case 'T':
			// what a time-limited handler further down (a rate limiter, a time-out plugin) answers
			return nil, core.ErrTimeout
		case 'D':
			return nil, context.DeadlineExceeded
		}
		return okResp, nil
	}
	client := core.NewClient("mock://x")
	client.Use(lim, core.IOHandler(term))
	var wg sync.WaitGroup
	for _, q := range reqs {
		q := q
		wg.Add(1)
		go func() {
			defer wg.Done()
			time.Sleep(q.arrive)
			ctx := context.WithValue(context.Background(), reqKey{}, q)
			if q.cancel > 0 {
				var cancel context.CancelFunc
				if (q.arrive/time.Millisecond+q.cancel/time.Millisecond)%2 == 0 {
					// a deadline of the caller's own
					ctx, cancel = context.WithTimeout(ctx, q.cancel)
				} else {
					// an explicit cancellation
					ctx, cancel = context.WithCancel(ctx)
					d := q.cancel
					over := make(chan struct{})
					defer close(over) // (a goroutine still asleep when the bubble ends is a synctest deadlock)
					go func() {
						select {
						case <-time.After(d):
							cancel()
						case <-over:
						}
					}()
				}
				defer cancel()
			}
			q.panicked, _ = h.Try(func() { _, q.err = client.InvokeContext(ctx, "f", nil) })
			q.returnAt = time.Since(t0)
		}()
	}
	wg.Wait()
	r.Eval(int64(n))
	rep := map[string]interface{}{"max": max, "limiter_timeout": to.String(), "requests": describe(reqs)}
	sig := fmt.Sprintf("max%d:timeout%v", max, to)
	if m := atomic.LoadInt64(&maxInflight); m > int64(max) {
		c.Violation("more-than-max-concurrent:"+sig, fmt.Sprintf("%d requests were inside the next handler at once, limit %d", m, max), rep)
	}
	r.StatMax("max_inflight_observed", atomic.LoadInt64(&maxInflight))
	contended := false
	for i, q := range reqs {
		if q.err == core.ErrTimeout && !(q.entered && q.outcome == 'T') {
			r.Stat("limiter_timeouts", 1)
			contended = true
			if q.entered {
				c.Violation("timed-out-request-was-executed:"+sig, fmt.Sprintf("request %d returned ErrTimeout but entered the next handler", i), rep)
			}
			if to == 0 {
				c.Violation("timeout-without-timeout-configured:"+sig, fmt.Sprintf("request %d", i), rep)
			} else if want := q.arrive + minDur(to, q.cancel); q.returnAt != want {
				c.Violation("timeout-at-the-wrong-instant:"+sig, fmt.Sprintf("request %d arrived at %v with limiter timeout %v and timed out at %v", i, q.arrive, to, q.returnAt), rep)
			}
			continue
		}
		if !q.entered {
			c.Violation("request-neither-executed-nor-timed-out:"+sig, fmt.Sprintf("request %d: err=%v panic=%v", i, q.err, q.panicked), rep)
			continue
		}
		if q.enterAt > q.arrive {
			contended = true
			r.Stat("requests_that_waited", 1)
			if to > 0 && q.enterAt-q.arrive > to {
				c.Violation("waited-longer-than-timeout:"+sig, fmt.Sprintf("request %d waited %v, limiter timeout %v", i, q.enterAt-q.arrive, to), rep)
			}
		}
		switch q.outcome {
		case 'S':
			if q.err != nil || q.panicked != nil {
				c.Violation("successful-request-failed:"+sig, fmt.Sprintf("request %d: err=%v panic=%v", i, q.err, q.panicked), rep)
			}
		case 'E':
			if q.err == nil || q.err.Error() != "service error" {
				c.Violation("error-not-propagated:"+sig, fmt.Sprintf("request %d: err=%v", i, q.err), rep)
			}
		case 'T', 'D':
			if want := map[byte]error{'T': core.ErrTimeout, 'D': context.DeadlineExceeded}[q.outcome]; q.err != want {
				c.Violation("error-not-propagated:"+sig, fmt.Sprintf("request %d: the next handler answered %v, the caller got err=%v", i, want, q.err), rep)
			}
		}
	}
	// quiescence
	if got := lim.ConcurrentRequests(); got != 0 {
		c.Violation("permits-not-returned:"+sig, fmt.Sprintf("all %d requests have ended but ConcurrentRequests()=%d", n, got), rep)
	}
	// capacity intact: max requests released at one instant must all be inside together
	var in2, max2 int64
	gate := make(chan struct{})
	term2done := make(chan struct{})
	_ = term2done
	client2 := core.NewClient("mock://x")
	client2.Use(lim, core.IOHandler(func(ctx context.Context, request []byte, next core.NextIOHandler) ([]byte, error) {
		cur := atomic.AddInt64(&in2, 1)
		for {
			m := atomic.LoadInt64(&max2)
			if cur <= m || atomic.CompareAndSwapInt64(&max2, m, cur) {
				break
			}
		}
		time.Sleep(10 * time.Millisecond)
		atomic.AddInt64(&in2, -1)
		return okResp, nil
	}))
	var wg2 sync.WaitGroup
	var fails int64
	for i := 0; i < max; i++ {
		wg2.Add(1)
		go func() {
			defer wg2.Done()
			<-gate
			// a private limiter timeout is not available here: use the configured one; a
			// wedged limiter shows as ErrTimeout (timeout>0) or as a deadlock (timeout 0)
			if _, err := client2.Invoke("f", nil); err != nil {
				atomic.AddInt64(&fails, 1)
			}
		}()
	}
	close(gate)
	wg2.Wait()
	r.Eval(int64(max))
	if fails > 0 || atomic.LoadInt64(&max2) != int64(max) {
		c.Violation("limiter-wedged-or-capacity-lost:"+sig, fmt.Sprintf("after the history a batch of %d simultaneous requests: %d failed, %d were inside together", max, fails, max2), rep)
	}
	if got := lim.ConcurrentRequests(); got != 0 {
		c.Violation("permits-not-returned:"+sig, fmt.Sprintf("after the probe batch ConcurrentRequests()=%d", got), rep)
	}
	if contended {
		r.Distinct(fmt.Sprintf("cl|%d|%v|%d", max, to, k))
	}
	if k == 0 {
		r.Sample(map[string]interface{}{"limiter": "concurrent", "max": max, "timeout": to.String(), "requests": n, "max_inflight": maxInflight, "script_head": describe(reqs[:minInt(4, len(reqs))])})
	}
}

type reqKey struct{}

// minDur returns the smaller positive duration (b == 0 means none).
func minDur(a, b time.Duration) time.Duration {
	if b > 0 && b < a {
		return b
	}
	return a
}

func describe(reqs []*creq) []string {
	var out []string
	for i, q := range reqs {
		if i >= 70 {
			break
		}
		out = append(out, fmt.Sprintf("#%d arrive=%v service=%v outcome=%c cancel=%v entered=%v enterAt=%v returnAt=%v err=%v", i, q.arrive, q.service, q.outcome, q.cancel, q.entered, q.enterAt, q.returnAt, q.err))
	}
	return out
}

func minInt(a, b int) int {
	if a < b {
		return a
	}
	return b
}

// ---- rate limiter ----

type rreq struct {
	arrive time.Duration
	tokens int
	// observed
	admitted bool
	doneAt   time.Duration
	err      error
}

// refBucket is a strict token bucket charged with admitted requests only.
type refBucket struct {
	rate  float64 // tokens per ns
	burst float64
	avail float64
	at    time.Duration
}

func (b *refBucket) advance(t time.Duration) {
	b.avail += float64(t-b.at) * b.rate
	if b.avail > b.burst {
		b.avail = b.burst
	}
	b.at = t
}

func runRate(lim *limiter.RateLimiter, reqs []*rreq, t0 time.Time, useIO bool) {
	ctx := context.Background()
	for _, q := range reqs {
		if d := q.arrive - time.Since(t0); d > 0 {
			time.Sleep(d)
		}
		q.arrive = time.Since(t0)
		if useIO {
			_, q.err = lim.IOHandler(ctx, make([]byte, q.tokens), func(ctx context.Context, request []byte) ([]byte, error) { return okResp, nil })
		} else {
			_, q.err = lim.InvokeHandler(ctx, "f", nil, func(ctx context.Context, name string, args []interface{}) ([]interface{}, error) { return nil, nil })
		}
		q.doneAt = time.Since(t0)
		q.admitted = q.err == nil
	}
}

func checkRate(c *h.Case, reqs []*rreq, rate int64, mp float64, to time.Duration, sig string, rep map[string]interface{}) {
	r := c.R
	ratePerNs := float64(rate) / 1e9
	kmax := 0
	for _, q := range reqs {
		if q.tokens > kmax {
			kmax = q.tokens
		}
	}
	// (1) window bound over admissions (admission instant = when the handler was entered)
	var adm []*rreq
	for _, q := range reqs {
		if q.admitted {
			adm = append(adm, q)
		}
	}
	sort.SliceStable(adm, func(i, j int) bool { return adm[i].doneAt < adm[j].doneAt })
	burst := mp
	for i := range adm {
		sum := 0.0
		for j := i; j < len(adm); j++ {
			sum += float64(adm[j].tokens)
			elapsed := float64(adm[j].doneAt - adm[i].doneAt)
			var bound float64
			if math.IsInf(burst, 1) {
				// unlimited burst: only the total since creation is bounded (the bucket starts empty)
				if i != 0 {
					continue
				}
				bound = float64(rate)*float64(adm[j].doneAt)/1e9 + 2*float64(kmax)
			} else {
				bound = burst + ratePerNs*elapsed + 2*float64(kmax)
			}
			if sum > bound+1e-6 {
				c.Violation("rate-exceeded:"+sig, fmt.Sprintf("admissions %d..%d: %v tokens in %v, bound %.3f (burst %v + rate %d/s x elapsed + 2x%d)", i, j, sum, time.Duration(elapsed), bound, burst, rate, kmax), rep)
				return
			}
		}
	}
	// (2) rejections and waits
	ref := &refBucket{rate: ratePerNs, burst: mp}
	for i, q := range reqs {
		ref.advance(q.arrive)
		if q.err != nil {
			if q.err != core.ErrTimeout {
				c.Violation("unexpected-error:"+sig, fmt.Sprintf("request %d: %v", i, q.err), rep)
				continue
			}
			r.Stat("rate_rejections", 1)
			if to == 0 {
				c.Violation("rejected-without-timeout-configured:"+sig, fmt.Sprintf("request %d", i), rep)
				continue
			}
			need := (float64(q.tokens) - ref.avail) / ratePerNs // ns a strict bucket would wait
			if need <= float64(to)-1 {
				c.Violation("rejected-although-wait-within-timeout:"+sig, fmt.Sprintf("request %d (%d tokens) at %v was rejected with ErrTimeout; a bucket charged with the admitted requests holds %.3f tokens, the wait needed is %v <= timeout %v", i, q.tokens, q.arrive, ref.avail, time.Duration(need), to), rep)
			}
			if q.doneAt != q.arrive {
				c.Violation("rejection-not-immediate:"+sig, fmt.Sprintf("request %d rejected after %v", i, q.doneAt-q.arrive), rep)
			}
			continue
		}
		waited := q.doneAt - q.arrive
		if waited > 0 {
			r.Stat("rate_requests_delayed", 1)
		}
		if to > 0 && waited > to {
			c.Violation("waited-longer-than-timeout:"+sig, fmt.Sprintf("request %d waited %v, timeout %v", i, waited, to), rep)
		}
		ref.avail -= float64(q.tokens)
	}
}

func rateSequentialCase(c *h.Case, rate int64, mp float64, to time.Duration, k int) {
	r := c.R
	rng := c.Rand()
	useIO := k%2 == 1
	n := 5 + rng.Intn(60)
	unit := time.Second / time.Duration(rate) // one token period
	reqs := make([]*rreq, n)
	at := time.Duration(0)
	for i := range reqs {
		switch rng.Intn(6) {
		case 0: // long idle: fill the bucket
			at += unit * time.Duration(5+rng.Intn(30))
		case 1, 2: // same instant
		case 3:
			at += unit / 2
		default:
			at += unit * time.Duration(rng.Intn(3))
		}
		tk := 1
		if useIO {
			tk = []int{0, 1, 1, 2, 3, 7, 15}[rng.Intn(7)]
		}
		reqs[i] = &rreq{arrive: at, tokens: tk}
	}
	opts := []limiter.Option{}
	if !math.IsInf(mp, 1) {
		opts = append(opts, limiter.WithMaxPermits(mp))
	}
	if to > 0 {
		opts = append(opts, limiter.WithTimeout(to))
	}
	t0 := time.Now()
	lim := limiter.NewRateLimiter(rate, opts...)
	runRate(lim, reqs, t0, useIO)
	r.Eval(int64(n))
	rep := map[string]interface{}{"rate_per_s": rate, "max_permits": fmt.Sprint(mp), "timeout": to.String(), "io_path": useIO, "requests": describeRate(reqs)}
	sig := fmt.Sprintf("%dps:max%v:timeout%v", rate, mp, to)
	checkRate(c, reqs, rate, mp, to, sig, rep)
	r.Distinct(fmt.Sprintf("rl|%d|%v|%v|%d", rate, mp, to, k))
	if k == 1 {
		r.Sample(map[string]interface{}{"limiter": "rate", "rate_per_s": rate, "max_permits": fmt.Sprint(mp), "timeout": to.String(), "script_head": describeRate(reqs[:minInt(6, len(reqs))])})
	}
}

func describeRate(reqs []*rreq) []string {
	var out []string
	for i, q := range reqs {
		if i >= 80 {
			break
		}
		out = append(out, fmt.Sprintf("#%d arrive=%v tokens=%d admitted=%v done=%v err=%v", i, q.arrive, q.tokens, q.admitted, q.doneAt, q.err))
	}
	return out
}

// byteRateCase: the IO path charges len(request) tokens: rates of hundreds of MB/s, rates that
// do not divide 1e9 and rates above 1e9/s (token period below one nanosecond).
func byteRateCase(c *h.Case, rate int64) {
	r := c.R
	rng := c.Rand()
	for _, mp := range []float64{0, 1000, math.Inf(1)} {
		size := int(rate / 200) // 5 ms worth of tokens per request
		if size < 1 {
			size = 1
		}
		n := 80
		reqs := make([]*rreq, n)
		at := time.Duration(0)
		for i := range reqs {
			if rng.Intn(4) == 0 {
				at += time.Duration(rng.Intn(8)) * time.Millisecond
			}
			reqs[i] = &rreq{arrive: at, tokens: size/2 + rng.Intn(size+1)}
		}
		opts := []limiter.Option{}
		if !math.IsInf(mp, 1) {
			opts = append(opts, limiter.WithMaxPermits(mp))
		}
		t0 := time.Now()
		lim := limiter.NewRateLimiter(rate, opts...)
		// the IO path without allocating megabyte requests: Acquire is what IOHandler calls
		ctx := context.Background()
		for _, q := range reqs {
			if d := q.arrive - time.Since(t0); d > 0 {
				time.Sleep(d)
			}
			q.arrive = time.Since(t0)
			q.err = lim.Acquire(ctx, q.tokens)
			q.doneAt = time.Since(t0)
			q.admitted = q.err == nil
		}
		r.Eval(int64(n))
		rep := map[string]interface{}{"rate_per_s": rate, "max_permits": fmt.Sprint(mp), "requests": describeRate(reqs[:20])}
		checkRate(c, reqs, rate, mp, 0, fmt.Sprintf("byte-rate:%dps:max%v", rate, mp), rep)
		r.Distinct(fmt.Sprintf("br|%d|%v", rate, mp))
	}
}

// rateBoundaryCase: the wait needed is exactly timeout-1ns, timeout, timeout+1ns.
func rateBoundaryCase(c *h.Case) {
	r := c.R
	for _, rate := range []int64{10, 1000} {
		unit := time.Second / time.Duration(rate)
		for _, off := range []time.Duration{-time.Nanosecond, 0, time.Nanosecond} {
			// after the first (immediately admitted) request the debt is one unit: a second
			// request at the same instant needs to wait exactly one unit
			to := unit + off
			t0 := time.Now()
			lim := limiter.NewRateLimiter(rate, limiter.WithTimeout(to), limiter.WithMaxPermits(1))
			reqs := []*rreq{{arrive: 0, tokens: 1}, {arrive: 0, tokens: 1}, {arrive: 5 * unit, tokens: 1}, {arrive: 5 * unit, tokens: 1}}
			runRate(lim, reqs, t0, false)
			r.Eval(4)
			rep := map[string]interface{}{"rate_per_s": rate, "timeout": to.String(), "requests": describeRate(reqs)}
			sig := fmt.Sprintf("boundary:%dps", rate)
			checkRate(c, reqs, rate, 1, to, sig, rep)
			// the wait needed (one unit) exceeds the timeout only for off < 0
			second := reqs[1]
			if off >= 0 && second.err != nil {
				c.Violation("rejected-although-wait-within-timeout:"+sig, fmt.Sprintf("wait needed %v, timeout %v: %v", unit, to, second.err), rep)
			}
			if off >= 0 && second.err == nil && second.doneAt-second.arrive != unit {
				c.Violation("wrong-wait:"+sig, fmt.Sprintf("second request waited %v, expected %v", second.doneAt-second.arrive, unit), rep)
			}
			r.Distinct(fmt.Sprintf("rb|%d|%v", rate, off))
		}
	}
}

// rateStarvationCase: a flood of rejected requests must not consume the permits of later ones.
func rateStarvationCase(c *h.Case) {
	r := c.R
	for _, flood := range []int{1, 10, 100} {
		rate := int64(10)
		to := 50 * time.Millisecond
		t0 := time.Now()
		lim := limiter.NewRateLimiter(rate, limiter.WithTimeout(to), limiter.WithMaxPermits(5))
		var reqs []*rreq
		reqs = append(reqs, &rreq{arrive: 0, tokens: 1})
		for i := 0; i < flood; i++ {
			reqs = append(reqs, &rreq{arrive: 0, tokens: 1})
		}
		// one second later a strict bucket holds min(5, -1+10) = 5 tokens
		reqs = append(reqs, &rreq{arrive: time.Second, tokens: 1}, &rreq{arrive: time.Second, tokens: 1})
		runRate(lim, reqs, t0, false)
		r.Eval(int64(len(reqs)))
		rep := map[string]interface{}{"flood_of_rejected_requests": flood, "requests": describeRate(reqs[maxInt(0, len(reqs)-6):])}
		checkRate(c, reqs, rate, 5, to, fmt.Sprintf("starvation:flood%d", flood), rep)
		r.Distinct(fmt.Sprintf("rs|%d", flood))
	}
}

func maxInt(a, b int) int {
	if a > b {
		return a
	}
	return b
}

// rateBurstCase: let the bucket fill to B, then G goroutines acquire in parallel at one virtual
// instant with a 1 ns timeout (nobody ever sleeps): admitted <= B + slack.
func rateBurstCase(c *h.Case, k int) {
	r := c.R
	B := []float64{1000, 50000, 400000}[k%3]
	G := []int{2, 8, 16}[(k/3)%3]
	rate := int64(1000000)
	lim := limiter.NewRateLimiter(rate, limiter.WithMaxPermits(B), limiter.WithTimeout(time.Nanosecond))
	time.Sleep(time.Duration(B/float64(rate)*float64(time.Second)) + time.Second) // bucket full
	var admitted int64
	var wg sync.WaitGroup
	gate := make(chan struct{})
	ctx := context.Background()
	limit := int64(B) * 4
	for g := 0; g < G; g++ {
		wg.Add(1)
		go func() {
			defer wg.Done()
			<-gate
			for atomic.LoadInt64(&admitted) < limit {
				if err := lim.Acquire(ctx, 1); err != nil {
					return
				}
				atomic.AddInt64(&admitted, 1)
			}
		}()
	}
	t1 := time.Now()
	close(gate)
	wg.Wait()
	el := time.Since(t1)
	got := atomic.LoadInt64(&admitted)
	r.Eval(got)
	bound := int64(B) + int64(float64(rate)*el.Seconds()) + 2 + int64(G)
	rep := map[string]interface{}{"burst": B, "goroutines": G, "admitted": got, "virtual_elapsed": el.String(), "bound": bound}
	if got > bound {
		c.Violation(fmt.Sprintf("rate-exceeded:parallel-burst:G%d", G), fmt.Sprintf("a full bucket of %v permits, %d goroutines acquiring single permits at one virtual instant (elapsed %v): %d admitted, bound %d", B, G, el, got, bound), rep)
	}
	r.StatMax("max_parallel_burst_admitted_over_bound_permille", got*1000/bound)
	r.Distinct(fmt.Sprintf("burst|%v|%d", B, G))
	if k == 0 {
		r.Sample(rep)
	}
}
