// C14 — serialization is safe under concurrency; pooled coders leak no state; decoded values
// do not alias the input.
package c14

import (
	"bytes"
	"context"
	"fmt"
	"math/big"
	"reflect"
	"runtime"
	"strings"
	"sync"
	"sync/atomic"
	"testing"
	"time"
	"unsafe"

	hio "github.com/hprose/hprose-golang/v3/io"
	"github.com/hprose/hprose-golang/v3/rpc/core"
	"verif/internal/corpus"
	"verif/internal/eqv"
	"verif/internal/fresh"
	"verif/internal/gentypes"
	"verif/internal/h"
	"verif/internal/hpref"
	"verif/internal/iox"
)

var mono0 = time.Now()

func now() int64 { return int64(time.Since(mono0)) }

type result struct {
	item    int
	op      string
	data    []byte
	val     reflect.Value
	err     error
	panic   interface{}
	stack   string
	t0, t1  int64
	dataRef []byte
}

func TestCheck(t *testing.T) {
	r := h.Start(t, "C14")
	defer r.Finish()
	r.Meta("rule", "(A) first use: per process 300 named struct types (75 groups of 4 mutually nested types) that nothing has touched; per group 2/8/32 goroutines are released by a barrier to Marshal (simple and reference mode), Encode, or Unmarshal (stream written by the independent writer) values of the group's types simultaneously, so that nested types are first-used through different outer types at once; every result is compared with the independent reader/writer and with the single-goroutine result computed afterwards. (B) warm stress: 16 goroutines round-trip the shared C01 corpus concurrently. (C) pool hygiene: all sequences of length <= 4 (exhaustive) over 12 kinds of use of pooled encoders/decoders and RPC codecs (simple ok, reference with back-references, failing input, decoder options, reader mode, codec with options ...), each compared with the same use through a freshly allocated coder. (D) aliasing: decoded values are printed, the input buffer is overwritten and 200 unrelated pooled operations are run, then printed again. The race detector observes all of it (race pass). distinct_nontrivial = distinct (group, goroutine role) first-use windows whose call intervals overlapped another goroutine's + distinct pool sequences + aliasing cases Added: pool users that set no decoder option at all (Unmarshal, UnmarshalFromReader, Formatter{} in reference mode) and one that sets every option to its non-default value, with dynamic result types in the rendering; a memory monitor over every decoded value (no byte slice up to its capacity and no string lies inside the input buffer; appending within capacity to decoded byte slices leaves the input unchanged) with empty and one-element values in the corpus; responses handed out by Service.Handle and arguments kept by a function stay unchanged over 60 later requests and an overwritten request buffer; six encoders and six decoders held at once are distinct objects after succeeding, failing and panicking uses.")
	r.Meta("assumptions", []string{
		"the first-use window can only be sampled, not forced: the evidence reports for how many fresh types the first calls of at least two goroutines overlapped in time (monotonic timestamps around each first call)",
		"byte comparisons avoid multi-entry maps (iteration order); those are compared by decoding",
		"a data race reported by the race detector in io/, internal/convert or the rpc/core codecs is a violation by definition of the property",
	})
	phaseFresh(r)
	phaseWarm(r)
	phasePool(r)
	phaseAlias(r)
}

// ---- (A) fresh types ----

func phaseFresh(r *h.Run) {
	for gi, g := range fresh.Groups {
		gi, g := gi, g
		r.CaseAll(fmt.Sprintf("fresh/%s", g.Name), func(c *h.Case) { freshGroup(c, gi, g) })
	}
}

func freshGroup(c *h.Case, gi int, g fresh.Group) {
	r := c.R
	vals := g.Values()
	// independent expectations, computed without touching the library
	var want [4]*eqv.D
	var stream [4][]byte
	for i := range vals {
		want[i] = eqv.Denote(vals[i])
		stream[i] = hpref.Marshal(want[i])
	}
	G := []int{2, 8, 32}[(gi+r.Shard)%3]
	mode := (gi/3 + r.Shard) % 3 // 0: encode only, 1: decode only, 2: mixed
	results := make([]result, G)
	var ready, done sync.WaitGroup
	start := make(chan struct{})
	ready.Add(G)
	done.Add(G)
	for k := 0; k < G; k++ {
		k := k
		go func() {
			defer done.Done()
			res := &results[k]
			res.item = (k + gi) % 4
			ops := []string{"marshal-simple", "marshal-ref", "encoder", "unmarshal"}
			switch mode {
			case 0:
				res.op = ops[k%3]
			case 1:
				res.op = "unmarshal"
			default:
				res.op = ops[k%4]
			}
			var dst interface{}
			if res.op == "unmarshal" {
				dst = g.Dests()[res.item]
			}
			ready.Done()
			<-start
			res.t0 = now()
			res.panic, res.stack = h.Try(func() {
				switch res.op {
				case "marshal-simple":
					res.data, res.err = hio.Marshal(vals[res.item])
				case "marshal-ref":
					res.data, res.err = hio.Formatter{Simple: false}.Marshal(vals[res.item])
				case "encoder":
					enc := new(hio.Encoder).Simple(true)
					res.err = enc.Encode(vals[res.item])
					res.data = enc.Bytes()
				case "unmarshal":
					res.err = hio.Unmarshal(append([]byte(nil), stream[res.item]...), dst)
					res.val = reflect.ValueOf(dst)
				}
			})
			res.t1 = now()
		}()
	}
	ready.Wait()
	close(start)
	done.Wait()
	r.Eval(int64(G))
	// contention: did this goroutine's first call overlap another one's?
	for i := range results {
		for j := range results {
			if i != j && results[i].t0 < results[j].t1 && results[j].t0 < results[i].t1 {
				r.Stat("first_use_calls_overlapping_another", 1)
				r.Distinct(fmt.Sprintf("fresh|%d|%s|%d|%s|%d", r.Shard, g.Name, i, results[i].op, results[i].item))
				break
			}
		}
	}
	r.Stat("first_use_calls", int64(G))
	// warm references, single goroutine, after the concurrent phase
	var refSimple, refRef [4][]byte
	for i := range vals {
		refSimple[i], _ = hio.Marshal(vals[i])
		refRef[i], _ = hio.Formatter{Simple: false}.Marshal(vals[i])
	}
	for k, res := range results {
		rep := map[string]interface{}{"group": g.Name, "goroutines": G, "goroutine": k, "op": res.op, "item": res.item, "bytes": h.Hex(res.data)}
		typ := reflect.TypeOf(vals[res.item]).Elem().Name()
		_ = typ
		if res.panic != nil {
			c.Violation("first-use-panic:"+res.op+":"+h.PanicClass(fmt.Sprint(res.panic))+"@"+h.FirstRepoFrame(res.stack), fmt.Sprintf("%s of a fresh type panicked with %d goroutines: %v\n%s", res.op, G, res.panic, h.TrimStack(res.stack)), rep)
			continue
		}
		if res.err != nil {
			c.Violation("first-use-error:"+res.op, fmt.Sprintf("%s of a fresh type failed with %d goroutines: %v (stream %s)", res.op, G, res.err, h.Hex(stream[res.item])), rep)
			continue
		}
		switch res.op {
		case "unmarshal":
			if why := eqv.Equal(reflect.ValueOf(vals[res.item]), res.val); why != "" {
				c.Violation("first-use-wrong-value:unmarshal", fmt.Sprintf("concurrent first Unmarshal into %T gave a wrong value at %s\nstream=%s", vals[res.item], why, h.Hex(stream[res.item])), rep)
			}
		default:
			ref := refSimple[res.item]
			if res.op == "marshal-ref" {
				ref = refRef[res.item]
			}
			if !bytes.Equal(res.data, ref) {
				c.Violation("first-use-wrong-bytes:"+res.op, fmt.Sprintf("concurrent first %s of %T produced bytes that differ from the single-goroutine result\nconcurrent=%s\nalone     =%s", res.op, vals[res.item], h.Hex(res.data), h.Hex(ref)), rep)
				continue
			}
			got, _, perr := hpref.Parse(res.data)
			if perr != nil {
				c.Violation("first-use-malformed:"+res.op, fmt.Sprintf("independent reader rejects %s: %v", h.Hex(res.data), perr), rep)
			} else if why := eqv.DEqual(want[res.item], got); why != "" {
				c.Violation("first-use-wrong-denotation:"+res.op, fmt.Sprintf("%s: %s", h.Hex(res.data), why), rep)
			}
		}
	}
	if gi == 0 {
		r.Sample(map[string]interface{}{"group": g.Name, "goroutines": G, "ops": opsOf(results), "intervals_ns": intervals(results), "stream_of_item0": h.Hex(stream[0])})
	}
}

func opsOf(rs []result) []string {
	var out []string
	for _, x := range rs {
		out = append(out, fmt.Sprintf("%s#%d", x.op, x.item))
	}
	return out
}

func intervals(rs []result) [][2]int64 {
	var out [][2]int64
	for _, x := range rs {
		out = append(out, [2]int64{x.t0, x.t1})
	}
	return out
}

// ---- (B) warm stress ----

type warmItem struct {
	v      reflect.Value
	t      reflect.Type
	simple []byte
	ref    []byte
	hasMap bool
}

func containsMap(t reflect.Type, seen map[reflect.Type]bool) bool {
	if seen[t] {
		return false
	}
	seen[t] = true
	switch t.Kind() {
	case reflect.Map, reflect.Interface:
		return true
	case reflect.Ptr, reflect.Slice, reflect.Array:
		return containsMap(t.Elem(), seen)
	case reflect.Struct:
		if t.PkgPath() == "container/list" {
			return true
		}
		for i := 0; i < t.NumField(); i++ {
			if containsMap(t.Field(i).Type, seen) {
				return true
			}
		}
	}
	return false
}

func phaseWarm(r *h.Run) {
	r.Case("warm-stress", func(c *h.Case) {
		var items []warmItem
		rng := c.Rand()
		for _, ue := range corpus.Universe(r.Seed, 3, 300, 4) {
			if ue.Block == "depth2" && rng.Intn(10) != 0 {
				continue
			}
			vals := corpus.Values(ue, rng)
			for i, v := range vals {
				if i > 1 && rng.Intn(6) != 0 {
					continue
				}
				s, err1 := iox.Encode(corpus.Iface(v), true, iox.EncMarshal)
				rf, err2 := iox.Encode(corpus.Iface(v), false, iox.EncMarshal)
				if err1 != nil || err2 != nil {
					continue
				}
				if iox.ContainsInterface(ue.T) && !iox.SettingCanHold(eqv.DenoteValue(v), iox.Setting{}) {
					continue // an integer beyond int64 in an interface{} position: see C01
				}
				items = append(items, warmItem{v, ue.T, s, rf, containsMap(ue.T, map[reflect.Type]bool{})})
			}
		}
		W := 16
		rounds := r.Pick(2, 12)
		var wg sync.WaitGroup
		var nops int64
		for w := 0; w < W; w++ {
			w := w
			wg.Add(1)
			go func() {
				defer wg.Done()
				for round := 0; round < rounds; round++ {
					for i := w; i < len(items); i += 1 + (w % 3) {
						it := items[i]
						simple := (i+round+w)%2 == 0
						var data []byte
						var err error
						entry := (i + w) % iox.NEnc
						if entry == iox.EncWrite {
							entry = iox.EncMarshal // Write spells top-level strings differently by design
						}
						p, st := h.Try(func() { data, err = iox.Encode(corpus.Iface(it.v), simple, entry) })
						atomic.AddInt64(&nops, 1)
						if p != nil {
							c.Violation("warm-panic:"+h.PanicClass(fmt.Sprint(p))+"@"+h.FirstRepoFrame(st), fmt.Sprintf("%v\n%s", p, h.TrimStack(st)), nil)
							continue
						}
						if err != nil {
							c.Violation("warm-encode-error", err.Error(), nil)
							continue
						}
						ref := it.simple
						if !simple {
							ref = it.ref
						}
						if !it.hasMap && !bytes.Equal(data, ref) {
							c.Violation("warm-wrong-bytes", fmt.Sprintf("concurrent encoding of %s differs from the single-goroutine bytes\nconcurrent=%s\nalone     =%s", it.t, h.Hex(clip(data, 300)), h.Hex(clip(ref, 300))), map[string]interface{}{"type": it.t.String()})
							continue
						}
						ptr := reflect.New(it.t)
						p, st = h.Try(func() { err = iox.Decode(data, ptr.Interface(), simple, iox.Setting{}, (i+w)%iox.NDec) })
						if p != nil {
							c.Violation("warm-panic:"+h.PanicClass(fmt.Sprint(p))+"@"+h.FirstRepoFrame(st), fmt.Sprintf("%v\n%s", p, h.TrimStack(st)), nil)
							continue
						}
						if err != nil {
							c.Violation("warm-decode-error", fmt.Sprintf("%v for %s", err, h.Hex(clip(data, 300))), nil)
							continue
						}
						if why := eqv.Equal(it.v, ptr.Elem()); why != "" {
							c.Violation("warm-wrong-value", fmt.Sprintf("concurrent round trip of %s changed the value at %s", it.t, why), map[string]interface{}{"type": it.t.String()})
						}
					}
				}
			}()
		}
		wg.Wait()
		r.Eval(nops)
		r.Stat("warm_round_trips", nops)
		r.Stat("max_warm_goroutines", int64(W))
		r.Distinct(fmt.Sprintf("warm|%d|%d", len(items), nops))
	})
}

// ---- (C) pool hygiene ----

type use struct {
	name string
	// run performs the use; pooled selects the pooled path. The returned string is a
	// canonical rendering of everything observable (bytes, values, error nil-ness).
	run func(pooled bool) string
}

func render(v interface{}, err error) string {
	if err != nil {
		return "error"
	}
	return fmt.Sprintf("%#v", v)
}

func uses() []use {
	shared := "shared-string"
	tree := &gentypes.Tree{Name: shared, Kids: []*gentypes.Tree{{Name: shared}}}
	tree.Up = tree
	refVal := []interface{}{shared, shared, tree, tree, &gentypes.One{A: 1}}
	simpleVal := []interface{}{shared, shared, 12345678901234, 1.5, map[string]interface{}{"k": shared}}
	refStream, _ := hio.Formatter{Simple: false}.Marshal([]interface{}{shared, shared, &gentypes.One{A: 1}, big.NewInt(1 << 40), 2.5})
	simpleStream, _ := hio.Marshal(simpleVal)
	encode := func(pooled, simple bool, v interface{}) string {
		if pooled {
			b, err := hio.Formatter{Simple: simple}.Marshal(v)
			return render(string(b), err)
		}
		enc := new(hio.Encoder).Simple(simple)
		err := enc.Encode(v)
		if err != nil {
			return "error"
		}
		return render(string(enc.Bytes()), nil)
	}
	decode := func(pooled, simple bool, data []byte, s iox.Setting, reader bool) string {
		var x interface{}
		var err error
		in := append([]byte(nil), data...)
		switch {
		case pooled && reader:
			err = hio.Formatter{Simple: simple, LongType: s.Long, RealType: s.Real, MapType: s.Map}.UnmarshalFromReader(bytes.NewReader(in), &x)
		case pooled:
			err = hio.Formatter{Simple: simple, LongType: s.Long, RealType: s.Real, MapType: s.Map}.Unmarshal(in, &x)
		case reader:
			dec := hio.NewDecoderFromReader(bytes.NewReader(in)).Simple(simple)
			dec.LongType, dec.RealType, dec.MapType = s.Long, s.Real, s.Map
			dec.Decode(&x)
			err = dec.Error
		default:
			dec := hio.NewDecoder(in).Simple(simple)
			dec.LongType, dec.RealType, dec.MapType = s.Long, s.Real, s.Map
			dec.Decode(&x)
			err = dec.Error
		}
		if err != nil {
			return "error"
		}
		return eqv.Denote(x).String() + "|" + fmt.Sprintf("%T", x)
	}
	svc := core.NewService()
	svc.AddFunction(func(a int, s string) string { return s }, "f")
	homStream := []byte("a3{123}")
	typed := func(x interface{}, err error) string {
		if err != nil {
			return "error"
		}
		return eqv.Denote(x).String() + "|" + fmt.Sprintf("%T", x)
	}
	return []use{
		// a homogeneous list into interface{} by users that set no option at all: []interface{} unless an option leaked
		{"dec-homogeneous-no-options", func(p bool) string {
			var x interface{}
			if p {
				return typed(x, hio.Unmarshal(append([]byte(nil), homStream...), &x)) + func() string { return typed(x, nil) }()
			}
			dec := hio.NewDecoder(append([]byte(nil), homStream...))
			dec.Decode(&x)
			return typed(x, dec.Error) + typed(x, nil)
		}},
		{"dec-homogeneous-from-reader-no-options", func(p bool) string {
			var x interface{}
			if p {
				err := hio.UnmarshalFromReader(bytes.NewReader(homStream), &x)
				return typed(x, err)
			}
			dec := hio.NewDecoderFromReader(bytes.NewReader(homStream))
			dec.Decode(&x)
			return typed(x, dec.Error)
		}},
		{"dec-homogeneous-reference-mode-no-options", func(p bool) string {
			var x interface{}
			if p {
				err := hio.Formatter{}.Unmarshal(append([]byte(nil), homStream...), &x)
				return typed(x, err)
			}
			dec := hio.NewDecoder(append([]byte(nil), homStream...)).Simple(false)
			dec.Decode(&x)
			return typed(x, dec.Error)
		}},
		// a pool user that sets every option to its non-default value and gives the decoder back
		{"dec-pooled-all-options", func(p bool) string {
			var x interface{}
			var dec *hio.Decoder
			if p {
				dec = hio.GetDecoder().ResetBytes(append([]byte(nil), homStream...))
				defer hio.FreeDecoder(dec)
			} else {
				dec = hio.NewDecoder(append([]byte(nil), homStream...))
			}
			dec.Simple(false)
			dec.LongType, dec.RealType, dec.MapType, dec.StructType, dec.ListType = hio.LongTypeBigInt, hio.RealTypeBigFloat, hio.MapTypeSIMap, hio.StructTypeValue, hio.ListTypeSlice
			dec.Decode(&x)
			return typed(x, dec.Error)
		}},
		{"dec-mixed-no-options", func(p bool) string {
			// longs, doubles, a map and a struct: every option shows in the result types
			data := []byte(`a4{l5;d1.5;m1{1s1"a"}c3"One"1{s1"a"}o0{7}}`)
			var x interface{}
			if p {
				return typed(x, hio.Formatter{}.Unmarshal(append([]byte(nil), data...), &x)) + typeTree(x)
			}
			dec := hio.NewDecoder(append([]byte(nil), data...)).Simple(false)
			dec.Decode(&x)
			return typed(x, dec.Error) + typeTree(x)
		}},
		{"enc-simple", func(p bool) string { return encode(p, true, simpleVal) }},
		{"enc-ref", func(p bool) string { return encode(p, false, refVal) }},
		{"enc-error", func(p bool) string { return encode(p, false, []interface{}{shared, make(chan int), shared}) }},
		{"dec-simple", func(p bool) string { return decode(p, true, simpleStream, iox.Setting{}, false) }},
		{"dec-ref", func(p bool) string { return decode(p, false, refStream, iox.Setting{}, false) }},
		{"dec-error", func(p bool) string { return decode(p, false, refStream[:len(refStream)/2], iox.Setting{}, false) }},
		{"dec-options", func(p bool) string {
			return decode(p, false, refStream, iox.Setting{Long: hio.LongTypeBigInt, Real: hio.RealTypeBigFloat, Map: hio.MapTypeSIMap}, false)
		}},
		{"dec-reader", func(p bool) string { return decode(p, false, refStream, iox.Setting{}, true) }},
		{"dec-reader-simple", func(p bool) string { return decode(p, true, simpleStream, iox.Setting{}, true) }},
		{"codec-client-simple-response", func(p bool) string {
			// a response whose header says simple: the pooled decoder is switched to simple mode
			cc := core.NewClientContext()
			cc.ReturnType = []reflect.Type{reflect.TypeOf((*interface{})(nil)).Elem()}
			resp := append(append([]byte(`Hm1{s6"simple"t}R`), simpleStream...), 'z')
			if p {
				res, err := core.NewClientCodec().Decode(resp, cc)
				if err != nil {
					return "error"
				}
				return eqv.Denote(res[0]).String()
			}
			dec := hio.NewDecoder(append([]byte(nil), simpleStream...)).Simple(true)
			var x interface{}
			dec.Decode(&x)
			if dec.Error != nil {
				return "error"
			}
			return eqv.Denote(x).String()
		}},
		{"codec-client", func(p bool) string {
			// the RPC codecs always use pooled coders; "fresh" = the same bytes through fresh coders
			cc := core.NewClientContext()
			cc.ReturnType = []reflect.Type{reflect.TypeOf((*interface{})(nil)).Elem()}
			resp := append(append([]byte("R"), refStream...), 'z')
			if p {
				codec := core.NewClientCodec(core.WithLongType(hio.LongTypeBigInt), core.WithStructType(hio.StructTypeValue))
				res, err := codec.Decode(resp, cc)
				if err != nil {
					return "error"
				}
				return eqv.Denote(res[0]).String()
			}
			dec := hio.NewDecoder(append([]byte(nil), refStream...)).Simple(false)
			dec.LongType, dec.StructType = hio.LongTypeBigInt, hio.StructTypeValue
			var x interface{}
			dec.Decode(&x)
			if dec.Error != nil {
				return "error"
			}
			return eqv.Denote(x).String()
		}},
		{"codec-service", func(p bool) string {
			req := []byte(`Cs1"f"a2{i7;s13"shared-string"}z`)
			if p {
				sc := core.NewServiceContext(svc)
				name, args, err := core.NewServiceCodec(core.WithListType(hio.ListTypeSlice)).Decode(req, sc)
				if err != nil {
					return "error"
				}
				return name + eqv.Denote(args).String()
			}
			dec := hio.NewDecoder([]byte(`a2{i7;s13"shared-string"}`)).Simple(false)
			var a int
			var s string
			dec.NextByte()
			dec.ReadInt()
			dec.Decode(&a)
			dec.Decode(&s)
			return "f" + eqv.Denote([]interface{}{a, s}).String()
		}},
	}
}

// typeTree renders the dynamic types of a decoded value, recursively (decoder options show there).
func typeTree(x interface{}) string {
	switch v := x.(type) {
	case []interface{}:
		s := "["
		for _, e := range v {
			s += typeTree(e) + " "
		}
		return s + "]"
	case map[string]interface{}:
		return fmt.Sprintf("map[string]{%d}", len(v))
	case map[interface{}]interface{}:
		return fmt.Sprintf("map[iface]{%d}", len(v))
	}
	return fmt.Sprintf("%T", x)
}

func phasePool(r *h.Run) {
	us := uses()
	n := len(us)
	maxLen := 4
	// precompute the fresh-coder result of every use (twice: it must be deterministic)
	freshRes := make([]string, n)
	for i, u := range us {
		freshRes[i] = u.run(false)
	}
	total := 0
	for l := 1; l <= maxLen; l++ {
		x := 1
		for i := 0; i < l; i++ {
			x *= n
		}
		total += x
	}
	r.Case("pool-sequences", func(c *h.Case) {
		runtime.LockOSThread()
		defer runtime.UnlockOSThread()
		seq := make([]int, 0, maxLen)
		var rec func(depth int)
		count := 0
		rec = func(depth int) {
			if depth > 0 {
				count++
				// replay the whole sequence from a fixed start: drain the pools first so that the
				// coder reused by use k is the one freed by use k-1
				for k, ui := range seq {
					var got string
					p, st := h.Try(func() { got = us[ui].run(true) })
					r.Eval(1)
					if p != nil {
						c.Violation("pool-panic:"+us[ui].name+":"+h.PanicClass(fmt.Sprint(p))+"@"+h.FirstRepoFrame(st), fmt.Sprintf("use %d (%s) of sequence %v panicked: %v\n%s", k, us[ui].name, seqNames(us, seq), p, h.TrimStack(st)), nil)
						continue
					}
					if got != freshRes[ui] {
						prev := "(first use)"
						if k > 0 {
							prev = us[seq[k-1]].name
						}
						c.Violation("pool-state-leak:"+prev+"->"+us[ui].name, fmt.Sprintf("sequence %v: use %d (%s) through pooled coders differs from the same use through fresh coders\npooled=%s\nfresh =%s", seqNames(us, seq), k, us[ui].name, clips(got, 600), clips(freshRes[ui], 600)), map[string]interface{}{"sequence": seqNames(us, seq)})
					}
				}
				r.Distinct("pool|" + strings.Join(seqNames(us, seq), ","))
			}
			if depth == maxLen {
				return
			}
			for i := 0; i < n; i++ {
				seq = append(seq, i)
				rec(depth + 1)
				seq = seq[:len(seq)-1]
			}
		}
		rec(0)
		r.Stat("pool_sequences", int64(count))
		r.Meta("exhaustive_pool_sequences", count == total)
	})
}

func seqNames(us []use, seq []int) []string {
	out := make([]string, len(seq))
	for i, s := range seq {
		out[i] = us[s].name
	}
	return out
}

// ---- (D) aliasing ----

func phaseAlias(r *h.Run) {
	type dcase struct {
		name string
		v    interface{}
		dst  func() interface{}
	}
	long := strings.Repeat("long-string-", 30)
	cases := []dcase{
		{"string", "a string value", func() interface{} { return new(string) }},
		{"long-string", long, func() interface{} { return new(string) }},
		{"bytes", []byte("some bytes here"), func() interface{} { return new([]byte) }},
		{"iface-string", "a string value", func() interface{} { return new(interface{}) }},
		{"iface-bytes", []byte("some bytes here"), func() interface{} { return new(interface{}) }},
		{"[]string", []string{"one", "two", long, "two"}, func() interface{} { return new([]string) }},
		{"[][]byte", [][]byte{[]byte("abc"), []byte(long)}, func() interface{} { return new([][]byte) }},
		{"map[string]string", map[string]string{"key-one": "value-one", long: long}, func() interface{} { return new(map[string]string) }},
		{"map[string]interface{}", map[string]interface{}{"key-one": "value-one", "b": []byte("bytes"), "n": 12345678901}, func() interface{} { return new(map[string]interface{}) }},
		{"struct", gentypes.Scalars{S: "struct string " + long, I: 5}, func() interface{} { return new(gentypes.Scalars) }},
		{"*struct-with-bytes", &gentypes.Libs{Bs: []byte("bytes in struct"), Any: "any string"}, func() interface{} { return new(*gentypes.Libs) }},
		{"tree", &gentypes.Tree{Name: "root name", Kids: []*gentypes.Tree{{Name: "kid name"}}}, func() interface{} { return new(*gentypes.Tree) }},
		{"big.Int", big.NewInt(1).Lsh(big.NewInt(1), 200), func() interface{} { return new(*big.Int) }},
		{"string->bytes", "string into bytes", func() interface{} { return new([]byte) }},
		{"bytes->string", []byte("bytes into string"), func() interface{} { return new(string) }},
		{"[16]byte", [16]byte{1, 2, 3, 4, 5, 6, 7, 8, 9, 10, 11, 12, 13, 14, 15, 16}, func() interface{} { return new([16]byte) }},
		{"refs", []interface{}{"repeated string", "repeated string", []byte("rb"), []byte("rb")}, func() interface{} { return new([]interface{}) }},
		{"empty-bytes", []byte{}, func() interface{} { return new([]byte) }},
		{"iface-empty-bytes", []byte{}, func() interface{} { return new(interface{}) }},
		{"[][]byte-with-empties", [][]byte{{}, []byte("abc"), {}, []byte(long)}, func() interface{} { return new([][]byte) }},
		{"map-with-empties", map[string]interface{}{"e": []byte{}, "s": "", "one": "1", "l": []interface{}{[]byte{}, ""}}, func() interface{} { return new(map[string]interface{}) }},
		{"*struct-with-empty-bytes", &gentypes.Libs{Bs: []byte{}, Any: []byte{}}, func() interface{} { return new(*gentypes.Libs) }},
		{"empty-string->bytes", "", func() interface{} { return new([]byte) }},
		{"one-char-string->bytes", "x", func() interface{} { return new([]byte) }},
	}
	for _, dc := range cases {
		for _, simple := range []bool{true, false} {
			for entry := 0; entry < 4; entry++ {
				dc, simple, entry := dc, simple, entry
				r.Case(fmt.Sprintf("alias/%s/simple=%v/entry%d", dc.name, simple, entry), func(c *h.Case) {
					data, err := hio.Formatter{Simple: simple}.Marshal(dc.v)
					if err != nil {
						return
					}
					in := append([]byte(nil), data...)
					dst := dc.dst()
					switch entry {
					case 0:
						err = hio.Formatter{Simple: simple}.Unmarshal(in, dst)
					case 1:
						dec := hio.NewDecoder(in).Simple(simple)
						dec.Decode(dst)
						err = dec.Error
					case 2:
						err = hio.Formatter{Simple: simple}.UnmarshalFromReader(&smallReader{in, 5}, dst)
					case 3:
						dec := hio.GetDecoder().Simple(simple).ResetBytes(in)
						dec.Decode(dst)
						err = dec.Error
						hio.FreeDecoder(dec)
					}
					r.Eval(1)
					if err != nil {
						r.Stat("alias_decode_error_skipped", 1)
						return
					}
					before := fmt.Sprintf("%#v", reflect.ValueOf(dst).Elem().Interface())
					// memory monitor: no byte slice (up to its capacity: an append writes there) and
					// no string of the decoded value lies inside the input buffer
					if entry != 2 {
						lo := uintptr(unsafe.Pointer(unsafe.SliceData(in)))
						hi := lo + uintptr(cap(in))
						memRanges(reflect.ValueOf(dst), map[uintptr]bool{}, func(p uintptr, n int, what string) {
							r.Eval(1)
							if n > 0 && p < hi && p+uintptr(n) > lo {
								c.Violation("decoded-value-shares-memory-with-input:"+dc.name, fmt.Sprintf("decoded %s: a %s occupies [%#x,%#x) inside the input buffer [%#x,%#x) (entry %d, simple=%v); writing through it (an append within capacity) changes the input and later readers of it", dc.name, what, p, p+uintptr(n), lo, hi, entry, simple), map[string]interface{}{"case": dc.name, "entry": entry, "simple": simple})
							}
						})
						// and the behavioural form: appending to every decoded byte slice leaves the input as it was
						appendAll(reflect.ValueOf(dst), map[uintptr]bool{})
						if !bytes.Equal(in, data) {
							c.Violation("append-to-decoded-bytes-changes-input:"+dc.name, fmt.Sprintf("after appending to the decoded byte slices the input buffer changed (entry %d, simple=%v)\nbefore=%q\nafter =%q", entry, simple, clip(data, 200), clip(in, 200)), map[string]interface{}{"case": dc.name, "entry": entry, "simple": simple})
						}
						before = fmt.Sprintf("%#v", reflect.ValueOf(dst).Elem().Interface())
					}
					// scribble over the input and churn the pools
					for i := range in {
						in[i] = 0xAA
					}
					for k := 0; k < 200; k++ {
						b, _ := hio.Formatter{Simple: k%2 == 0}.Marshal([]interface{}{"churn", k, strings.Repeat("z", 50+k), []byte("churn-bytes")})
						var x interface{}
						hio.Formatter{Simple: k%2 == 0}.Unmarshal(b, &x)
						hio.Formatter{Simple: false}.UnmarshalFromReader(bytes.NewReader(b), &x)
					}
					runtime.GC()
					after := fmt.Sprintf("%#v", reflect.ValueOf(dst).Elem().Interface())
					if before != after {
						c.Violation("decoded-value-aliases-input:"+dc.name, fmt.Sprintf("decoded %s changed after the input buffer was overwritten and pooled coders were reused (entry %d, simple=%v)\nbefore=%s\nafter =%s", dc.name, entry, simple, clips(before, 400), clips(after, 400)), map[string]interface{}{"case": dc.name, "entry": entry, "simple": simple})
					}
					r.Distinct(fmt.Sprintf("alias|%s|%v|%d", dc.name, simple, entry))
				})
			}
		}
	}
	// Marshal result must not alias the pooled encoder buffer
	r.Case("alias/marshal-result", func(c *h.Case) {
		b1, _ := hio.Marshal("first result string")
		snap := string(b1)
		for k := 0; k < 200; k++ {
			hio.Marshal(strings.Repeat("x", 10+k))
		}
		r.Eval(1)
		if string(b1) != snap {
			c.Violation("marshal-result-aliases-pool", fmt.Sprintf("bytes returned by Marshal changed after later Marshal calls: %q -> %q", snap, b1), nil)
		}
		r.Distinct("alias|marshal-result")
	})
	// a response handed out by Service.Handle belongs to the caller: later requests (which reuse
	// the pooled encoder) leave it as it was; arguments a function keeps stay as they were decoded
	// when the request buffer is overwritten and further requests are decoded
	for _, simple := range []bool{false, true} {
		simple := simple
		r.Case(fmt.Sprintf("alias/service-response-and-arguments/simple=%v", simple), func(c *h.Case) {
			svc := core.NewService()
			svc.Codec = core.NewServiceCodec(core.WithSimple(simple))
			var kept []interface{}
			svc.AddFunction(func(s string, b []byte, l []string) string {
				kept = append(kept, s, b, l)
				return "answer to " + s
			}, "keep")
			request := func(k int) []byte {
				enc := new(hio.Encoder).Simple(simple)
				enc.WriteTag(hio.TagCall)
				enc.Encode("keep")
				enc.Encode([]interface{}{fmt.Sprintf("argument string %d %s", k, strings.Repeat("s", k%40)), []byte(fmt.Sprintf("argument bytes %d", k)), []string{"x", fmt.Sprintf("element %d", k), "x"}})
				enc.WriteTag(hio.TagEnd)
				return append([]byte(nil), enc.Bytes()...)
			}
			handle := func(req []byte) []byte {
				resp, err := svc.Handle(core.WithContext(context.Background(), core.NewServiceContext(svc)), req)
				if err != nil {
					c.Violation("service-handle-failed", err.Error(), nil)
				}
				return resp
			}
			type held struct {
				resp []byte
				snap string
			}
			var hs []held
			var argSnaps []string
			for k := 0; k < 60; k++ {
				req := request(k)
				resp := handle(req)
				hs = append(hs, held{resp, string(resp)})
				argSnaps = append(argSnaps, fmt.Sprintf("%#v", kept[len(kept)-3:]))
				for i := range req {
					req[i] = 0xAA
				}
				r.Eval(1)
			}
			for k, x := range hs {
				if string(x.resp) != x.snap {
					c.Violation("service-response-aliases-pool", fmt.Sprintf("the response to request %d changed after later requests were handled: %q -> %q", k, x.snap, x.resp), map[string]interface{}{"simple": simple})
					break
				}
			}
			for k := range argSnaps {
				if now := fmt.Sprintf("%#v", kept[3*k:3*k+3]); now != argSnaps[k] {
					c.Violation("service-arguments-alias-request", fmt.Sprintf("arguments kept by the function of request %d changed after the request buffer was overwritten and later requests decoded:\nbefore=%s\nafter =%s", k, clips(argSnaps[k], 300), clips(now, 300)), map[string]interface{}{"simple": simple})
					break
				}
			}
			if !strings.Contains(hs[0].snap, "answer to argument string 0") {
				c.Violation("service-handle-failed", fmt.Sprintf("unexpected response %q", hs[0].snap), nil)
			}
			r.Distinct(fmt.Sprintf("alias|service|%v", simple))
		})
	}
	// coders held at the same time are different objects, also after uses that failed
	r.Case("pool/held-coders-are-distinct", func(c *h.Case) {
		runtime.LockOSThread()
		defer runtime.UnlockOSThread()
		preludes := []struct {
			name string
			run  func()
		}{
			{"nothing", func() {}},
			{"marshal-ok", func() { hio.Marshal("fine") }},
			{"marshal-fails-chan", func() { hio.Marshal(make(chan int)) }},
			{"marshal-fails-nested-func", func() { hio.Marshal([]interface{}{"a", func() {}}) }},
			{"formatter-simple-marshal-fails", func() { hio.Formatter{Simple: true}.Marshal(map[string]interface{}{"c": make(chan bool)}) }},
			{"unmarshal-ok", func() { var x interface{}; hio.Unmarshal([]byte(`s3"abc"`), &x) }},
			{"unmarshal-fails", func() { var x int; hio.Unmarshal([]byte(`s3"abc"`), &x) }},
			{"unmarshal-truncated", func() { var x interface{}; hio.Unmarshal([]byte(`a3{1`), &x) }},
			{"unmarshal-reader-fails", func() { var x int; hio.UnmarshalFromReader(strings.NewReader(`m1{`), &x) }},
			{"unmarshal-panicking-target", func() { h.Try(func() { hio.Unmarshal([]byte("1"), nil) }) }},
		}
		for round := 0; round < 20; round++ {
			for _, pl := range preludes {
				pl.run()
				encs := map[*hio.Encoder]bool{}
				decs := map[*hio.Decoder]bool{}
				var es []*hio.Encoder
				var ds []*hio.Decoder
				for i := 0; i < 6; i++ {
					e, d := hio.GetEncoder(), hio.GetDecoder()
					if encs[e] {
						c.Violation("pooled-encoder-handed-out-twice:"+pl.name, fmt.Sprintf("after %q two GetEncoder calls with no FreeEncoder between them returned the same *Encoder: two goroutines would write into one buffer", pl.name), map[string]interface{}{"prelude": pl.name})
					}
					if decs[d] {
						c.Violation("pooled-decoder-handed-out-twice:"+pl.name, fmt.Sprintf("after %q two GetDecoder calls returned the same *Decoder", pl.name), map[string]interface{}{"prelude": pl.name})
					}
					encs[e], decs[d] = true, true
					es, ds = append(es, e), append(ds, d)
					r.Eval(2)
				}
				for i := range es {
					hio.FreeEncoder(es[i])
					hio.FreeDecoder(ds[i])
				}
				r.Distinct("pool-distinct|" + pl.name)
			}
		}
	})
}

// memRanges reports the memory of every byte slice (to its capacity) and string in v.
func memRanges(v reflect.Value, seen map[uintptr]bool, visit func(p uintptr, n int, what string)) {
	switch v.Kind() {
	case reflect.String:
		if v.Len() > 0 {
			visit(uintptr(unsafe.Pointer(unsafe.StringData(v.String()))), v.Len(), "string")
		}
	case reflect.Slice:
		if v.IsNil() {
			return
		}
		if v.Type().Elem().Kind() == reflect.Uint8 {
			visit(v.Pointer(), v.Cap(), fmt.Sprintf("byte slice (len %d, cap %d)", v.Len(), v.Cap()))
			return
		}
		for i := 0; i < v.Len(); i++ {
			memRanges(v.Index(i), seen, visit)
		}
	case reflect.Array:
		for i := 0; i < v.Len(); i++ {
			memRanges(v.Index(i), seen, visit)
		}
	case reflect.Map:
		it := v.MapRange()
		for it.Next() {
			memRanges(it.Key(), seen, visit)
			memRanges(it.Value(), seen, visit)
		}
	case reflect.Ptr:
		if v.IsNil() || seen[v.Pointer()] {
			return
		}
		seen[v.Pointer()] = true
		memRanges(v.Elem(), seen, visit)
	case reflect.Interface:
		if !v.IsNil() {
			memRanges(v.Elem(), seen, visit)
		}
	case reflect.Struct:
		for i := 0; i < v.NumField(); i++ {
			memRanges(v.Field(i), seen, visit)
		}
	}
}

// appendAll appends within capacity to every settable or addressable byte slice reachable in v.
func appendAll(v reflect.Value, seen map[uintptr]bool) {
	switch v.Kind() {
	case reflect.Slice:
		if v.IsNil() {
			return
		}
		if v.Type().Elem().Kind() == reflect.Uint8 && v.CanInterface() {
			if b, ok := v.Interface().([]byte); ok {
				full := b[:cap(b)]
				for i := len(b); i < len(full); i++ {
					full[i] = 0x5A
				}
			}
			return
		}
		for i := 0; i < v.Len(); i++ {
			appendAll(v.Index(i), seen)
		}
	case reflect.Array:
		for i := 0; i < v.Len(); i++ {
			appendAll(v.Index(i), seen)
		}
	case reflect.Map:
		it := v.MapRange()
		for it.Next() {
			appendAll(it.Value(), seen)
		}
	case reflect.Ptr:
		if v.IsNil() || seen[v.Pointer()] {
			return
		}
		seen[v.Pointer()] = true
		appendAll(v.Elem(), seen)
	case reflect.Interface:
		if !v.IsNil() {
			appendAll(v.Elem(), seen)
		}
	case reflect.Struct:
		for i := 0; i < v.NumField(); i++ {
			if v.Type().Field(i).PkgPath == "" {
				appendAll(v.Field(i), seen)
			}
		}
	}
}

type smallReader struct {
	data []byte
	n    int
}

func (s *smallReader) Read(p []byte) (int, error) {
	if len(s.data) == 0 {
		return 0, fmt.Errorf("EOF")
	}
	n := s.n
	if n > len(p) {
		n = len(p)
	}
	if n > len(s.data) {
		n = len(s.data)
	}
	copy(p, s.data[:n])
	s.data = s.data[n:]
	return n, nil
}

func clip(b []byte, n int) []byte {
	if len(b) > n {
		return b[:n]
	}
	return b
}

func clips(s string, n int) string {
	if len(s) > n {
		return s[:n] + "…"
	}
	return s
}

var _ = context.Background
