// C10 — every call terminates: response, error, timeout, cancellation or abort.
package c10

import (
	"context"
	"errors"
	"fmt"
	"io"
	"net"
	nethttp "net/http"
	"os"
	"path/filepath"
	"regexp"
	"runtime"
	"strings"
	"sync"
	"sync/atomic"
	"testing"
	"time"

	fws "github.com/fasthttp/websocket"
	"github.com/hprose/hprose-golang/v3/rpc/core"
	"github.com/hprose/hprose-golang/v3/rpc/mock"
	"github.com/hprose/hprose-golang/v3/rpc/plugins/reverse"
	rtimeout "github.com/hprose/hprose-golang/v3/rpc/plugins/timeout"
	"github.com/hprose/hprose-golang/v3/rpc/socket"
	"github.com/hprose/hprose-golang/v3/rpc/udp"
	"github.com/hprose/hprose-golang/v3/rpc/websocket"
	"verif/internal/h"
	"verif/internal/peer"
)

var light = os.Getenv("VERIF_LIGHT") == "1"

// watchdog is the generous bound after which a call that should have returned counts as hung.
const watchdog = 8 * time.Second

// ---- hooks ----

type hooks struct {
	setYield func(func(string))
	pending  func() (int, int)
	reset    func()
}

func hooksFor(kind string) *hooks {
	switch kind {
	case "tcp", "unix":
		return &hooks{socket.VerifSetYield, socket.VerifPending, socket.VerifReset}
	case "ws":
		return &hooks{websocket.VerifSetYield, websocket.VerifPending, websocket.VerifReset}
	case "udp":
		return &hooks{udp.VerifSetYield, udp.VerifPending, udp.VerifReset}
	}
	return nil
}

// gate blocks the first goroutine that reaches a named point until released.
type gate struct {
	point   string
	armed   int32
	reached chan struct{}
	release chan struct{}
	passed  map[string]*int64
}

func newGate(point string) *gate {
	return &gate{point: point, armed: 1, reached: make(chan struct{}), release: make(chan struct{})}
}

func (g *gate) fn(p string) {
	if p == g.point && atomic.CompareAndSwapInt32(&g.armed, 1, 0) {
		close(g.reached)
		<-g.release
	}
}

// ---- goroutine accounting ----

var clientFrame = regexp.MustCompile(`hprose-golang/v3/rpc/(socket|websocket|udp|http|http/fasthttp|mock)\.\(\*(conn|Transport)\)\.|hprose-golang/v3/rpc/core\.\(\*Client\)\.`)

// clientGoroutines counts goroutines that are inside the client side of a transport.
func clientGoroutines() (int, string) {
	buf := make([]byte, 1<<20)
	for {
		n := runtime.Stack(buf, true)
		if n < len(buf) {
			buf = buf[:n]
			break
		}
		buf = make([]byte, 2*len(buf))
	}
	count := 0
	sample := ""
	for _, block := range strings.Split(string(buf), "\n\n") {
		if clientFrame.MatchString(block) {
			if m := goroutineID.FindStringSubmatch(block); m != nil && baseline[m[1]] {
				continue
			}
			count++
			if len(sample) < 4000 {
				sample += block + "\n\n"
			}
		}
	}
	return count, sample
}

var goroutineID = regexp.MustCompile(`^goroutine (\d+) `)

// baseline holds the goroutines that existed when the case began (left by earlier cases of
// this process); only goroutines created by the running case are counted.
var baseline = map[string]bool{}

func markBaseline() {
	buf := make([]byte, 1<<20)
	for {
		n := runtime.Stack(buf, true)
		if n < len(buf) {
			buf = buf[:n]
			break
		}
		buf = make([]byte, 2*len(buf))
	}
	baseline = map[string]bool{}
	for _, block := range strings.Split(string(buf), "\n\n") {
		if m := goroutineID.FindStringSubmatch(block); m != nil {
			baseline[m[1]] = true
		}
	}
}

// settle waits until the number of client goroutines stops changing (or 3 s).
func settle() (int, string) {
	last, sample := clientGoroutines()
	for i := 0; i < 30; i++ {
		time.Sleep(100 * time.Millisecond)
		n, s := clientGoroutines()
		if n == last && (n == 0 || i >= 5) {
			return n, s
		}
		last, sample = n, s
	}
	return last, sample
}

// ---- fault-scripted stream server (tcp/unix) ----

type script struct {
	name   string
	read   int                        // bytes of the request to read before acting; -1 = the whole frame
	write  func(index uint32) []byte  // bytes to send before acting (nil = nothing)
	action string                     // close | reset | silent
}

type faultServer struct {
	kind    string
	url     string
	addr    string
	ln      net.Listener
	cur     atomic.Value // *script (nil script = healthy echo)
	mu      sync.Mutex
	conns   []net.Conn
	stopped int32
}

func startFaultServer(kind string) (*faultServer, error) {
	s := &faultServer{kind: kind}
	var err error
	if kind == "unix" {
		path := filepath.Join(peer.Dir(), fmt.Sprintf("f%d-%d.sock", os.Getpid()%100000, time.Now().UnixNano()%1000000))
		os.Remove(path)
		s.ln, err = net.Listen("unix", path)
		s.addr = path
		s.url = "unix://" + path
	} else {
		s.ln, err = net.Listen("tcp", "127.0.0.1:0")
		if err == nil {
			s.addr = s.ln.Addr().String()
			s.url = "tcp://" + s.addr
		}
	}
	if err != nil {
		return nil, err
	}
	s.cur.Store((*script)(nil))
	go func() {
		for {
			conn, err := s.ln.Accept()
			if err != nil {
				return
			}
			s.mu.Lock()
			s.conns = append(s.conns, conn)
			s.mu.Unlock()
			go s.serve(conn)
		}
	}()
	return s, nil
}

func (s *faultServer) set(sc *script) { s.cur.Store(sc) }

func (s *faultServer) closeConns() {
	s.mu.Lock()
	cs := s.conns
	s.conns = nil
	s.mu.Unlock()
	for _, c := range cs {
		c.Close()
	}
}

func (s *faultServer) close() {
	atomic.StoreInt32(&s.stopped, 1)
	s.ln.Close()
	s.closeConns()
}

func answer(body []byte) []byte { return append([]byte("echo:"), body...) }

func (s *faultServer) serve(conn net.Conn) {
	for {
		sc, _ := s.cur.Load().(*script)
		if sc == nil {
			index, body, _, err := peer.ReadTCPFrame(conn)
			if err != nil {
				conn.Close()
				return
			}
			// the script may have changed while waiting for the request
			if sc2, _ := s.cur.Load().(*script); sc2 != nil {
				s.act(conn, sc2, index)
				return
			}
			conn.Write(peer.TCPFrame(index, answer(body), false))
			continue
		}
		var index uint32
		if sc.read < 0 {
			var err error
			index, _, _, err = peer.ReadTCPFrame(conn)
			if err != nil {
				conn.Close()
				return
			}
		} else if sc.read > 0 {
			buf := make([]byte, sc.read)
			if _, err := io.ReadFull(conn, buf); err != nil {
				conn.Close()
				return
			}
		}
		s.act(conn, sc, index)
		return
	}
}

func (s *faultServer) act(conn net.Conn, sc *script, index uint32) {
	if sc.write != nil {
		conn.Write(sc.write(index))
	}
	switch sc.action {
	case "close":
		conn.Close()
	case "reset":
		if tc, ok := conn.(*net.TCPConn); ok {
			tc.SetLinger(0)
		}
		conn.Close()
	case "silent":
		// keep the connection open and say nothing more
	}
}

func streamScripts() []*script {
	good := func(index uint32) []byte { return peer.TCPFrame(index, []byte("a response body of some length"), false) }
	var out []*script
	for _, action := range []string{"close", "reset", "silent"} {
		out = append(out,
			&script{"before-request", 0, nil, action},
			&script{"mid-request-header", 6, nil, action},
			&script{"mid-request-body", 12 + 3, nil, action},
			&script{"after-request", -1, nil, action},
			&script{"mid-response-header", -1, func(i uint32) []byte { return good(i)[:6] }, action},
			&script{"mid-response-body", -1, func(i uint32) []byte { return good(i)[:12+5] }, action},
		)
	}
	out = append(out,
		&script{"garbage-response", -1, func(i uint32) []byte { return []byte("this is not a frame at all, not even close........") }, "silent"},
		&script{"huge-declared-length", -1, func(i uint32) []byte { return peer.TCPFrameDeclared(i, 64<<20, []byte("x"), false) }, "silent"},
		&script{"error-flag", -1, func(i uint32) []byte { return peer.TCPFrame(i, []byte("fatal"), true) }, "silent"},
		&script{"answer-to-another-index", -1, func(i uint32) []byte { return peer.TCPFrame(i+7, []byte("stray"), false) }, "silent"},
	)
	return out
}

// ---- ending modes ----

type mode struct {
	name string
	// set up the call's context; returns ctx and what to do after the call has been started
	prepare func(c *core.Client) (ctx context.Context, after func())
	// the call may legitimately stay pending when the peer is merely silent
	endsSilence bool
}

func modes() []mode {
	return []mode{
		{"no-timeout", func(c *core.Client) (context.Context, func()) {
			ctx, _ := peer.Ctx(c, -1)
			return ctx, func() {}
		}, false},
		{"client-timeout", func(c *core.Client) (context.Context, func()) {
			ctx, _ := peer.Ctx(c, 150*time.Millisecond)
			return ctx, func() {}
		}, true},
		{"context-deadline", func(c *core.Client) (context.Context, func()) {
			ctx, _ := peer.Ctx(c, -1)
			ctx, cancel := context.WithTimeout(ctx, 150*time.Millisecond)
			_ = cancel
			return ctx, func() {}
		}, true},
		{"context-cancel", func(c *core.Client) (context.Context, func()) {
			ctx, _ := peer.Ctx(c, -1)
			ctx, cancel := context.WithCancel(ctx)
			return ctx, func() { time.Sleep(40 * time.Millisecond); cancel() }
		}, true},
		{"abort", func(c *core.Client) (context.Context, func()) {
			ctx, _ := peer.Ctx(c, -1)
			return ctx, func() { time.Sleep(40 * time.Millisecond); c.Abort() }
		}, true},
		// a long time-out is in force (as by default) and the call is ended earlier: it must end then, not at the time-out
		{"abort-with-long-timeout", func(c *core.Client) (context.Context, func()) {
			ctx, _ := peer.Ctx(c, longTimeout)
			return ctx, func() { time.Sleep(40 * time.Millisecond); c.Abort() }
		}, true},
		{"cancel-with-long-timeout", func(c *core.Client) (context.Context, func()) {
			ctx, _ := peer.Ctx(c, longTimeout)
			ctx, cancel := context.WithCancel(ctx)
			return ctx, func() { time.Sleep(40 * time.Millisecond); cancel() }
		}, true},
		// the caller's context has a late deadline of its own: the configured time-out still applies
		{"client-timeout-under-a-later-context-deadline", func(c *core.Client) (context.Context, func()) {
			ctx, _ := peer.Ctx(c, 150*time.Millisecond)
			ctx, cancel := context.WithTimeout(ctx, longTimeout)
			_ = cancel
			return ctx, func() {}
		}, true},
	}
}

// longTimeout is far beyond the instant at which the modes above end their call.
const longTimeout = 30 * time.Second

// prompt is the generous bound for "ends when it is ended, not at the long time-out".
const prompt = 6 * time.Second

type result struct {
	resp []byte
	err  error
	took time.Duration
}

func startCall(c *core.Client, ctx context.Context, body []byte) chan result {
	ch := make(chan result, 1)
	go func() {
		t0 := time.Now()
		resp, err := c.Request(ctx, body)
		ch <- result{resp, err, time.Since(t0)}
	}()
	return ch
}

func await(ch chan result, d time.Duration) (result, bool) {
	select {
	case r := <-ch:
		return r, true
	case <-time.After(d):
		return result{}, false
	}
}

func TestCheck(t *testing.T) {
	peer.Register()
	r0 := h.Start(t, "C10")
	defer r0.Finish()
	// the thorough tier repeats every case (fresh peers, fresh client, other timing) several times
	reps := r0.Pick(1, 5)
	if light {
		reps = 1
	}
	r := &repeater{Run: r0, reps: reps}
	r.Meta("rule", "(A) fault-scripted peers: tcp/unix servers that close, reset or fall silent before the request, mid request header, mid request body, after the request, mid response header and mid response body, or answer garbage, a 64 MiB declared length, an error-flagged frame or another call's index; websocket servers that refuse or stall the handshake, close, fall silent, send partial frames or garbage; udp peers that are silent, absent (ICMP refusal) or send garbage; http servers (for the net/http and, in processes of their own, the fasthttp client) that close or stall before/inside the response; a mock service that blocks. Each fault x ending mode {no time-out, client time-out 150 ms, context deadline 150 ms, context cancellation at 40 ms, Abort at 40 ms}. Oracle: the call returns (a call still pending 8 s after it had to end is a violation: connection loss must end it even without a time-out), it returns an error, afterwards the peer turns healthy and the same client must succeed within three attempts; after each batch Abort is called and the client-side goroutines (stack frames inside the transports' conn/Transport and core.Client) and the pending-entry count read through the verif hook must be zero. (B) forced schedules through the verif yield points {before-register, registered, enqueued, before-clean, after-clean} of the tcp/unix/ws/udp connections: a call is held at a point while Abort, connection loss or cancellation happens, then released; it must return and leave no pending entry. Also: 60 (600 thorough) calls per transport whose context is already cancelled or cancelled at once (pending entries are read before Abort sweeps them); connections whose writes fail while the read side stays quiet (injected through Transport.OnConnect) x ending modes; 1/2/4/9 calls pending on a silent service ended by Abort and by cancelling each, on every transport. (C) slow and never-returning service functions under the service-side ExecuteTimeout plugin and under client time-outs, over every transport. (D) reverse calls to absent, slow and vanishing providers with time-out, cancellation and no time-out. distinct_nontrivial = distinct (part, transport, fault, mode) cells Added: calls whose context is already cancelled (pending entries read before Abort sweeps them), connections whose writes fail while the read side stays quiet, several calls pending at Abort on every transport. Round 3 additions: ending modes with a long time-out in force (Abort, cancellation, configured time-out under a later context deadline) judged against a 6 s bound; oversized udp requests leave no pending entry.")
	r.Meta("assumptions", []string{"time-outs of 150 ms; a call counts as hung when still pending 8 s after the event that must end it (generous wall-clock watchdog; lateness below it is recorded, not judged)", "one fault per connection"})
	if peer.FastHTTPClient {
		for _, kind := range []string{"http", "fasthttp"} {
			kind := kind
			r.Case("abort-many/fasthttp-client-to-"+kind, func(c *h.Case) { abortMany(c, kind) })
		}
		for _, sc := range httpScripts() {
			sc := sc
			for _, m := range modes() {
				m := m
				r.Case(fmt.Sprintf("http-fault/fasthttp-client/%s/%s", sc.name, m.name), func(c *h.Case) { httpFault(c, sc, m) })
			}
		}
		return
	}
	for _, kind := range []string{"tcp", "unix"} {
		kind := kind
		for _, sc := range streamScripts() {
			sc := sc
			if kind == "unix" && sc.action == "reset" {
				continue
			}
			for _, m := range modes() {
				m := m
				r.Case(fmt.Sprintf("stream-fault/%s/%s-%s/%s", kind, sc.name, sc.action, m.name), func(c *h.Case) { streamFault(c, kind, sc, m) })
			}
		}
		r.Case("leaks/"+kind, func(c *h.Case) { leakCase(c, kind) })
	}
	for _, kind := range []string{"tcp", "unix", "udp", "ws"} {
		kind := kind
		r.Case("cancelled-before-send/"+kind, func(c *h.Case) { cancelledBeforeSend(c, kind) })
	}
	for _, kind := range []string{"tcp", "unix", "udp"} {
		kind := kind
		for _, m := range modes() {
			m := m
			r.Case(fmt.Sprintf("write-fails/%s/%s", kind, m.name), func(c *h.Case) { writeFails(c, kind, m) })
		}
	}
	for _, f := range wsFaults() {
		f := f
		for _, m := range modes() {
			m := m
			r.Case(fmt.Sprintf("ws-fault/%s/%s", f.name, m.name), func(c *h.Case) { wsFault(c, f, m) })
		}
	}
	r.Case("leaks/ws", func(c *h.Case) { leakCase(c, "ws") })
	for _, f := range []string{"silent", "absent", "garbage", "short-datagram", "error-flag", "other-index"} {
		f := f
		for _, m := range modes() {
			m := m
			r.Case(fmt.Sprintf("udp-fault/%s/%s", f, m.name), func(c *h.Case) { udpFault(c, f, m) })
		}
	}
	r.Case("leaks/udp", func(c *h.Case) { leakCase(c, "udp") })
	for _, sc := range httpScripts() {
		sc := sc
		for _, m := range modes() {
			m := m
			r.Case(fmt.Sprintf("http-fault/net-http-client/%s/%s", sc.name, m.name), func(c *h.Case) { httpFault(c, sc, m) })
		}
	}
	for _, m := range modes() {
		m := m
		r.Case("mock-blocked/"+m.name, func(c *h.Case) { mockBlocked(c, m) })
	}
	for _, kind := range []string{"tcp", "unix", "ws", "udp"} {
		kind := kind
		for _, point := range []string{"before-register", "registered", "enqueued"} {
			point := point
			for _, event := range []string{"abort", "peer-closes", "cancel"} {
				event := event
				if kind == "udp" && event == "peer-closes" {
					continue
				}
				r.Case(fmt.Sprintf("forced/%s/%s/%s", kind, point, event), func(c *h.Case) { forcedCase(c, kind, point, event) })
			}
		}
		for _, point := range []string{"before-clean", "after-clean"} {
			point := point
			r.Case(fmt.Sprintf("forced/%s/%s/new-call", kind, point), func(c *h.Case) { forcedCleanCase(c, kind, point) })
		}
	}
	for _, kind := range peer.Kinds {
		kind := kind
		r.Case("slow-service/"+kind, func(c *h.Case) { slowService(c, kind) })
		r.Case("abort-many/"+kind, func(c *h.Case) { abortMany(c, kind) })
	}
	for _, kind := range []string{"mock", "tcp"} {
		kind := kind
		r.Case("reverse/"+kind, func(c *h.Case) { reverseCase(c, kind) })
	}
}

// repeater registers each case reps times.
type repeater struct {
	*h.Run
	reps int
}

func (rp *repeater) Case(id string, fn func(c *h.Case)) {
	for i := 0; i < rp.reps; i++ {
		cid := id
		if i > 0 {
			cid = fmt.Sprintf("%s#%d", id, i+1)
		}
		rp.Run.Case(cid, fn)
	}
}

// judge evaluates one faulty call.
func judge(c *h.Case, sigBase string, m mode, silentFault bool, ch chan result, rep map[string]interface{}) (returned bool) {
	r := c.R
	r.Eval(1)
	if silentFault && !m.endsSilence {
		// nothing obliges this call to end: it must still be pending, and Abort must end it
		if res, ok := await(ch, 300*time.Millisecond); ok {
			if res.err == nil {
				c.Violation("call-succeeded-without-response:"+sigBase, fmt.Sprintf("returned %q", res.resp), rep)
			}
			return true
		}
		return false
	}
	bound := watchdog
	if strings.Contains(m.name, "long-timeout") || strings.Contains(m.name, "later-context-deadline") {
		bound = prompt
	}
	res, ok := await(ch, bound)
	if !ok {
		c.Violation("call-never-returned:"+sigBase+":"+m.name, fmt.Sprintf("still pending %v after the event that had to end it (a %v time-out or deadline is the only thing left to end it)", bound, longTimeout), rep)
		return false
	}
	r.StatMax("max_return_ms:"+m.name, res.took.Milliseconds())
	if res.err == nil {
		c.Violation("call-succeeded-without-response:"+sigBase, fmt.Sprintf("returned %q without error although no complete response was sent", res.resp), rep)
	}
	return true
}

// recoverCheck: the peer is healthy again; the same client must succeed.
func recoverCheck(c *h.Case, client *core.Client, sigBase string, rep map[string]interface{}) {
	var last error
	for try := 0; try < 3; try++ {
		ctx, _ := peer.Ctx(client, 3*time.Second)
		resp, err := client.Request(ctx, []byte("after the fault"))
		if err == nil && string(resp) == "echo:after the fault" {
			return
		}
		last = fmt.Errorf("resp=%q err=%v", resp, err)
	}
	c.Violation("client-unusable-after-fault:"+sigBase, fmt.Sprintf("three attempts against the now healthy peer failed: %v", last), rep)
}

// quiesce: Abort, then no client goroutine and no pending entry may remain.
func quiesce(c *h.Case, kind string, client *core.Client, sigBase string, rep map[string]interface{}, stillPending int) {
	// every call has returned: its pending entry must be gone already, before Abort sweeps the tables
	if hk := hooksFor(kind); hk != nil {
		if conns, pending := hk.pending(); pending > stillPending {
			c.Violation("pending-entries-remain:"+sigBase, fmt.Sprintf("%d pending-call entries remain on %d connections although every call has returned (before Abort)", pending, conns), rep)
		}
	}
	client.Abort()
	n, sample := settle()
	if n > stillPending {
		c.Violation("goroutines-remain-after-abort:"+sigBase, fmt.Sprintf("%d client-side goroutines remain after the calls returned and Abort was called:\n%s", n, clipS(sample, 900)), rep)
	}
	if hk := hooksFor(kind); hk != nil {
		conns, pending := hk.pending()
		c.R.StatMax("connections_opened_per_case", int64(conns))
		if pending > stillPending {
			c.Violation("pending-entries-remain:"+sigBase, fmt.Sprintf("%d pending-call entries remain on %d connections after every call returned", pending, conns), rep)
		}
	}
}

func clipS(s string, n int) string {
	if len(s) > n {
		return s[:n] + "…"
	}
	return s
}

func streamFault(c *h.Case, kind string, sc *script, m mode) {
	r := c.R
	hk := hooksFor(kind)
	hk.reset()
	markBaseline()
	hk.setYield(nil)
	srv, err := startFaultServer(kind)
	if err != nil {
		r.Inconclusive(err.Error())
		return
	}
	defer srv.close()
	client := core.NewClient(srv.url)
	rep := map[string]interface{}{"transport": kind, "fault": sc.name, "action": sc.action, "mode": m.name}
	sigBase := kind + ":" + sc.name + "-" + sc.action
	// a healthy exchange first, so that the fault hits an established, pooled connection too
	established := sc.read != 0
	if established {
		ctx, _ := peer.Ctx(client, 3*time.Second)
		if _, err := client.Request(ctx, []byte("warm up")); err != nil {
			r.Inconclusive("warm-up call failed: " + err.Error())
			return
		}
	}
	srv.set(sc)
	if sc.read == 0 {
		srv.closeConns()
	}
	ctx, after := m.prepare(client)
	ch := startCall(client, ctx, []byte("the request body under test"))
	go after()
	silent := sc.action == "silent"
	// an established connection keeps serving the healthy loop until the script is seen: the
	// script is picked up after the request has been read whole
	returned := judge(c, sigBase, m, silent && (sc.name != "error-flag" && sc.name != "garbage-response"), ch, rep)
	if !returned {
		if silent && !m.endsSilence {
			// end it by Abort
			client.Abort()
			if _, ok := await(ch, watchdog); !ok {
				c.Violation("call-never-returned:"+sigBase+":abort-after-silence", "a call pending on a silent peer did not return after Abort", rep)
			}
		}
	}
	srv.set(nil)
	srv.closeConns()
	recoverCheck(c, client, sigBase, rep)
	quiesce(c, kind, client, sigBase, rep, 0)
	r.Distinct(fmt.Sprintf("stream|%s|%s|%s|%s", kind, sc.name, sc.action, m.name))
}

// leakCase: many failed and successful calls with Aborts in between; goroutines and pending
// entries must not grow with the number of rounds.
func leakCase(c *h.Case, kind string) {
	r := c.R
	hk := hooksFor(kind)
	hk.reset()
	markBaseline()
	hk.setYield(nil)
	svc := core.NewService()
	svc.Use(core.IOHandler(func(ctx context.Context, request []byte, next core.NextIOHandler) ([]byte, error) {
		if string(request) == "slow" {
			time.Sleep(300 * time.Millisecond)
		}
		return answer(request), nil
	}))
	srv, err := peer.Start(kind, svc)
	if err != nil {
		r.Inconclusive(err.Error())
		return
	}
	defer srv.Close()
	client := srv.NewClient()
	rounds := r.Pick(30, 150)
	if light {
		rounds = 10
	}
	measure := func() int {
		n, _ := settle()
		return n
	}
	var after5 int
	for i := 0; i < rounds; i++ {
		// a healthy call, a call that times out, a call that is cancelled, then Abort
		ctx, _ := peer.Ctx(client, 3*time.Second)
		if resp, err := client.Request(ctx, []byte("x")); err != nil || string(resp) != "echo:x" {
			c.Violation("healthy-call-failed-after-aborts:"+kind, fmt.Sprintf("round %d: %q %v", i, resp, err), nil)
			break
		}
		ctx, _ = peer.Ctx(client, 20*time.Millisecond)
		client.Request(ctx, []byte("slow"))
		ctx, _ = peer.Ctx(client, -1)
		cctx, cancel := context.WithCancel(ctx)
		ch := startCall(client, cctx, []byte("slow"))
		time.Sleep(5 * time.Millisecond)
		cancel()
		await(ch, watchdog)
		ch = startCall(client, ctx, []byte("slow"))
		time.Sleep(5 * time.Millisecond)
		client.Abort()
		if _, ok := await(ch, watchdog); !ok {
			c.Violation("call-never-returned:"+kind+":abort", fmt.Sprintf("round %d: a pending call did not return after Abort", i), nil)
			break
		}
		r.Eval(4)
		if i == 4 {
			after5 = measure()
		}
	}
	end := measure()
	_, pending := hk.pending()
	r.Stat("leak_rounds:"+kind, int64(rounds))
	if end > 0 {
		_, sample := clientGoroutines()
		c.Violation("goroutines-accumulate:"+kind, fmt.Sprintf("%d client-side goroutines remain after %d rounds that each ended with Abort (%d after 5 rounds):\n%s", end, rounds, after5, clipS(sample, 900)), nil)
	}
	if pending > 0 {
		c.Violation("pending-entries-accumulate:"+kind, fmt.Sprintf("%d pending-call entries remain after %d rounds although every call returned", pending, rounds), nil)
	}
	r.Distinct("leaks|" + kind)
}

// ---- websocket faults ----

type wsF struct {
	name   string
	silent bool // the peer merely stops talking
	serve  func(w nethttp.ResponseWriter, req *nethttp.Request, up *fws.Upgrader)
	rawTCP func(conn net.Conn) // when set the listener does not speak http at all
}

func wsFaults() []wsF {
	readOne := func(conn *fws.Conn) (uint32, bool) {
		_, data, err := conn.ReadMessage()
		if err != nil || len(data) < 4 {
			return 0, false
		}
		return uint32(data[0]&0x7f)<<24 | uint32(data[1])<<16 | uint32(data[2])<<8 | uint32(data[3]), true
	}
	hold := func() { time.Sleep(20 * time.Second) }
	return []wsF{
		{name: "handshake-refused", rawTCP: func(conn net.Conn) { conn.Close() }},
		{name: "handshake-stalls", silent: true, rawTCP: func(conn net.Conn) { time.Sleep(20 * time.Second); conn.Close() }},
		{name: "handshake-http-error", serve: func(w nethttp.ResponseWriter, req *nethttp.Request, up *fws.Upgrader) { w.WriteHeader(403) }},
		{name: "close-after-request", serve: func(w nethttp.ResponseWriter, req *nethttp.Request, up *fws.Upgrader) {
			conn, err := up.Upgrade(w, req, nil)
			if err != nil {
				return
			}
			readOne(conn)
			conn.UnderlyingConn().Close()
		}},
		{name: "close-frame-after-request", serve: func(w nethttp.ResponseWriter, req *nethttp.Request, up *fws.Upgrader) {
			conn, err := up.Upgrade(w, req, nil)
			if err != nil {
				return
			}
			readOne(conn)
			conn.WriteMessage(fws.CloseMessage, fws.FormatCloseMessage(1000, "bye"))
			time.Sleep(50 * time.Millisecond)
			conn.Close()
		}},
		{name: "silent-after-request", silent: true, serve: func(w nethttp.ResponseWriter, req *nethttp.Request, up *fws.Upgrader) {
			conn, err := up.Upgrade(w, req, nil)
			if err != nil {
				return
			}
			defer conn.Close()
			readOne(conn)
			hold()
		}},
		{name: "partial-frame-then-close", serve: func(w nethttp.ResponseWriter, req *nethttp.Request, up *fws.Upgrader) {
			conn, err := up.Upgrade(w, req, nil)
			if err != nil {
				return
			}
			readOne(conn)
			// a binary frame header announcing 100 bytes, followed by 10
			conn.UnderlyingConn().Write(append([]byte{0x82, 100}, make([]byte, 10)...))
			conn.UnderlyingConn().Close()
		}},
		{name: "partial-frame-then-silent", silent: true, serve: func(w nethttp.ResponseWriter, req *nethttp.Request, up *fws.Upgrader) {
			conn, err := up.Upgrade(w, req, nil)
			if err != nil {
				return
			}
			defer conn.Close()
			readOne(conn)
			conn.UnderlyingConn().Write(append([]byte{0x82, 100}, make([]byte, 10)...))
			hold()
		}},
		{name: "garbage-bytes", serve: func(w nethttp.ResponseWriter, req *nethttp.Request, up *fws.Upgrader) {
			conn, err := up.Upgrade(w, req, nil)
			if err != nil {
				return
			}
			defer conn.Close()
			readOne(conn)
			conn.UnderlyingConn().Write([]byte("\xff\xff\xff\xff\xff garbage that is no websocket frame at all"))
			hold()
		}},
		{name: "short-message", serve: func(w nethttp.ResponseWriter, req *nethttp.Request, up *fws.Upgrader) {
			conn, err := up.Upgrade(w, req, nil)
			if err != nil {
				return
			}
			defer conn.Close()
			readOne(conn)
			conn.WriteMessage(fws.BinaryMessage, []byte{1, 2})
			hold()
		}},
		{name: "answer-to-another-index", silent: true, serve: func(w nethttp.ResponseWriter, req *nethttp.Request, up *fws.Upgrader) {
			conn, err := up.Upgrade(w, req, nil)
			if err != nil {
				return
			}
			defer conn.Close()
			idx, _ := readOne(conn)
			conn.WriteMessage(fws.BinaryMessage, peer.WSFrame(idx+9, []byte("stray"), false))
			hold()
		}},
	}
}

func wsFault(c *h.Case, f wsF, m mode) {
	r := c.R
	hk := hooksFor("ws")
	hk.reset()
	markBaseline()
	hk.setYield(nil)
	ln, err := net.Listen("tcp", "127.0.0.1:0")
	if err != nil {
		r.Inconclusive(err.Error())
		return
	}
	var healthy int32
	up := &fws.Upgrader{Subprotocols: []string{"hprose"}}
	echo := func(w nethttp.ResponseWriter, req *nethttp.Request) {
		conn, err := up.Upgrade(w, req, nil)
		if err != nil {
			return
		}
		defer conn.Close()
		for {
			_, data, err := conn.ReadMessage()
			if err != nil || len(data) < 4 {
				return
			}
			conn.WriteMessage(fws.BinaryMessage, append(append([]byte(nil), data[:4]...), answer(data[4:])...))
		}
	}
	var rawConns []net.Conn
	var mu sync.Mutex
	var server *nethttp.Server
	if f.rawTCP != nil {
		// a listener that hands connections to the raw handler until it is told to be healthy
		inner := &switchListener{Listener: ln, raw: func(conn net.Conn) bool {
			if atomic.LoadInt32(&healthy) == 1 {
				return false
			}
			mu.Lock()
			rawConns = append(rawConns, conn)
			mu.Unlock()
			go f.rawTCP(conn)
			return true
		}}
		server = &nethttp.Server{Handler: nethttp.HandlerFunc(echo)}
		go server.Serve(inner)
	} else {
		server = &nethttp.Server{Handler: nethttp.HandlerFunc(func(w nethttp.ResponseWriter, req *nethttp.Request) {
			if atomic.LoadInt32(&healthy) == 1 {
				echo(w, req)
				return
			}
			f.serve(w, req, up)
		})}
		go server.Serve(ln)
	}
	defer func() {
		server.Close()
		mu.Lock()
		for _, c := range rawConns {
			c.Close()
		}
		mu.Unlock()
	}()
	client := core.NewClient("ws://" + ln.Addr().String() + "/")
	rep := map[string]interface{}{"transport": "ws", "fault": f.name, "mode": m.name}
	sigBase := "ws:" + f.name
	ctx, after := m.prepare(client)
	ch := startCall(client, ctx, []byte("the request body under test"))
	go after()
	returned := judge(c, sigBase, m, f.silent, ch, rep)
	if !returned && f.silent && !m.endsSilence {
		client.Abort()
		if _, ok := await(ch, watchdog); !ok {
			c.Violation("call-never-returned:"+sigBase+":abort-after-silence", "a call pending on a silent peer did not return after Abort", rep)
		}
	}
	atomic.StoreInt32(&healthy, 1)
	mu.Lock()
	for _, c := range rawConns {
		c.Close()
	}
	mu.Unlock()
	client.Abort()
	recoverCheck(c, client, sigBase, rep)
	quiesce(c, "ws", client, sigBase, rep, 0)
	r.Distinct("ws|" + f.name + "|" + m.name)
}

// switchListener lets a raw handler take connections away from the http server.
type switchListener struct {
	net.Listener
	raw func(conn net.Conn) bool
}

func (l *switchListener) Accept() (net.Conn, error) {
	for {
		conn, err := l.Listener.Accept()
		if err != nil {
			return nil, err
		}
		if l.raw(conn) {
			continue
		}
		return conn, nil
	}
}

// ---- udp faults ----

func udpFault(c *h.Case, f string, m mode) {
	r := c.R
	hk := hooksFor("udp")
	hk.reset()
	markBaseline()
	hk.setYield(nil)
	pc, err := net.ListenUDP("udp", &net.UDPAddr{IP: net.IPv4(127, 0, 0, 1)})
	if err != nil {
		r.Inconclusive(err.Error())
		return
	}
	addr := pc.LocalAddr().String()
	var healthy int32
	serve := func(pc *net.UDPConn) {
		buf := make([]byte, 65536)
		for {
			n, from, err := pc.ReadFromUDP(buf)
			if err != nil {
				return
			}
			index, _, body, _, perr := peer.ParseUDPFrame(buf[:n])
			if perr != nil {
				continue
			}
			if atomic.LoadInt32(&healthy) == 1 {
				pc.WriteToUDP(peer.UDPFrame(index, answer(body), false), from)
				continue
			}
			switch f {
			case "silent":
			case "garbage":
				pc.WriteToUDP([]byte("garbage datagram that is long enough to carry a header"), from)
			case "short-datagram":
				pc.WriteToUDP([]byte{1, 2, 3}, from)
			case "error-flag":
				pc.WriteToUDP(peer.UDPFrame(index, []byte("fatal"), true), from)
			case "other-index":
				pc.WriteToUDP(peer.UDPFrame(index^5, []byte("stray"), false), from)
			}
		}
	}
	if f == "absent" {
		pc.Close()
	} else {
		go serve(pc)
		defer pc.Close()
	}
	client := core.NewClient("udp://" + addr)
	rep := map[string]interface{}{"transport": "udp", "fault": f, "mode": m.name}
	sigBase := "udp:" + f
	ctx, after := m.prepare(client)
	ch := startCall(client, ctx, []byte("the request body under test"))
	go after()
	silent := f == "silent" || f == "other-index"
	returned := judge(c, sigBase, m, silent, ch, rep)
	if !returned && silent && !m.endsSilence {
		client.Abort()
		if _, ok := await(ch, watchdog); !ok {
			c.Violation("call-never-returned:"+sigBase+":abort-after-silence", "a call pending on a silent peer did not return after Abort", rep)
		}
	}
	// healthy again (for "absent": a new socket on the same port)
	atomic.StoreInt32(&healthy, 1)
	if f == "absent" {
		ua, _ := net.ResolveUDPAddr("udp", addr)
		pc2, err := net.ListenUDP("udp", ua)
		if err != nil {
			r.Stat("udp_port_not_reusable", 1)
			quiesce(c, "udp", client, sigBase, rep, 0)
			return
		}
		go serve(pc2)
		defer pc2.Close()
	}
	recoverCheck(c, client, sigBase, rep)
	quiesce(c, "udp", client, sigBase, rep, 0)
	r.Distinct("udp|" + f + "|" + m.name)
}

// ---- http faults ----

type httpScript struct {
	name   string
	silent bool
	act    func(conn net.Conn)
}

func httpScripts() []httpScript {
	readReq := func(conn net.Conn) {
		buf := make([]byte, 8192)
		conn.SetReadDeadline(time.Now().Add(2 * time.Second))
		conn.Read(buf)
	}
	hold := func(conn net.Conn) { time.Sleep(20 * time.Second); conn.Close() }
	return []httpScript{
		{"close-before-request", false, func(conn net.Conn) { conn.Close() }},
		{"close-after-request", false, func(conn net.Conn) { readReq(conn); conn.Close() }},
		{"silent-after-request", true, func(conn net.Conn) { readReq(conn); hold(conn) }},
		{"partial-status-line-then-close", false, func(conn net.Conn) { readReq(conn); conn.Write([]byte("HTTP/1.1 20")); conn.Close() }},
		{"partial-headers-then-silent", true, func(conn net.Conn) { readReq(conn); conn.Write([]byte("HTTP/1.1 200 OK\r\nContent-Le")); hold(conn) }},
		{"partial-body-then-close", false, func(conn net.Conn) {
			readReq(conn)
			conn.Write([]byte("HTTP/1.1 200 OK\r\nContent-Length: 100\r\n\r\nonly this"))
			conn.Close()
		}},
		{"partial-body-then-silent", true, func(conn net.Conn) {
			readReq(conn)
			conn.Write([]byte("HTTP/1.1 200 OK\r\nContent-Length: 100\r\n\r\nonly this"))
			hold(conn)
		}},
		{"garbage", false, func(conn net.Conn) { readReq(conn); conn.Write([]byte("\x00\x01\x02 this is not http\r\n\r\n")); conn.Close() }},
		{"status-500", false, func(conn net.Conn) {
			readReq(conn)
			conn.Write([]byte("HTTP/1.1 500 Internal Server Error\r\nContent-Length: 0\r\nConnection: close\r\n\r\n"))
			conn.Close()
		}},
	}
}

func httpFault(c *h.Case, sc httpScript, m mode) {
	r := c.R
	ln, err := net.Listen("tcp", "127.0.0.1:0")
	if err != nil {
		r.Inconclusive(err.Error())
		return
	}
	var healthy int32
	var mu sync.Mutex
	var rawConns []net.Conn
	inner := &switchListener{Listener: ln, raw: func(conn net.Conn) bool {
		if atomic.LoadInt32(&healthy) == 1 {
			return false
		}
		mu.Lock()
		rawConns = append(rawConns, conn)
		mu.Unlock()
		go sc.act(conn)
		return true
	}}
	server := &nethttp.Server{Handler: nethttp.HandlerFunc(func(w nethttp.ResponseWriter, req *nethttp.Request) {
		body, _ := io.ReadAll(req.Body)
		w.Write(answer(body))
	})}
	go server.Serve(inner)
	defer func() {
		server.Close()
		mu.Lock()
		for _, c := range rawConns {
			c.Close()
		}
		mu.Unlock()
	}()
	client := core.NewClient("http://" + ln.Addr().String() + "/")
	which := "net-http-client"
	if peer.FastHTTPClient {
		which = "fasthttp-client"
	}
	rep := map[string]interface{}{"transport": which, "fault": sc.name, "mode": m.name}
	sigBase := which + ":" + sc.name
	ctx, after := m.prepare(client)
	ch := startCall(client, ctx, []byte("the request body under test"))
	go after()
	returned := judge(c, sigBase, m, sc.silent, ch, rep)
	if !returned && sc.silent && !m.endsSilence {
		client.Abort()
		if _, ok := await(ch, watchdog); !ok {
			c.Violation("call-never-returned:"+sigBase+":abort-after-silence", "a call pending on a silent peer did not return after Abort", rep)
		}
	}
	atomic.StoreInt32(&healthy, 1)
	mu.Lock()
	for _, c := range rawConns {
		c.Close()
	}
	mu.Unlock()
	recoverCheck(c, client, sigBase, rep)
	client.Abort()
	r.Distinct("http|" + which + "|" + sc.name + "|" + m.name)
}

// ---- mock ----

func mockBlocked(c *h.Case, m mode) {
	r := c.R
	svc := core.NewService()
	release := make(chan struct{})
	var blocking int32 = 1
	svc.Use(core.IOHandler(func(ctx context.Context, request []byte, next core.NextIOHandler) ([]byte, error) {
		if atomic.LoadInt32(&blocking) == 1 {
			<-release
		}
		return answer(request), nil
	}))
	name := fmt.Sprintf("c10-mock-%d-%s", os.Getpid(), m.name)
	if err := svc.Bind(mock.Server{Address: name}); err != nil {
		r.Inconclusive(err.Error())
		return
	}
	defer mock.Server{Address: name}.Close()
	defer close(release)
	client := core.NewClient("mock://" + name)
	rep := map[string]interface{}{"transport": "mock", "mode": m.name}
	ctx, after := m.prepare(client)
	ch := startCall(client, ctx, []byte("blocked"))
	go after()
	returned := judge(c, "mock:service-blocks", m, true, ch, rep)
	if !returned {
		client.Abort()
		if _, ok := await(ch, watchdog); !ok {
			c.Violation("call-never-returned:mock:abort-after-silence", "a call pending on a blocked mock service did not return after Abort", rep)
		}
	}
	atomic.StoreInt32(&blocking, 0)
	recoverCheck(c, client, "mock:service-blocks", rep)
	r.Distinct("mock|" + m.name)
}

// ---- (B) forced schedules ----

type peerCtl struct {
	url        string
	closeConns func()
	close      func()
}

func healthyPeer(kind string) (*peerCtl, error) {
	switch kind {
	case "tcp", "unix":
		s, err := startFaultServer(kind)
		if err != nil {
			return nil, err
		}
		return &peerCtl{s.url, s.closeConns, s.close}, nil
	case "ws", "udp":
		rs, err := peer.StartRaw(kind)
		if err != nil {
			return nil, err
		}
		done := make(chan struct{})
		var mu sync.Mutex
		var conns []*peer.RawConn
		go func() {
			for {
				select {
				case q := <-rs.Reqs:
					rs.Reply(q.Conn, q.Index, answer(q.Body), false)
				case cn := <-rs.Conns:
					mu.Lock()
					conns = append(conns, cn)
					mu.Unlock()
				case <-done:
					return
				}
			}
		}()
		return &peerCtl{rs.URL, func() {
			mu.Lock()
			cs := conns
			conns = nil
			mu.Unlock()
			for _, cn := range cs {
				rs.CloseConn(cn)
			}
		}, func() { close(done); rs.Close() }}, nil
	}
	return nil, errors.New("no peer for " + kind)
}

func forcedCase(c *h.Case, kind, point, event string) {
	r := c.R
	hk := hooksFor(kind)
	hk.reset()
	markBaseline()
	hk.setYield(nil)
	p, err := healthyPeer(kind)
	if err != nil {
		r.Inconclusive(err.Error())
		return
	}
	defer p.close()
	client := core.NewClient(p.url)
	rep := map[string]interface{}{"transport": kind, "held_at": point, "event": event}
	sig := fmt.Sprintf("%s:%s:%s", kind, point, event)
	// an established connection
	ctx, _ := peer.Ctx(client, 3*time.Second)
	if _, err := client.Request(ctx, []byte("warm up")); err != nil {
		r.Inconclusive("warm-up failed: " + err.Error())
		return
	}
	time.Sleep(20 * time.Millisecond) // let the peer register the connection
	g := newGate(point)
	cleaned := make(chan struct{}, 16)
	hk.setYield(func(pt string) {
		if pt == "after-clean" {
			select {
			case cleaned <- struct{}{}:
			default:
			}
		}
		g.fn(pt)
	})
	defer hk.setYield(nil)
	base, _ := peer.Ctx(client, -1)
	cctx, cancel := context.WithCancel(base)
	defer cancel()
	ch := startCall(client, cctx, []byte("held call"))
	select {
	case <-g.reached:
	case <-time.After(5 * time.Second):
		r.Inconclusive(fmt.Sprintf("%s: the yield point %q was not reached", kind, point))
		close(g.release)
		return
	}
	switch event {
	case "abort":
		done := make(chan struct{})
		go func() { client.Abort(); close(done) }()
		select {
		case <-done:
		case <-time.After(3 * time.Second):
			// Abort may be waiting for the held goroutine; release it
		}
	case "peer-closes":
		p.closeConns()
		select {
		case <-cleaned:
		case <-time.After(3 * time.Second):
			r.Stat("clean_not_observed", 1)
		}
	case "cancel":
		cancel()
	}
	time.Sleep(10 * time.Millisecond)
	close(g.release)
	r.Eval(1)
	res, ok := await(ch, watchdog)
	conns, pending := hk.pending()
	if !ok {
		c.Violation("call-never-returned:forced:"+sig, fmt.Sprintf("a call without time-out held at %q while %s happened is still pending %v after it was released (connections %d, pending entries %d)", point, event, watchdog, conns, pending), rep)
	} else {
		// (a call that had already been registered may still be answered by a peer that stays up)
		_ = res
		if event == "peer-closes" && point != "enqueued" && res.err == nil {
			c.Violation("call-succeeded-on-closed-connection:"+sig, fmt.Sprintf("returned %q", res.resp), rep)
		}
	}
	hk.setYield(nil)
	if ok {
		recoverCheck(c, client, "forced:"+sig, rep)
		quiesce(c, kind, client, "forced:"+sig, rep, 0)
	} else {
		client.Abort()
	}
	r.Distinct("forced|" + sig)
}

// forcedCleanCase: the goroutine that fails the pending calls of a lost connection is held
// before/after doing so while a new call arrives.
func forcedCleanCase(c *h.Case, kind, point string) {
	r := c.R
	hk := hooksFor(kind)
	hk.reset()
	markBaseline()
	hk.setYield(nil)
	p, err := healthyPeer(kind)
	if err != nil {
		r.Inconclusive(err.Error())
		return
	}
	defer p.close()
	client := core.NewClient(p.url)
	rep := map[string]interface{}{"transport": kind, "cleaner_held_at": point}
	sig := fmt.Sprintf("%s:%s:new-call", kind, point)
	ctx, _ := peer.Ctx(client, 3*time.Second)
	if _, err := client.Request(ctx, []byte("warm up")); err != nil {
		r.Inconclusive("warm-up failed: " + err.Error())
		return
	}
	time.Sleep(20 * time.Millisecond)
	g := newGate(point)
	hk.setYield(g.fn)
	defer hk.setYield(nil)
	// lose the connection: peer closes (stream) or Abort (udp)
	aborted := make(chan struct{})
	if kind == "udp" {
		go func() { client.Abort(); close(aborted) }()
	} else {
		p.closeConns()
		close(aborted)
	}
	select {
	case <-g.reached:
	case <-time.After(5 * time.Second):
		r.Inconclusive(fmt.Sprintf("%s: the cleaner did not reach %q", kind, point))
		close(g.release)
		return
	}
	// a new call while the cleaner is held
	base, _ := peer.Ctx(client, -1)
	ch := startCall(client, base, []byte("new call during cleanup"))
	time.Sleep(30 * time.Millisecond)
	close(g.release)
	r.Eval(1)
	res, ok := await(ch, watchdog)
	conns, pending := hk.pending()
	if !ok {
		c.Violation("call-never-returned:forced:"+sig, fmt.Sprintf("a call without time-out issued while the connection's cleanup was held at %q is still pending %v after the cleanup went on (connections %d, pending entries %d)", point, watchdog, conns, pending), rep)
		client.Abort()
		return
	}
	_ = res
	<-aborted
	hk.setYield(nil)
	recoverCheck(c, client, "forced:"+sig, rep)
	quiesce(c, kind, client, "forced:"+sig, rep, 0)
	r.Distinct("forced|" + sig)
}

// ---- (C) slow service ----

func slowService(c *h.Case, kind string) {
	r := c.R
	svc := core.NewService()
	never := make(chan struct{})
	defer close(never)
	svc.AddFunction(func(ms int) string {
		time.Sleep(time.Duration(ms) * time.Millisecond)
		return "slept"
	}, "sleep")
	svc.AddFunction(func() string { <-never; return "never" }, "never")
	svc.AddFunction(func(i int) int { return i + 1 }, "ok")
	svc.Use(rtimeout.New(120 * time.Millisecond))
	srv, err := peer.Start(kind, svc)
	if err != nil {
		r.Inconclusive(err.Error())
		return
	}
	defer srv.Close()
	client := srv.NewClient()
	defer client.Abort()
	rep := map[string]interface{}{"transport": kind}
	type probe struct {
		name    string
		fn      string
		args    []interface{}
		timeout time.Duration
		wantErr bool
	}
	probes := []probe{
		{"fast-function", "ok", []interface{}{1}, 5 * time.Second, false},
		{"within-service-timeout", "sleep", []interface{}{20}, 5 * time.Second, false},
		{"beyond-service-timeout", "sleep", []interface{}{400}, 5 * time.Second, true},
		{"never-returns/service-timeout", "never", nil, 5 * time.Second, true},
		{"never-returns/client-timeout-first", "never", nil, 40 * time.Millisecond, true},
		{"fast-function-again", "ok", []interface{}{2}, 5 * time.Second, false},
	}
	for _, p := range probes {
		cc := core.NewClientContext()
		cc.Timeout = p.timeout
		ctx := core.WithContext(context.Background(), cc)
		ch := make(chan error, 1)
		t0 := time.Now()
		go func() {
			_, err := client.InvokeContext(ctx, p.fn, p.args)
			ch <- err
		}()
		r.Eval(1)
		select {
		case err := <-ch:
			r.StatMax("slow_service_return_ms:"+p.name, time.Since(t0).Milliseconds())
			if p.wantErr && err == nil {
				c.Violation("slow-call-succeeded:"+kind+":"+p.name, "a call that outlasts its time-out returned a result", rep)
			}
			if !p.wantErr && err != nil {
				c.Violation("healthy-call-failed:"+kind+":"+p.name, err.Error(), rep)
			}
			if p.name == "beyond-service-timeout" && err != nil && err.Error() != "timeout" {
				c.Violation("service-timeout-wrong-error:"+kind, fmt.Sprintf("got %q, want the service's time-out error", err.Error()), rep)
			}
		case <-time.After(watchdog):
			c.Violation("call-never-returned:slow-service:"+kind+":"+p.name, fmt.Sprintf("still pending after %v (service time-out 120 ms, client time-out %v)", watchdog, p.timeout), rep)
		}
	}
	r.Distinct("slow|" + kind)
}

// ---- (D) reverse ----

func reverseCase(c *h.Case, kind string) {
	r := c.R
	svc := core.NewService()
	caller := reverse.NewCaller(svc)
	caller.HeartBeat = 0
	caller.Timeout = 150 * time.Millisecond
	srv, err := peer.Start(kind, svc)
	if err != nil {
		r.Inconclusive(err.Error())
		return
	}
	defer srv.Close()
	rep := map[string]interface{}{"transport": kind}
	run := func(name string, f func() error, wantErr bool) {
		ch := make(chan error, 1)
		go func() { ch <- f() }()
		r.Eval(1)
		select {
		case err := <-ch:
			if wantErr && err == nil {
				c.Violation("reverse-call-succeeded-without-provider:"+kind+":"+name, "no error", rep)
			}
			if !wantErr && err != nil {
				c.Violation("reverse-call-failed:"+kind+":"+name, err.Error(), rep)
			}
		case <-time.After(watchdog):
			c.Violation("call-never-returned:reverse:"+kind+":"+name, fmt.Sprintf("still pending after %v", watchdog), rep)
		}
		r.Distinct("reverse|" + kind + "|" + name)
	}
	// absent provider, with time-out
	run("absent-provider/timeout", func() error { _, err := caller.Invoke("nobody", "work", []interface{}{1}); return err }, true)
	// absent provider, no time-out, cancelled context
	caller.Timeout = 0
	run("absent-provider/cancelled-context", func() error {
		ctx, cancel := context.WithCancel(context.Background())
		go func() { time.Sleep(40 * time.Millisecond); cancel() }()
		_, err := caller.InvokeContext(ctx, "nobody", "work", []interface{}{1})
		return err
	}, true)
	run("absent-provider/context-deadline", func() error {
		ctx, cancel := context.WithTimeout(context.Background(), 100*time.Millisecond)
		defer cancel()
		_, err := caller.InvokeContext(ctx, "nobody", "work", []interface{}{1})
		return err
	}, true)
	// a live provider with a slow function
	caller.Timeout = 150 * time.Millisecond
	client := srv.NewClient()
	client.Timeout = 2 * time.Second
	prov := reverse.NewProvider(client, "p1")
	prov.RetryInterval = 10 * time.Millisecond
	never := make(chan struct{})
	defer close(never)
	prov.AddFunction(func(i int) int { return i + 1 }, "ok")
	prov.AddFunction(func() int { <-never; return 0 }, "never")
	go prov.Listen()
	for i := 0; i < 300 && !caller.Exists("p1"); i++ {
		time.Sleep(10 * time.Millisecond)
	}
	run("live-provider/ok", func() error { _, err := caller.Invoke("p1", "ok", []interface{}{1}); return err }, false)
	run("live-provider/never-returning-function", func() error { _, err := caller.Invoke("p1", "never", nil); return err }, true)
	run("live-provider/ok-after-timeout", func() error { _, err := caller.Invoke("p1", "ok", []interface{}{2}); return err }, false)
	// the provider goes away
	done := make(chan struct{})
	go func() { prov.Close(); close(done) }()
	select {
	case <-done:
	case <-time.After(watchdog):
		c.Violation("call-never-returned:reverse:"+kind+":provider-close", "Provider.Close did not return", rep)
	}
	// (whether the provider's last poll still takes this call is a matter of timing: it only has to return)
	run("closed-provider/returns", func() error { caller.Invoke("p1", "ok", []interface{}{3}); return errors.New("either outcome") }, true)
}

// abortMany: several calls pending on a service that does not answer; Abort must end them all,
// and so must cancelling their contexts one by one.
func abortMany(c *h.Case, kind string) {
	r := c.R
	markBaseline()
	svc := core.NewService()
	release := make(chan struct{})
	svc.AddFunction(func(i int) int {
		if i < 0 {
			<-release
		}
		return i + 1
	}, "work")
	srv, err := peer.Start(kind, svc)
	if err != nil {
		close(release)
		r.Inconclusive(err.Error())
		return
	}
	defer srv.Close()
	client := srv.NewClient()
	defer client.Abort()
	defer close(release) // first: the mock server cannot be closed while its handlers are blocked
	rep := map[string]interface{}{"transport": kind}
	for _, n := range []int{1, 2, 4, 9} {
		for _, how := range []string{"abort", "cancel-each"} {
			var chans []chan error
			var cancels []context.CancelFunc
			for i := 0; i < n; i++ {
				cc := core.NewClientContext()
				cc.Timeout = -1
				ctx, cancel := context.WithCancel(core.WithContext(context.Background(), cc))
				cancels = append(cancels, cancel)
				ch := make(chan error, 1)
				chans = append(chans, ch)
				go func() {
					_, err := client.InvokeContext(ctx, "work", []interface{}{-1})
					ch <- err
				}()
			}
			time.Sleep(60 * time.Millisecond)
			if how == "abort" {
				client.Abort()
			} else {
				for _, cancel := range cancels {
					cancel()
				}
			}
			pending := 0
			deadline := time.After(watchdog)
			for i, ch := range chans {
				r.Eval(1)
				select {
				case err := <-ch:
					if err == nil {
						c.Violation("call-succeeded-without-response:abort-many:"+kind, fmt.Sprintf("call %d of %d returned a result although the service never answered", i, n), rep)
					}
				case <-deadline:
					pending++
				}
			}
			for _, cancel := range cancels {
				cancel()
			}
			if pending > 0 {
				c.Violation("call-never-returned:abort-many:"+kind+":"+how, fmt.Sprintf("%d of %d calls pending on a silent service are still pending %v after %s", pending, n, watchdog, how), rep)
				return
			}
			// the client stays usable
			var last error
			for try := 0; try < 3; try++ {
				cc := core.NewClientContext()
				cc.Timeout = 3 * time.Second
				res, err := client.InvokeContext(core.WithContext(context.Background(), cc), "work", []interface{}{41})
				if err == nil && len(res) == 1 && fmt.Sprint(res[0]) == "42" {
					last = nil
					break
				}
				last = fmt.Errorf("res=%v err=%v", res, err)
			}
			if last != nil {
				c.Violation("client-unusable-after-fault:abort-many:"+kind, last.Error(), rep)
			}
			r.Distinct(fmt.Sprintf("abort-many|%s|%d|%s", kind, n, how))
		}
	}
}

// cancelledBeforeSend: calls whose context is already done when they are issued, and calls
// cancelled at once. They return the context's error and leave no pending entry.
func cancelledBeforeSend(c *h.Case, kind string) {
	r := c.R
	hk := hooksFor(kind)
	hk.reset()
	markBaseline()
	hk.setYield(nil)
	p, err := healthyPeer(kind)
	if err != nil {
		r.Inconclusive(err.Error())
		return
	}
	defer p.close()
	client := core.NewClient(p.url)
	rep := map[string]interface{}{"transport": kind}
	ctx, _ := peer.Ctx(client, 3*time.Second)
	if _, err := client.Request(ctx, []byte("warm up")); err != nil {
		r.Inconclusive("warm-up failed: " + err.Error())
		return
	}
	n := r.Pick(60, 600)
	for i := 0; i < n; i++ {
		base, _ := peer.Ctx(client, -1)
		cctx, cancel := context.WithCancel(base)
		if i%2 == 0 {
			cancel()
		} else {
			go cancel()
		}
		ch := startCall(client, cctx, []byte("cancelled call"))
		r.Eval(1)
		if _, ok := await(ch, watchdog); !ok {
			c.Violation("call-never-returned:"+kind+":cancelled-before-send", fmt.Sprintf("call %d with a cancelled context did not return", i), rep)
			client.Abort()
			return
		}
		cancel()
	}
	if kind == "udp" {
		// requests no datagram can carry are refused by the client itself and must leave nothing behind
		for i := 0; i < 40; i++ {
			ctx, _ := peer.Ctx(client, 2*time.Second)
			if _, err := client.Request(ctx, make([]byte, 70000)); err == nil {
				c.Violation("call-succeeded-without-response:udp:oversized-request", "a 70000-byte request over udp returned without error", rep)
				break
			}
			r.Eval(1)
		}
	}
	// answers to calls that were sent before the cancellation may still be on their way
	time.Sleep(50 * time.Millisecond)
	recoverCheck(c, client, kind+":cancelled-before-send", rep)
	quiesce(c, kind, client, kind+":cancelled-before-send", rep, 0)
	r.Distinct("cancelled-before-send|" + kind)
}

// brokenWriter is a connection whose writes fail while its read side stays quiet.
type brokenWriter struct {
	net.Conn
}

func (b *brokenWriter) Write(p []byte) (int, error) {
	return 0, errors.New("injected write failure (the read side stays quiet)")
}

// writeFails: the first connection of the client cannot be written to; nothing arrives on it
// either. The call must fail (not wait for a time-out that may not exist) and the client must
// recover on a new connection.
func writeFails(c *h.Case, kind string, m mode) {
	r := c.R
	hk := hooksFor(kind)
	hk.reset()
	markBaseline()
	hk.setYield(nil)
	p, err := healthyPeer(kind)
	if err != nil {
		r.Inconclusive(err.Error())
		return
	}
	defer p.close()
	client := core.NewClient(p.url)
	var first int32
	wrap := func(conn net.Conn) net.Conn {
		if atomic.AddInt32(&first, 1) == 1 {
			return &brokenWriter{conn}
		}
		return conn
	}
	switch kind {
	case "tcp", "unix":
		client.GetTransport("socket").(*socket.Transport).OnConnect = wrap
	case "udp":
		client.GetTransport("udp").(*udp.Transport).OnConnect = wrap
	}
	rep := map[string]interface{}{"transport": kind, "fault": "write-fails", "mode": m.name}
	sigBase := kind + ":write-fails"
	ctx, after := m.prepare(client)
	ch := startCall(client, ctx, []byte("the request body under test"))
	go after()
	judge(c, sigBase, m, false, ch, rep)
	recoverCheck(c, client, sigBase, rep)
	quiesce(c, kind, client, sigBase, rep, 0)
	r.Distinct("write-fails|" + kind + "|" + m.name)
}
