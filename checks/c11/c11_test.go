// C11 — faults are contained to the call that caused them.
package c11

import (
	"context"
	"errors"
	"fmt"
	"io"
	"net"
	nethttp "net/http"
	"os"
	"strings"
	"sync"
	"sync/atomic"
	"testing"
	"time"

	fws "github.com/fasthttp/websocket"
	"github.com/hprose/hprose-golang/v3/rpc/core"
	"github.com/hprose/hprose-golang/v3/rpc/plugins/reverse"
	"github.com/hprose/hprose-golang/v3/rpc/socket"
	"github.com/hprose/hprose-golang/v3/rpc/udp"
	"github.com/hprose/hprose-golang/v3/rpc/websocket"
	"verif/internal/h"
	"verif/internal/peer"
)

var light = os.Getenv("VERIF_LIGHT") == "1"

type pool struct{ tasks chan func() }

func newPool(n int) *pool {
	p := &pool{tasks: make(chan func(), 1024)}
	for i := 0; i < n; i++ {
		go func() {
			for f := range p.tasks {
				f()
			}
		}()
	}
	return p
}
func (p *pool) Submit(f func()) { p.tasks <- f }

func setPool(svc *core.Service, p core.WorkerPool) {
	if hd, ok := svc.GetHandler("socket").(*socket.Handler); ok {
		hd.Pool = p
	}
	if hd, ok := svc.GetHandler("udp").(*udp.Handler); ok {
		hd.Pool = p
	}
	if hd, ok := svc.GetHandler("websocket").(*websocket.Handler); ok {
		hd.Pool = p
	}
}

type customPanic struct {
	Code int
	Why  string
}

func newService() *core.Service {
	svc := core.NewService()
	svc.MaxRequestLength = 1 << 17
	svc.AddFunction(func(i int) int { return i + 1 }, "ok")
	svc.AddFunction(func(kind int) string {
		switch kind {
		case 0:
			panic("a string")
		case 1:
			panic(errors.New("an error value"))
		case 2:
			panic(42)
		case 3:
			panic(customPanic{7, "struct"})
		case 4:
			panic(nil)
		case 5:
			var m map[string]int
			m["x"] = 1
		case 6:
			var p *customPanic
			_ = p.Code
		case 7:
			a := []int{1}
			_ = a[kind]
		case 8:
			panic(fmt.Sprintf("%0100000d", 1)) // a very long message
		}
		return "no panic"
	}, "boom")
	svc.AddFunction(func(n int) []byte { return make([]byte, n) }, "big")
	svc.AddFunction(func(ms int) int { time.Sleep(time.Duration(ms) * time.Millisecond); return ms }, "slow")
	svc.AddMissingMethod(func(name string, args []interface{}) ([]interface{}, error) {
		if strings.HasPrefix(strings.ToLower(name), "missingpanic") {
			panic("missing method handler panics")
		}
		return []interface{}{name}, nil
	})
	svc.Use(func(ctx context.Context, name string, args []interface{}, next core.NextInvokeHandler) ([]interface{}, error) {
		if strings.EqualFold(name, "pluginpanic") {
			panic("invoke plugin panics")
		}
		if strings.EqualFold(name, "pluginpanicafter") {
			next(ctx, name, args)
			panic(errors.New("invoke plugin panics after next"))
		}
		return next(ctx, name, args)
	})
	svc.Use(core.IOHandler(func(ctx context.Context, request []byte, next core.NextIOHandler) ([]byte, error) {
		if strings.HasPrefix(string(request), "IOPANIC") {
			panic("io plugin panics")
		}
		if strings.HasPrefix(string(request), "IOERROR") {
			return nil, errors.New("io plugin returns an error")
		}
		return next(ctx, request)
	}))
	return svc
}

type fault struct {
	name string
	// class: "call" — only that call may fail; "conn" — the injecting client's connection may be
	// lost (its in-flight sentinels may fail, later ones must not); "other" — injected over a
	// connection of its own: no sentinel may fail.
	class  string
	kinds  string // "" all, or space separated list
	inject func(e *env) error
	// mustFail: the faulty call itself must report an error
	mustFail bool
	// defaultLimit: the service keeps the default MaxRequestLength (2 GiB - 1)
	defaultLimit bool
}

type env struct {
	kind string
	srv  *peer.Server
	a, b *core.Client
}

func invoke(c *core.Client, name string, args ...interface{}) ([]interface{}, error) {
	ctx, cancel := context.WithTimeout(context.Background(), 10*time.Second)
	defer cancel()
	return c.InvokeContext(ctx, name, args)
}

func raw(c *core.Client, req []byte) ([]byte, error) {
	ctx, _ := peer.Ctx(c, 10*time.Second)
	return c.Request(ctx, req)
}

func sentinel(c *core.Client, i int) error {
	res, err := invoke(c, "ok", i)
	if err != nil {
		return err
	}
	if len(res) != 1 || fmt.Sprint(res[0]) != fmt.Sprint(i+1) {
		return fmt.Errorf("ok(%d) returned %v", i, res)
	}
	return nil
}

func rawRespIsError(resp []byte) bool { return len(resp) > 0 && resp[0] == 'E' }

func faults() []fault {
	var fs []fault
	for k := 0; k <= 8; k++ {
		k := k
		class := "call"
		if k == 8 {
			class = "conn" // the error message is larger than a udp datagram
		}
		fs = append(fs, fault{name: fmt.Sprintf("function-panics/%d", k), class: class, mustFail: true, inject: func(e *env) error {
			_, err := invoke(e.a, "boom", k)
			return err
		}})
	}
	fs = append(fs,
		fault{name: "missing-method-panics", class: "call", mustFail: true, inject: func(e *env) error { _, err := invoke(e.a, "missingPanicNow", 1); return err }},
		fault{name: "invoke-plugin-panics", class: "call", mustFail: true, inject: func(e *env) error { _, err := invoke(e.a, "pluginPanic", 1); return err }},
		fault{name: "invoke-plugin-panics-after-next", class: "call", mustFail: true, inject: func(e *env) error { _, err := invoke(e.a, "pluginPanicAfter", 1); return err }},
		fault{name: "io-plugin-panics", class: "conn", mustFail: true, inject: func(e *env) error {
			resp, err := raw(e.a, []byte("IOPANIC request"))
			if err == nil && !rawRespIsError(resp) {
				return nil
			}
			return errors.New("failed as expected")
		}},
		fault{name: "io-plugin-error", class: "conn", mustFail: true, inject: func(e *env) error {
			resp, err := raw(e.a, []byte("IOERROR request"))
			if err == nil && !rawRespIsError(resp) {
				return nil
			}
			return errors.New("failed as expected")
		}},
		fault{name: "argument-type-mismatch", class: "call", mustFail: true, inject: func(e *env) error { _, err := invoke(e.a, "ok", "not a number"); return err }},
		fault{name: "argument-is-a-map", class: "call", mustFail: true, inject: func(e *env) error {
			_, err := invoke(e.a, "ok", map[string]interface{}{"a": []int{1, 2}})
			return err
		}},
		fault{name: "too-many-arguments", class: "call", inject: func(e *env) error { _, err := invoke(e.a, "ok", 1, 2, 3, "x"); return err }},
		fault{name: "no-arguments", class: "call", inject: func(e *env) error { _, err := invoke(e.a, "ok"); return err }},
	)
	for i, g := range [][]byte{
		[]byte("complete garbage \x00\xff\xfe"),
		[]byte(`Cs2"ok"a1{`),
		[]byte(`Cs2"ok"a999999999{1}z`),
		[]byte(`Cs2"ok"a1{s999999"x"}z`),
		[]byte(`Cs2"ok"a1{r5;}z`),
		[]byte(`Cs2"ok"a1{o7{}}z`),
		[]byte(`Cs2"ok"a-1{}z`),
		[]byte(`Cs999999999"ok"z`),
		[]byte(`Hm1{s1"a"`),
		[]byte(`C`), // (7 and 9 decode to some name, which the missing-method handler accepts)
		[]byte(`Cs2"ok"a1{d1e999999999;}z`),
		{},
	} {
		g := g
		fs = append(fs, fault{name: fmt.Sprintf("undecodable-request/%d", i), class: "call", mustFail: i != 7 && i != 9 && i != 11, inject: func(e *env) error {
			resp, err := raw(e.a, g)
			if err == nil && !rawRespIsError(resp) {
				return nil
			}
			return errors.New("failed as expected")
		}})
	}
	fs = append(fs,
		fault{name: "request-over-max-length", class: "conn", mustFail: true, kinds: "mock tcp unix http fasthttp ws ws-fasthttp", inject: func(e *env) error {
			_, err := raw(e.a, make([]byte, 1<<17+100))
			return err
		}},
		fault{name: "request-over-datagram", class: "conn", mustFail: true, kinds: "udp", inject: func(e *env) error {
			_, err := raw(e.a, make([]byte, 70000))
			return err
		}},
		fault{name: "response-over-datagram", class: "conn", mustFail: true, kinds: "udp", inject: func(e *env) error {
			_, err := invoke(e.a, "big", 70000)
			return err
		}},
		fault{name: "responses-around-the-datagram-limit", class: "conn", kinds: "udp", inject: func(e *env) error {
			// encoded answers from just below to just above what a datagram carries, byte by byte
			for n := 65470; n <= 65515; n++ {
				res, err := invoke(e.a, "big", n)
				if err == nil && (len(res) != 1 || len(res[0].([]byte)) != n) {
					return fmt.Errorf("big(%d) returned a result of another size", n)
				}
			}
			return nil
		}},
	)
	// frames from a third peer
	type rawFault struct {
		name  string
		kinds string
		send  func(e *env) error
	}
	tcpSend := func(payloads ...[]byte) func(e *env) error {
		return func(e *env) error {
			network := "tcp"
			if e.kind == "unix" {
				network = "unix"
			}
			conn, err := net.DialTimeout(network, e.srv.Addr, 2*time.Second)
			if err != nil {
				return err
			}
			defer conn.Close()
			for _, p := range payloads {
				conn.Write(p)
			}
			conn.SetReadDeadline(time.Now().Add(100 * time.Millisecond))
			io.ReadAll(conn)
			return nil
		}
	}
	udpSend := func(payloads ...[]byte) func(e *env) error {
		return func(e *env) error {
			conn, err := net.Dial("udp", e.srv.Addr)
			if err != nil {
				return err
			}
			defer conn.Close()
			for _, p := range payloads {
				conn.Write(p)
			}
			time.Sleep(30 * time.Millisecond)
			return nil
		}
	}
	wsSend := func(mt int, payloads ...[]byte) func(e *env) error {
		return func(e *env) error {
			d := fws.Dialer{HandshakeTimeout: 2 * time.Second}
			conn, resp, err := d.Dial("ws://"+e.srv.Addr+"/", nethttp.Header{"Sec-WebSocket-Protocol": []string{"hprose"}})
			if resp != nil {
				resp.Body.Close()
			}
			if err != nil {
				return err
			}
			defer conn.Close()
			for _, p := range payloads {
				conn.WriteMessage(mt, p)
			}
			conn.SetReadDeadline(time.Now().Add(100 * time.Millisecond))
			conn.ReadMessage()
			return nil
		}
	}
	badCRC := peer.TCPFrame(1, []byte("body"), false)
	badCRC[0] ^= 0xff
	lying := peer.TCPFrameDeclared(1, 1000, []byte("short"), false)
	huge := peer.TCPFrameDeclared(1, 0x7fffffff, []byte("short"), false)
	udpBad := peer.UDPFrame(1, []byte("body"), false)
	udpBad[1] ^= 0xff
	rfs := []rawFault{
		{"tcp-frame-too-short", "tcp unix", tcpSend([]byte{1, 2, 3})},
		{"tcp-frame-bad-checksum", "tcp unix", tcpSend(badCRC)},
		{"tcp-frame-lying-length", "tcp unix", tcpSend(lying)},
		{"tcp-frame-huge-length", "tcp unix", tcpSend(huge)},
		{"tcp-http-request-to-socket-port", "tcp unix", tcpSend([]byte("GET / HTTP/1.1\r\nHost: x\r\n\r\n"))},
		{"tcp-valid-frame-garbage-body", "tcp unix", tcpSend(peer.TCPFrame(1, []byte("\xff\xfegarbage"), false))},
		{"tcp-error-flag-frame", "tcp unix", tcpSend(peer.TCPFrame(1, []byte("error"), true))},
		{"udp-datagram-too-short", "udp", udpSend([]byte{1, 2, 3}, []byte{})},
		{"udp-bad-checksum", "udp", udpSend(udpBad)},
		{"udp-lying-length", "udp", udpSend(peer.UDPFrameDeclared(1, 5000, []byte("short"), false), peer.UDPFrameDeclared(1, 2, []byte("longer than declared"), false))},
		{"udp-garbage-body", "udp", udpSend(peer.UDPFrame(1, []byte("\xff\xfegarbage"), false))},
		{"udp-error-flag", "udp", udpSend(peer.UDPFrame(1, []byte("error"), true))},
		{"ws-short-message", "ws ws-fasthttp", wsSend(fws.BinaryMessage, []byte{1}, []byte{}, []byte{0, 0, 1})},
		{"ws-text-message", "ws ws-fasthttp", wsSend(fws.TextMessage, []byte("hello"))},
		{"ws-garbage-body", "ws ws-fasthttp", wsSend(fws.BinaryMessage, peer.WSFrame(1, []byte("\xff\xfegarbage"), false))},
		{"ws-error-flag", "ws ws-fasthttp", wsSend(fws.BinaryMessage, peer.WSFrame(1, []byte("x"), true))},
		{"http-garbage", "http fasthttp ws ws-fasthttp", func(e *env) error {
			conn, err := net.DialTimeout("tcp", e.srv.Addr, 2*time.Second)
			if err != nil {
				return err
			}
			defer conn.Close()
			conn.Write([]byte("\x00\x01\x02 not http at all\r\n\r\n"))
			conn.SetReadDeadline(time.Now().Add(100 * time.Millisecond))
			io.ReadAll(conn)
			return nil
		}},
		{"http-short-body", "http fasthttp", func(e *env) error {
			conn, err := net.DialTimeout("tcp", e.srv.Addr, 2*time.Second)
			if err != nil {
				return err
			}
			defer conn.Close()
			conn.Write([]byte("POST / HTTP/1.1\r\nHost: x\r\nContent-Length: 500\r\n\r\nshort"))
			conn.(*net.TCPConn).CloseWrite()
			conn.SetReadDeadline(time.Now().Add(200 * time.Millisecond))
			io.ReadAll(conn)
			return nil
		}},
		{"http-io-plugin-panic", "http fasthttp", func(e *env) error {
			conn, err := net.DialTimeout("tcp", e.srv.Addr, 2*time.Second)
			if err != nil {
				return err
			}
			defer conn.Close()
			body := "IOPANIC from a raw http peer"
			fmt.Fprintf(conn, "POST / HTTP/1.1\r\nHost: x\r\nContent-Length: %d\r\n\r\n%s", len(body), body)
			conn.SetReadDeadline(time.Now().Add(200 * time.Millisecond))
			io.ReadAll(conn)
			return nil
		}},
	}
	// a connection is lost to a malformed frame while calls it carried are still running in the
	// service (with a worker pool these occupy workers): they must not stay stuck
	slowCall := []byte(`Cs4"slow"a1{i120;}z`)
	rfs = append(rfs,
		rawFault{"tcp-malformed-frame-while-calls-run", "tcp unix", func(e *env) error {
			var frames [][]byte
			for i := 0; i < 6; i++ {
				frames = append(frames, peer.TCPFrame(uint32(i+1), slowCall, false))
			}
			frames = append(frames, []byte{1, 2, 3, 4, 5, 6, 7, 8, 9, 10, 11, 12, 13})
			return tcpSend(frames...)(e)
		}},
		rawFault{"ws-malformed-frame-while-calls-run", "ws ws-fasthttp", func(e *env) error {
			var msgs [][]byte
			for i := 0; i < 6; i++ {
				msgs = append(msgs, peer.WSFrame(uint32(i+1), slowCall, false))
			}
			msgs = append(msgs, []byte{1, 2})
			return wsSend(fws.BinaryMessage, msgs...)(e)
		}},
	)
	for _, rf := range rfs {
		rf := rf
		fs = append(fs, fault{name: "raw-peer/" + rf.name, class: "other", kinds: rf.kinds, inject: rf.send})
	}
	// six peers at once that only *declare* 2 GiB, against a service with the default limit
	declare := func(open func(e *env) (net.Conn, error), hello func(conn net.Conn)) func(e *env) error {
		return func(e *env) error {
			var conns []net.Conn
			for i := 0; i < 6; i++ {
				conn, err := open(e)
				if err != nil {
					return err
				}
				hello(conn)
				conns = append(conns, conn)
			}
			time.Sleep(300 * time.Millisecond)
			for _, conn := range conns {
				conn.Close()
			}
			return nil
		}
	}
	openTCP := func(e *env) (net.Conn, error) {
		network := "tcp"
		if e.kind == "unix" {
			network = "unix"
		}
		return net.DialTimeout(network, e.srv.Addr, 2*time.Second)
	}
	fs = append(fs,
		fault{name: "raw-peer/six-frames-declaring-2GiB", class: "other", kinds: "tcp unix", defaultLimit: true, inject: declare(openTCP, func(conn net.Conn) {
			conn.Write(peer.TCPFrameDeclared(1, 0x7ffffff0, []byte("tiny"), false))
		})},
		fault{name: "raw-peer/six-http-requests-declaring-2GiB", class: "other", kinds: "http fasthttp ws ws-fasthttp", defaultLimit: true, inject: declare(openTCP, func(conn net.Conn) {
			conn.Write([]byte("POST / HTTP/1.1\r\nHost: x\r\nContent-Length: 2147483000\r\n\r\ntiny"))
		})},
	)
	return fs
}

func applies(f fault, kind string) bool {
	if f.kinds == "" {
		return true
	}
	for _, k := range strings.Fields(f.kinds) {
		if k == kind {
			return true
		}
	}
	return false
}

func TestCheck(t *testing.T) {
	peer.Register()
	r := h.Start(t, "C11")
	defer r.Finish()
	r.Meta("rule", "every case runs in a harness child process whose death is attributed to the running case (journal). Per transport {mock, tcp, unix, udp, net/http, fasthttp, ws, ws-fasthttp; fasthttp client in processes of its own} x worker pool off/on, a real service and two real clients (A injects the fault, B is another connection). Faults: service function panicking with string / error / int / struct / nil / nil-map write / nil dereference / index out of range / a 100 KB message; panicking missing-method handler and invoke plugins (before and after next); panicking and failing IO plugin; type-mismatched, surplus and absent arguments; 12 undecodable request bodies (garbage, truncated, huge declared counts, dangling references, unknown class, negative count); requests over MaxRequestLength; requests and responses over the udp datagram size; from a third raw peer: frames too short, bad checksum, lying and huge declared lengths, wrong protocol, valid frame with garbage body, error-flagged frames, malformed websocket messages, non-http bytes, short http bodies. Each fault is injected 3 times while 2+2 sentinel callers run on A and B, with sentinel calls before and after. Oracle: the process lives; the faulty call reports an error where one is due; sentinels on B never fail; sentinels on A never fail for call-level faults and never fail after the fault for connection-level ones. Also six peers at once that only declare 2 GiB (tcp/unix frame header, http Content-Length) against a service with the default MaxRequestLength, udp answers swept byte by byte from 65470 to 65515 bytes, and six http responses declaring 2 GiB. Client side: after every malformed response the very next call of the same client must succeed at once. A scripted server answers a real client with malformed, truncated, error-flagged and undecodable responses while sentinels run against a healthy server in the same process. Reverse provider functions that panic. distinct_nontrivial = distinct (transport, pool, fault) cells Added: six peers at once that only declare 2 GiB (tcp/unix header, http Content-Length) against the default MaxRequestLength, udp answers swept byte by byte around the datagram limit, six http responses declaring 2 GiB, and the requirement that the very next call after a malformed response succeeds. Round 3 additions: a connection lost to a malformed frame while slow calls it carried are running (worker pool on).")
	kinds := peer.Kinds
	if peer.FastHTTPClient {
		kinds = []string{"fasthttp", "http"}
	}
	for _, kind := range kinds {
		kind := kind
		multiplexed := false
		for _, m := range peer.Multiplexed {
			if m == kind {
				multiplexed = true
			}
		}
		for _, pl := range []bool{false, true} {
			pl := pl
			if pl && !multiplexed {
				continue
			}
			for _, f := range faults() {
				f := f
				if !applies(f, kind) {
					continue
				}
				r.Case(fmt.Sprintf("server/%s/pool=%v/%s", kind, pl, f.name), func(c *h.Case) { serverFault(c, kind, pl, f) })
			}
		}
	}
	if peer.FastHTTPClient {
		return
	}
	for _, kind := range []string{"tcp", "unix", "udp", "ws"} {
		kind := kind
		for _, v := range responseFaults(kind) {
			v := v
			r.Case(fmt.Sprintf("client/%s/%s", kind, v.name), func(c *h.Case) { clientFault(c, kind, v) })
		}
	}
	for _, kind := range []string{"mock", "tcp"} {
		kind := kind
		r.Case("reverse-provider-panics/"+kind, func(c *h.Case) { reverseFault(c, kind) })
	}
	r.Case("client/http/six-responses-declaring-2GiB", func(c *h.Case) { httpDeclared(c) })
}

func serverFault(c *h.Case, kind string, pl bool, f fault) {
	r := c.R
	svc := newService()
	if f.defaultLimit {
		svc.MaxRequestLength = 0x7FFFFFFF
	}
	if pl {
		setPool(svc, newPool(4))
	}
	srv, err := peer.Start(kind, svc)
	if err != nil {
		r.Inconclusive(err.Error())
		return
	}
	defer srv.Close()
	e := &env{kind: kind, srv: srv, a: srv.NewClient(), b: srv.NewClient()}
	defer e.a.Abort()
	defer e.b.Abort()
	rep := map[string]interface{}{"transport": kind, "pool": pl, "fault": f.name}
	sig := func(s string) string { return s + ":" + kind + ":" + strings.Split(f.name, "/")[0] + ":" + lastPart(f.name) }
	// before
	for i, cl := range []*core.Client{e.a, e.b} {
		if err := sentinel(cl, i); err != nil {
			r.Inconclusive(fmt.Sprintf("%s: sentinel before the fault failed: %v", kind, err))
			return
		}
	}
	// during
	var stop int32
	var wg sync.WaitGroup
	var aFail, bFail, aOK, bOK int64
	var firstA, firstB atomic.Value
	var errMu sync.Mutex
	distinctErrs := map[string]int{}
	for g := 0; g < 4; g++ {
		wg.Add(1)
		go func(g int) {
			defer wg.Done()
			cl, fail, ok, first := e.a, &aFail, &aOK, &firstA
			if g%2 == 1 {
				cl, fail, ok, first = e.b, &bFail, &bOK, &firstB
			}
			for i := 0; atomic.LoadInt32(&stop) == 0; i++ {
				if err := sentinel(cl, g*1000000+i); err != nil {
					if atomic.AddInt64(fail, 1) == 1 {
						first.Store(err.Error())
					}
					errMu.Lock()
					distinctErrs[fmt.Sprintf("client %c: %s", 'A'+g%2, err.Error())]++
					errMu.Unlock()
				} else {
					atomic.AddInt64(ok, 1)
				}
				if i%8 == 7 {
					time.Sleep(200 * time.Microsecond)
				}
			}
		}(g)
	}
	time.Sleep(2 * time.Millisecond)
	n := r.Pick(3, 12)
	for i := 0; i < n; i++ {
		ferr := f.inject(e)
		r.Eval(1)
		if f.mustFail && ferr == nil {
			c.Violation(sig("faulty-call-succeeded"), "the faulty call reported no error", rep)
		}
		time.Sleep(time.Millisecond)
	}
	time.Sleep(3 * time.Millisecond)
	atomic.StoreInt32(&stop, 1)
	wg.Wait()
	r.Stat("sentinel_calls_during_faults", aOK+bOK+aFail+bFail)
	if bFail > 0 {
		c.Violation(sig("other-connection-affected"), fmt.Sprintf("%d of %d sentinel calls on another connection failed during the fault, first: %v; all sentinel errors: %v", bFail, bFail+bOK, firstB.Load(), distinctErrs), rep)
	}
	if aFail > 0 && f.class != "conn" {
		c.Violation(sig("other-calls-on-the-connection-affected"), fmt.Sprintf("%d of %d healthy calls on the injecting client failed during a %s-level fault, first: %v", aFail, aFail+aOK, f.class, firstA.Load()), rep)
	}
	// after
	for i, cl := range []*core.Client{e.a, e.b} {
		var err error
		for try := 0; try < 2; try++ {
			if err = sentinel(cl, 77+i); err == nil {
				break
			}
		}
		if err != nil {
			c.Violation(sig("calls-after-the-fault-fail"), fmt.Sprintf("client %c: a healthy call after the fault (two attempts) failed: %v", 'A'+i, err), rep)
		}
	}
	r.Distinct(fmt.Sprintf("%s|%v|%s", kind, pl, f.name))
}

func lastPart(s string) string {
	p := strings.Split(s, "/")
	return p[len(p)-1]
}

// ---- client side ----

type respFault struct {
	name  string
	reply func(s *peer.RawServer, q peer.RawReq)
}

func responseFaults(kind string) []respFault {
	good := []byte(`R5z`)
	fs := []respFault{
		{"undecodable-body", func(s *peer.RawServer, q peer.RawReq) { s.Reply(q.Conn, q.Index, []byte("\xff\xfe garbage"), false) }},
		{"empty-body", func(s *peer.RawServer, q peer.RawReq) { s.Reply(q.Conn, q.Index, nil, false) }},
		{"truncated-result", func(s *peer.RawServer, q peer.RawReq) { s.Reply(q.Conn, q.Index, []byte(`Ra999999999{`), false) }},
		{"huge-string-length", func(s *peer.RawServer, q peer.RawReq) { s.Reply(q.Conn, q.Index, []byte(`Rs999999999"x"z`), false) }},
		{"dangling-reference", func(s *peer.RawServer, q peer.RawReq) { s.Reply(q.Conn, q.Index, []byte(`Rr7;z`), false) }},
		{"error-flag", func(s *peer.RawServer, q peer.RawReq) { s.Reply(q.Conn, q.Index, []byte("some error"), true) }},
		{"error-body", func(s *peer.RawServer, q peer.RawReq) { s.Reply(q.Conn, q.Index, []byte(`Es5"oops!"z`), false) }},
		{"stray-then-good", func(s *peer.RawServer, q peer.RawReq) {
			s.Reply(q.Conn, q.Index+1000, []byte("stray"), false)
			s.Reply(q.Conn, q.Index, good, false)
		}},
	}
	switch kind {
	case "tcp", "unix":
		bad := peer.TCPFrame(0, good, false)
		fs = append(fs,
			respFault{"bad-checksum", func(s *peer.RawServer, q peer.RawReq) {
				f := s.Frame(q.Index, good, false)
				f[0] ^= 0xff
				s.WriteFrame(q.Conn, f)
			}},
			respFault{"short-header-then-close", func(s *peer.RawServer, q peer.RawReq) { s.WriteRaw(q.Conn, bad[:5]); s.CloseConn(q.Conn) }},
			respFault{"lying-length-then-close", func(s *peer.RawServer, q peer.RawReq) {
				s.WriteRaw(q.Conn, peer.TCPFrameDeclared(q.Index, 5000, good, false))
				s.CloseConn(q.Conn)
			}},
			respFault{"huge-length", func(s *peer.RawServer, q peer.RawReq) {
				s.WriteRaw(q.Conn, peer.TCPFrameDeclared(q.Index, 0x7fffffff, good, false))
				time.Sleep(20 * time.Millisecond)
				s.CloseConn(q.Conn)
			}},
			respFault{"http-response", func(s *peer.RawServer, q peer.RawReq) {
				s.WriteRaw(q.Conn, []byte("HTTP/1.1 400 Bad Request\r\nContent-Length: 0\r\n\r\n"))
			}},
			respFault{"close-without-answer", func(s *peer.RawServer, q peer.RawReq) { s.CloseConn(q.Conn) }},
		)
	case "udp":
		fs = append(fs,
			respFault{"bad-checksum", func(s *peer.RawServer, q peer.RawReq) {
				f := s.Frame(q.Index, good, false)
				f[0] ^= 0xff
				s.WriteFrame(q.Conn, f)
			}},
			respFault{"short-datagram", func(s *peer.RawServer, q peer.RawReq) { s.WriteFrame(q.Conn, []byte{1, 2, 3}); s.WriteFrame(q.Conn, []byte{}) }},
			respFault{"lying-length", func(s *peer.RawServer, q peer.RawReq) {
				s.WriteFrame(q.Conn, peer.UDPFrameDeclared(uint16(q.Index), 60000, good, false))
			}},
		)
	case "ws":
		fs = append(fs,
			respFault{"short-message", func(s *peer.RawServer, q peer.RawReq) { s.WriteFrame(q.Conn, []byte{1, 2}); s.WriteFrame(q.Conn, []byte{}) }},
			respFault{"close-without-answer", func(s *peer.RawServer, q peer.RawReq) { s.CloseConn(q.Conn) }},
			respFault{"raw-garbage-on-the-socket", func(s *peer.RawServer, q peer.RawReq) { s.WriteRaw(q.Conn, []byte("\xff\xff\xff\xff garbage that is no websocket frame")) }},
		)
	}
	return fs
}

func clientFault(c *h.Case, kind string, v respFault) {
	r := c.R
	rep := map[string]interface{}{"transport": kind, "response_fault": v.name}
	// a healthy service in the same process
	svc := newService()
	healthyKind := kind
	srv, err := peer.Start(healthyKind, svc)
	if err != nil {
		r.Inconclusive(err.Error())
		return
	}
	defer srv.Close()
	b := srv.NewClient()
	defer b.Abort()
	rawSrv, err := peer.StartRaw(kind)
	if err != nil {
		r.Inconclusive(err.Error())
		return
	}
	defer rawSrv.Close()
	a := rawSrv.NewClient()
	defer a.Abort()
	var faulty int32 = 1
	done := make(chan struct{})
	defer close(done)
	go func() {
		for {
			select {
			case q := <-rawSrv.Reqs:
				if atomic.LoadInt32(&faulty) == 1 && strings.Contains(string(q.Body), "666") {
					v.reply(rawSrv, q)
				} else {
					rawSrv.Reply(q.Conn, q.Index, []byte(`R5z`), false)
				}
			case <-done:
				return
			}
		}
	}()
	var stop int32
	var wg sync.WaitGroup
	var bFail int64
	var firstB atomic.Value
	for g := 0; g < 2; g++ {
		wg.Add(1)
		go func(g int) {
			defer wg.Done()
			for i := 0; atomic.LoadInt32(&stop) == 0; i++ {
				if err := sentinel(b, g*100000+i); err != nil {
					if atomic.AddInt64(&bFail, 1) == 1 {
						firstB.Store(err.Error())
					}
				}
				if i%8 == 7 {
					time.Sleep(200 * time.Microsecond)
				}
			}
		}(g)
	}
	for i := 0; i < 3; i++ {
		ctx, cancel := context.WithTimeout(context.Background(), 400*time.Millisecond)
		res, err := a.InvokeContext(ctx, "ok", []interface{}{666})
		cancel()
		r.Eval(1)
		if err == nil && v.name != "stray-then-good" {
			c.Violation("malformed-response-accepted:"+kind+":"+v.name, fmt.Sprintf("the call returned %v without error", res), rep)
		}
		if err != nil && v.name == "stray-then-good" {
			c.Violation("good-response-after-stray-refused:"+kind, err.Error(), rep)
		}
		// the very next call of the same client, which the peer answers properly, must succeed
		for k := 0; k < 3; k++ {
			ctx, cancel = context.WithTimeout(context.Background(), 3*time.Second)
			res, err = a.InvokeContext(ctx, "ok", []interface{}{4})
			cancel()
			r.Eval(1)
			if err != nil || len(res) != 1 || fmt.Sprint(res[0]) != "5" {
				c.Violation("next-call-after-malformed-response-fails:"+kind+":"+v.name, fmt.Sprintf("call %d issued right after the faulty call had returned: res=%v err=%v", k+1, res, err), rep)
				break
			}
		}
	}
	atomic.StoreInt32(&stop, 1)
	wg.Wait()
	if bFail > 0 {
		c.Violation("other-client-affected-by-malformed-response:"+kind+":"+v.name, fmt.Sprintf("%d sentinel calls of another client failed, first: %v", bFail, firstB.Load()), rep)
	}
	// the peer behaves again: the same client must work
	atomic.StoreInt32(&faulty, 0)
	var lastErr error
	for try := 0; try < 3; try++ {
		ctx, cancel := context.WithTimeout(context.Background(), 2*time.Second)
		res, err := a.InvokeContext(ctx, "ok", []interface{}{4})
		cancel()
		if err == nil && len(res) == 1 && fmt.Sprint(res[0]) == "5" {
			lastErr = nil
			break
		}
		lastErr = fmt.Errorf("res=%v err=%v", res, err)
	}
	if lastErr != nil {
		c.Violation("client-unusable-after-malformed-response:"+kind+":"+v.name, fmt.Sprintf("three attempts after the peer recovered: %v", lastErr), rep)
	}
	r.Distinct("client|" + kind + "|" + v.name)
}

// ---- reverse provider ----

func reverseFault(c *h.Case, kind string) {
	r := c.R
	svc := core.NewService()
	caller := reverse.NewCaller(svc)
	caller.HeartBeat = 0
	caller.Timeout = 5 * time.Second
	srv, err := peer.Start(kind, svc)
	if err != nil {
		r.Inconclusive(err.Error())
		return
	}
	defer srv.Close()
	client := srv.NewClient()
	client.Timeout = 10 * time.Minute // the provider's poll must not give up on the client side: a call handed to an abandoned poll is lost by design
	prov := reverse.NewProvider(client, "p1")
	prov.RetryInterval = 10 * time.Millisecond
	prov.AddFunction(func(i int) int { return i + 1 }, "ok")
	prov.AddFunction(func(kind int) string {
		switch kind {
		case 0:
			panic("provider function panics")
		case 1:
			panic(errors.New("provider panics with error"))
		case 2:
			var m map[string]int
			m["x"] = 1
		case 3:
			panic(nil)
		}
		return "fine"
	}, "boom")
	prov.AddMissingMethod(func(name string, args []interface{}) ([]interface{}, error) {
		panic("provider missing method panics")
	})
	go prov.Listen()
	defer closeProvider(prov)
	for i := 0; i < 500 && !caller.Exists("p1"); i++ {
		time.Sleep(10 * time.Millisecond)
	}
	var proxy struct {
		OK      func(i int) (int, error)      `name:"ok"`
		Boom    func(kind int) (string, error) `name:"boom"`
		Missing func(s string) (string, error) `name:"nothingHere"`
		Wrong   func(s string) (int, error)    `name:"ok"`
	}
	caller.UseService(&proxy, "p1")
	var stop int32
	var wg sync.WaitGroup
	var fail int64
	var first atomic.Value
	wg.Add(1)
	go func() {
		defer wg.Done()
		for i := 0; atomic.LoadInt32(&stop) == 0; i++ {
			got, err := proxy.OK(i)
			if err != nil || got != i+1 {
				if atomic.AddInt64(&fail, 1) == 1 {
					first.Store(fmt.Sprintf("ok(%d) = %d, %v", i, got, err))
				}
			}
		}
	}()
	for k := 0; k <= 3; k++ {
		got, err := proxy.Boom(k)
		r.Eval(1)
		if err == nil {
			c.Violation("faulty-call-succeeded:reverse:"+kind, fmt.Sprintf("boom(%d) returned %q", k, got), nil)
		}
	}
	if _, err := proxy.Missing("x"); err == nil {
		c.Violation("faulty-call-succeeded:reverse-missing:"+kind, "panicking missing method reported no error", nil)
	}
	if _, err := proxy.Wrong("not a number"); err == nil {
		c.Violation("faulty-call-succeeded:reverse-mismatch:"+kind, "type-mismatched argument reported no error", nil)
	}
	r.Eval(2)
	atomic.StoreInt32(&stop, 1)
	wg.Wait()
	if fail > 0 {
		c.Violation("other-reverse-calls-affected:"+kind, fmt.Sprintf("%d healthy reverse calls failed, first: %v", fail, first.Load()), nil)
	}
	if got, err := proxy.OK(41); err != nil || got != 42 {
		c.Violation("reverse-calls-after-the-fault-fail:"+kind, fmt.Sprintf("ok(41) = %d, %v", got, err), nil)
	}
	r.Distinct("reverse|" + kind)
}

// closeProvider stops a provider and waits (bounded) until its poll has ended, so that the
// server can be closed afterwards: the mock server cannot be closed while a poll is parked in it.
func closeProvider(p *reverse.Provider) {
	done := make(chan struct{})
	go func() { p.Close(); close(done) }()
	select {
	case <-done:
	case <-time.After(5 * time.Second):
	}
}

// httpDeclared: six calls at once are answered by an http server that declares 2 GiB and sends
// five bytes. The process must survive and a healthy server must stay reachable.
func httpDeclared(c *h.Case) {
	r := c.R
	svc := newService()
	srv, err := peer.Start("http", svc)
	if err != nil {
		r.Inconclusive(err.Error())
		return
	}
	defer srv.Close()
	b := srv.NewClient()
	defer b.Abort()
	ln, err := net.Listen("tcp", "127.0.0.1:0")
	if err != nil {
		r.Inconclusive(err.Error())
		return
	}
	defer ln.Close()
	go func() {
		for {
			conn, err := ln.Accept()
			if err != nil {
				return
			}
			go func() {
				defer conn.Close()
				buf := make([]byte, 4096)
				conn.SetReadDeadline(time.Now().Add(time.Second))
				conn.Read(buf)
				conn.Write([]byte("HTTP/1.1 200 OK\r\nContent-Length: 2147483000\r\n\r\ntiny!"))
				time.Sleep(600 * time.Millisecond)
			}()
		}
	}()
	a := core.NewClient("http://" + ln.Addr().String() + "/")
	defer a.Abort()
	var wg sync.WaitGroup
	for i := 0; i < 6; i++ {
		wg.Add(1)
		go func() {
			defer wg.Done()
			ctx, cancel := context.WithTimeout(context.Background(), 400*time.Millisecond)
			defer cancel()
			res, err := a.InvokeContext(ctx, "ok", []interface{}{1})
			r.Eval(1)
			if err == nil {
				c.Violation("malformed-response-accepted:http:declared-2GiB", fmt.Sprintf("returned %v", res), nil)
			}
		}()
	}
	for i := 0; i < 20; i++ {
		if err := sentinel(b, i); err != nil {
			c.Violation("other-client-affected-by-malformed-response:http:declared-2GiB", err.Error(), nil)
			break
		}
		time.Sleep(10 * time.Millisecond)
	}
	wg.Wait()
	r.Distinct("client|http|declared-2GiB")
}
