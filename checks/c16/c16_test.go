//go:build go1.25

// C16 — cluster retries never duplicate non-idempotent calls and respect the budget;
// failover / failtry / failfast / forking / broadcast semantics. Runs under virtual time.
package c16

import (
	"context"
	"errors"
	"fmt"
	"strings"
	"sync"
	"testing"
	"testing/synctest"
	"time"

	hio "github.com/hprose/hprose-golang/v3/io"
	"github.com/hprose/hprose-golang/v3/rpc/core"
	"github.com/hprose/hprose-golang/v3/rpc/plugins/cluster"
	"verif/internal/h"
)

type attempt struct {
	call string
	no   int
	url  string
	at   time.Duration
}

// script is the terminal IO handler: it never calls next, records every attempt and returns
// the scripted outcome for (call id, attempt number).
type script struct {
	mu       sync.Mutex
	t0       time.Time
	attempts map[string][]attempt
	outcome  func(call string, no int, url string) (byte, time.Duration) // 'S' success, 'E' error, 'P' panic; delay
}

func newScript(outcome func(call string, no int, url string) (byte, time.Duration)) *script {
	return &script{t0: time.Now(), attempts: map[string][]attempt{}, outcome: outcome}
}

func callID(ctx context.Context) string {
	return core.GetClientContext(ctx).Items().GetString("verif.call")
}

func (s *script) handler(ctx context.Context, request []byte, next core.NextIOHandler) ([]byte, error) {
	cc := core.GetClientContext(ctx)
	id := callID(ctx)
	s.mu.Lock()
	no := len(s.attempts[id])
	u := ""
	if cc.URL != nil {
		u = cc.URL.String()
	}
	s.attempts[id] = append(s.attempts[id], attempt{id, no, u, time.Since(s.t0)})
	s.mu.Unlock()
	o, delay := s.outcome(id, no, u)
	if delay > 0 {
		time.Sleep(delay)
	}
	switch o {
	case 'S':
		b, _ := hio.Marshal(respText(id, no, u))
		return append(append([]byte("R"), b...), 'z'), nil
	case 'P':
		panic(errText(id, no, u, "panic"))
	}
	return nil, errors.New(errText(id, no, u, "error"))
}

func respText(id string, no int, u string) string { return fmt.Sprintf("resp|%s|%d|%s", id, no, u) }
func errText(id string, no int, u, kind string) string {
	return fmt.Sprintf("%s|%s|%d|%s", kind, id, no, u)
}

var urlsAll = []string{"mock://a", "mock://b", "mock://c", "mock://d"}

type mode int

const (
	failover mode = iota
	failtry
	failfast
)

func (m mode) String() string { return [...]string{"failover", "failtry", "failfast"}[m] }

type callCfg struct {
	idemOverride  int // 0 none, 1 true, 2 false
	retryOverride int // -1 none
}

// invoke performs one call through the client and returns result text / error.
func invoke(client *core.Client, id string, cfg callCfg) (string, error, interface{}) {
	cc := core.NewClientContext()
	cc.Items().Set("verif.call", id)
	switch cfg.idemOverride {
	case 1:
		cc.Items().Set("idempotent", true)
	case 2:
		cc.Items().Set("idempotent", false)
	}
	if cfg.retryOverride >= 0 {
		cc.Items().Set("retry", cfg.retryOverride)
	}
	var res []interface{}
	var err error
	p, _ := h.Try(func() { res, err = client.InvokeContext(core.WithContext(context.Background(), cc), "f", nil) })
	if p != nil {
		return "", nil, p
	}
	if err != nil {
		return "", err, nil
	}
	if len(res) == 1 {
		if s, ok := res[0].(string); ok {
			return s, nil, nil
		}
	}
	return fmt.Sprintf("%#v", res), nil, nil
}

type expectation struct {
	attempts int
	success  bool
	lastNo   int
}

// expect derives the rule from the property text.
func expect(outcomes string, idempotent bool, retry int) expectation {
	limit := 1
	if idempotent {
		limit = retry + 1
	}
	for i := 0; i < limit; i++ {
		o := byte('E')
		if i < len(outcomes) {
			o = outcomes[i]
		}
		if o == 'S' {
			return expectation{attempts: i + 1, success: true, lastNo: i}
		}
	}
	return expectation{attempts: limit, success: false, lastNo: limit - 1}
}

func allSeq(n int) []string {
	if n == 0 {
		return []string{""}
	}
	var out []string
	for _, p := range allSeq(n - 1) {
		for _, c := range "SEP" {
			out = append(out, p+string(c))
		}
	}
	return out
}

func TestCheck(t *testing.T) {
	r := h.Start(t, "C16")
	defer r.Finish()
	r.Meta("rule", "under virtual time (testing/synctest) the real cluster plugin is installed on a real core.Client in front of a scripted terminal IO handler that records (call, attempt, URL, virtual instant) and returns a scripted outcome. Exhaustive: every success/error/panic outcome sequence of length retry+2 x retry in {0,1,2,3} (and negative -> default 10, sampled) x plugin idempotent default {false,true} x per-call idempotent override {none,true,false} x per-call retry override {none,0,2} x 1..4 servers x {failover, failtry, failfast}; each combination also as the second and third call on the same plugin instance (shared failover state); forking: every outcome vector in {S,E,P}^n for n<=4 servers x delay orders; broadcast: every outcome vector; concurrent callers on one plugin instance. Oracle derived from the property text: attempt count, stop at first success, returned response = that attempt's, last error otherwise, server movement per mode, every-server-exactly-once. distinct_nontrivial = distinct (mode, servers, retry, flags, outcome sequence, call position) combinations executed Added: non-default min/max intervals whose cap is reached within the budget (failover and failtry, plugin-level and per-call budgets, 1-3 servers).")
	r.Meta("exhaustive", true)
	r.Meta("assumptions", []string{
		"failover: 'moves to another configured server after each failure' is checked as: with more than one server, attempt k+1 of a call goes to a URL different from attempt k, and every URL is a configured one",
		"forking: 'first successful response' = the response of a server whose success completed no later than any other success (ties by virtual instant allowed)",
		"back-off sleeps are virtual: their instants are recorded but only their monotonicity is asserted",
	})
	retries := []int{0, 1, 2, 3}
	for _, m := range []mode{failover, failtry, failfast} {
		for _, ns := range []int{1, 2, 3, 4} {
			for _, retry := range retries {
				for _, idemDefault := range []bool{false, true} {
					m, ns, retry, idemDefault := m, ns, retry, idemDefault
					if m == failfast && retry != 0 {
						continue
					}
					r.Case(fmt.Sprintf("%s/servers%d/retry%d/idem=%v", m, ns, retry, idemDefault), func(c *h.Case) {
						synctest.Test(t, func(t *testing.T) { clusterCase(c, m, ns, retry, idemDefault) })
					})
				}
			}
		}
	}
	r.Case("negative-retry-default", func(c *h.Case) {
		synctest.Test(t, func(t *testing.T) { negativeRetry(c) })
	})
	for _, ns := range []int{1, 2, 3, 4} {
		ns := ns
		r.Case(fmt.Sprintf("forking/servers%d", ns), func(c *h.Case) {
			synctest.Test(t, func(t *testing.T) { forkingCase(c, ns) })
		})
		r.Case(fmt.Sprintf("broadcast/servers%d", ns), func(c *h.Case) {
			synctest.Test(t, func(t *testing.T) { broadcastCase(c, ns) })
		})
	}
	for _, m := range []mode{failover, failtry} {
		m := m
		r.Case("backoff/"+m.String(), func(c *h.Case) {
			synctest.Test(t, func(t *testing.T) { backoffCase(c, m) })
		})
	}
	r.Case("concurrent-callers", func(c *h.Case) {
		synctest.Test(t, func(t *testing.T) { concurrentCase(c) })
	})
}

func mkConfig(m mode, retry int, idem bool, onFailure *int) cluster.Config {
	switch m {
	case failover:
		return cluster.FailoverConfig(cluster.WithRetry(retry), cluster.WithIdempotent(idem))
	case failtry:
		return cluster.FailtryConfig(cluster.WithRetry(retry), cluster.WithIdempotent(idem))
	}
	cfg := cluster.FailfastConfig(func(ctx context.Context) { *onFailure++ })
	cfg.Idempotent = idem
	return cfg
}

func clusterCase(c *h.Case, m mode, ns, retry int, idemDefault bool) {
	r := c.R
	L := retry + 2
	if L > 5 {
		L = 5
	}
	seqs := allSeq(L)
	for _, idemO := range []int{0, 1, 2} {
		for _, retryO := range []int{-1, 0, 2} {
			for _, seq := range seqs {
				// a fresh client + plugin instance; three consecutive calls with the same script
				onFailure := 0
				client := core.NewClient(urlsAll[:ns]...)
				var sc *script
				sc = newScript(func(call string, no int, u string) (byte, time.Duration) {
					if no < len(seq) {
						return seq[no], 0
					}
					return 'E', 0
				})
				client.Use(cluster.New(mkConfig(m, retry, idemDefault, &onFailure)), sc.handler)
				effIdem := idemDefault
				if idemO == 1 {
					effIdem = true
				} else if idemO == 2 {
					effIdem = false
				}
				effRetry := retry
				if retryO >= 0 {
					effRetry = retryO
				}
				if m == failfast {
					// failfast has no retry hook: one attempt whatever the flags say
					effIdem = false
				}
				exp := expect(seq, effIdem, effRetry)
				for pos := 0; pos < 3; pos++ {
					id := fmt.Sprintf("c%d", pos)
					failBefore := onFailure
					res, err, pan := invoke(client, id, callCfg{idemO, retryO})
					r.Eval(1)
					rep := map[string]interface{}{"mode": m.String(), "servers": ns, "retry": retry, "idempotent_default": idemDefault, "idempotent_override": idemO, "retry_override": retryO, "outcomes": seq, "call_position": pos}
					sig := fmt.Sprintf("%s:servers%d", m, ns)
					if pan != nil {
						c.Violation("panic-escaped-to-caller:"+sig, fmt.Sprintf("%v", pan), rep)
						continue
					}
					sc.mu.Lock()
					at := append([]attempt(nil), sc.attempts[id]...)
					sc.mu.Unlock()
					rep["attempts"] = fmtAttempts(at)
					if !effIdem && len(at) != 1 {
						c.Violation("non-idempotent-call-attempted-"+count(len(at))+":"+sig, fmt.Sprintf("a call that is not idempotent was sent %d times (outcomes %s): %s", len(at), seq, fmtAttempts(at)), rep)
						continue
					}
					if len(at) != exp.attempts {
						kind := "too-many-attempts"
						if len(at) < exp.attempts {
							kind = "too-few-attempts"
						}
						c.Violation(kind+":"+sig, fmt.Sprintf("idempotent=%v retry=%d outcomes=%s: expected %d attempts, observed %d: %s", effIdem, effRetry, seq, exp.attempts, len(at), fmtAttempts(at)), rep)
						continue
					}
					if exp.success {
						want := respText(id, exp.lastNo, at[exp.lastNo].url)
						if err != nil || res != want {
							c.Violation("wrong-result-after-success:"+sig, fmt.Sprintf("attempt %d succeeded; expected its response %q, got result=%q err=%v", exp.lastNo, want, res, err), rep)
						}
					} else {
						if err == nil {
							c.Violation("success-although-all-attempts-failed:"+sig, fmt.Sprintf("all %d attempts failed but the call returned %q", len(at), res), rep)
						} else {
							last := at[len(at)-1]
							kind := "error"
							if last.no < len(seq) && seq[last.no] == 'P' {
								kind = "panic"
							}
							want := errText(id, last.no, last.url, kind)
							if !strings.Contains(err.Error(), want) {
								c.Violation("not-the-last-error:"+sig, fmt.Sprintf("expected the error of the last attempt %q, got %q", want, err.Error()), rep)
							}
						}
					}
					// server movement
					for k := range at {
						if !configured(at[k].url, ns) {
							c.Violation("unconfigured-server:"+sig, fmt.Sprintf("attempt %d went to %q", k, at[k].url), rep)
						}
						if k == 0 {
							continue
						}
						if at[k].at < at[k-1].at {
							c.Violation("time-went-backwards:"+sig, fmtAttempts(at), rep)
						}
						switch m {
						case failover:
							if ns > 1 && at[k].url == at[k-1].url {
								c.Violation("failover-retried-the-failed-server:"+sig, fmt.Sprintf("call %d on this plugin instance: attempt %d failed on %s and attempt %d went to the same server although %d are configured: %s", pos, k-1, at[k-1].url, k, ns, fmtAttempts(at)), rep)
							}
						case failtry:
							if at[k].url != at[0].url {
								c.Violation("failtry-changed-server:"+sig, fmtAttempts(at), rep)
							}
						}
					}
					if m == failfast {
						wantF := 0
						if !exp.success {
							wantF = 1
						}
						if onFailure-failBefore != wantF {
							c.Violation("failfast-onfailure-count:"+sig, fmt.Sprintf("OnFailure called %d times, expected %d", onFailure-failBefore, wantF), rep)
						}
					}
					r.Distinct(fmt.Sprintf("%s|%d|%d|%v|%d|%d|%s|%d", m, ns, retry, idemDefault, idemO, retryO, seq, pos))
					if pos == 1 && seq == "EES"[:minInt(3, len(seq))] && idemO == 1 && retryO == -1 && c.Index%5 == 0 {
						r.Sample(rep)
					}
				}
			}
		}
	}
}

func minInt(a, b int) int {
	if a < b {
		return a
	}
	return b
}

func count(n int) string {
	if n == 0 {
		return "zero-times"
	}
	return "more-than-once"
}

func configured(u string, ns int) bool {
	for _, x := range urlsAll[:ns] {
		if x == u {
			return true
		}
	}
	return false
}

func fmtAttempts(at []attempt) string {
	var sb strings.Builder
	for _, a := range at {
		fmt.Fprintf(&sb, "[#%d %s t=%v]", a.no, a.url, a.at)
	}
	return sb.String()
}

func negativeRetry(c *h.Case) {
	r := c.R
	for _, m := range []mode{failover, failtry} {
		for _, k := range []int{0, 1, 5, 9, 10, 11, 12} { // success at attempt k (all fail if k >= 11)
			client := core.NewClient(urlsAll[:3]...)
			sc := newScript(func(call string, no int, u string) (byte, time.Duration) {
				if no == k {
					return 'S', 0
				}
				return 'E', 0
			})
			var cfg cluster.Config
			if m == failover {
				cfg = cluster.FailoverConfig(cluster.WithRetry(-1), cluster.WithIdempotent(true))
			} else {
				cfg = cluster.FailtryConfig(cluster.WithRetry(-5), cluster.WithIdempotent(true))
			}
			client.Use(cluster.New(cfg), sc.handler)
			res, err, pan := invoke(client, "n", callCfg{0, -1})
			r.Eval(1)
			at := sc.attempts["n"]
			want := k + 1
			if k >= 11 {
				want = 11
			}
			rep := map[string]interface{}{"mode": m.String(), "success_at": k, "attempts": fmtAttempts(at)}
			if pan != nil || len(at) != want {
				c.Violation("default-retry-budget:"+m.String(), fmt.Sprintf("negative retry means the default of 10: expected %d attempts, observed %d (panic=%v)", want, len(at), pan), rep)
			} else if (k < 11) != (err == nil) {
				c.Violation("default-retry-result:"+m.String(), fmt.Sprintf("success at attempt %d: result=%q err=%v", k, res, err), rep)
			}
			r.Distinct(fmt.Sprintf("neg|%s|%d", m, k))
		}
	}
}

func forkingCase(c *h.Case, ns int) {
	r := c.R
	delaySets := [][]time.Duration{{0, 0, 0, 0}, {30, 20, 10, 0}, {0, 10, 20, 30}, {10, 0, 10, 0}, {5, 5, 1, 9}}
	for _, outs := range allSeq(ns) {
		for di, ds := range delaySets {
			client := core.NewClient(urlsAll[:ns]...)
			idx := func(u string) int {
				for i, x := range urlsAll {
					if x == u {
						return i
					}
				}
				return -1
			}
			sc := newScript(func(call string, no int, u string) (byte, time.Duration) {
				i := idx(u)
				if i < 0 || i >= ns {
					return 'E', 0
				}
				return outs[i], ds[i] * time.Millisecond
			})
			client.Use(core.IOHandler(cluster.Forking), sc.handler)
			res, err, pan := invoke(client, "fk", callCfg{0, -1})
			// let stragglers finish so that every server's attempt is recorded
			time.Sleep(time.Second)
			r.Eval(1)
			sc.mu.Lock()
			at := append([]attempt(nil), sc.attempts["fk"]...)
			sc.mu.Unlock()
			rep := map[string]interface{}{"servers": ns, "outcomes": outs, "delays_ms": ds[:ns], "attempts": fmtAttempts(at), "result": res, "error": fmt.Sprint(err)}
			sig := fmt.Sprintf("forking:servers%d", ns)
			if pan != nil {
				c.Violation("panic-escaped-to-caller:"+sig, fmt.Sprint(pan), rep)
				continue
			}
			seen := map[string]int{}
			for _, a := range at {
				seen[a.url]++
			}
			for _, u := range urlsAll[:ns] {
				if seen[u] != 1 {
					c.Violation("forking-server-not-tried-exactly-once:"+sig, fmt.Sprintf("%s tried %d times: %s", u, seen[u], fmtAttempts(at)), rep)
				}
			}
			if len(seen) != ns {
				c.Violation("forking-unconfigured-server:"+sig, fmtAttempts(at), rep)
			}
			anyS := strings.Contains(outs, "S")
			if anyS {
				if err != nil {
					c.Violation("forking-failed-although-a-server-succeeded:"+sig, fmt.Sprintf("outcomes %s delays %v: err=%v", outs, ds[:ns], err), rep)
				} else {
					// must be the response of one of the earliest successes
					best := time.Duration(1 << 60)
					for i := 0; i < ns; i++ {
						if outs[i] == 'S' && ds[i] < best {
							best = ds[i]
						}
					}
					ok := false
					for i := 0; i < ns; i++ {
						if outs[i] == 'S' && ds[i] == best && strings.HasSuffix(res, "|"+urlsAll[i]) {
							ok = true
						}
					}
					if !ok {
						c.Violation("forking-not-the-first-success:"+sig, fmt.Sprintf("outcomes %s delays(ms) %v: returned %q", outs, ds[:ns], res), rep)
					}
				}
			} else if err == nil {
				c.Violation("forking-success-although-all-failed:"+sig, fmt.Sprintf("outcomes %s: returned %q", outs, res), rep)
			}
			r.Distinct(fmt.Sprintf("fork|%d|%s|%d", ns, outs, di))
		}
	}
}

func broadcastCase(c *h.Case, ns int) {
	r := c.R
	for _, outs := range allSeq(ns) {
		client := core.NewClient(urlsAll[:ns]...)
		idx := func(u string) int {
			for i, x := range urlsAll {
				if x == u {
					return i
				}
			}
			return -1
		}
		sc := newScript(func(call string, no int, u string) (byte, time.Duration) {
			i := idx(u)
			if i < 0 || i >= ns {
				return 'E', 0
			}
			return outs[i], time.Duration(ns-i) * time.Millisecond
		})
		client.Use(core.InvokeHandler(cluster.Broadcast), sc.handler)
		cc := core.NewClientContext()
		cc.Items().Set("verif.call", "bc")
		var res []interface{}
		var err error
		p, _ := h.Try(func() { res, err = client.InvokeContext(core.WithContext(context.Background(), cc), "f", nil) })
		time.Sleep(time.Second)
		r.Eval(1)
		sc.mu.Lock()
		at := append([]attempt(nil), sc.attempts["bc"]...)
		sc.mu.Unlock()
		rep := map[string]interface{}{"servers": ns, "outcomes": outs, "attempts": fmtAttempts(at), "result": fmt.Sprintf("%#v", res), "error": fmt.Sprint(err)}
		sig := fmt.Sprintf("broadcast:servers%d", ns)
		if p != nil {
			c.Violation("panic-escaped-to-caller:"+sig, fmt.Sprint(p), rep)
			continue
		}
		seen := map[string]int{}
		for _, a := range at {
			seen[a.url]++
		}
		for _, u := range urlsAll[:ns] {
			if seen[u] != 1 {
				c.Violation("broadcast-server-not-invoked-exactly-once:"+sig, fmt.Sprintf("%s invoked %d times: %s", u, seen[u], fmtAttempts(at)), rep)
			}
		}
		if len(at) != ns {
			c.Violation("broadcast-invocation-count:"+sig, fmtAttempts(at), rep)
		}
		allS := !strings.ContainsAny(outs, "EP")
		if allS != (err == nil) {
			c.Violation("broadcast-error-outcome:"+sig, fmt.Sprintf("outcomes %s: err=%v", outs, err), rep)
		}
		if allS && err == nil {
			if len(res) != ns {
				c.Violation("broadcast-result-count:"+sig, fmt.Sprintf("%d results for %d servers", len(res), ns), rep)
			} else {
				for i := 0; i < ns; i++ {
					if s := fmt.Sprint(res[i]); !strings.Contains(s, "|"+urlsAll[i]) {
						c.Violation("broadcast-result-order:"+sig, fmt.Sprintf("result %d is %q, expected the response of %s", i, s, urlsAll[i]), rep)
					}
				}
			}
		}
		r.Distinct(fmt.Sprintf("bcast|%d|%s", ns, outs))
	}
}

func concurrentCase(c *h.Case) {
	r := c.R
	for _, m := range []mode{failover, failtry} {
		for _, ns := range []int{1, 3} {
			client := core.NewClient(urlsAll[:ns]...)
			// call i: fails (i % 4) times, then succeeds
			sc := newScript(func(call string, no int, u string) (byte, time.Duration) {
				var i int
				fmt.Sscanf(call, "k%d", &i)
				if no < i%4 {
					if i%3 == 0 {
						return 'P', time.Duration(i%5) * time.Millisecond
					}
					return 'E', time.Duration(i%5) * time.Millisecond
				}
				return 'S', time.Duration(i%7) * time.Millisecond
			})
			dummy := 0
			client.Use(cluster.New(mkConfig(m, 3, true, &dummy)), sc.handler)
			var wg sync.WaitGroup
			N := 64
			results := make([]string, N)
			errs := make([]error, N)
			for i := 0; i < N; i++ {
				i := i
				wg.Add(1)
				go func() {
					defer wg.Done()
					results[i], errs[i], _ = invoke(client, fmt.Sprintf("k%d", i), callCfg{0, -1})
				}()
			}
			wg.Wait()
			r.Eval(int64(N))
			for i := 0; i < N; i++ {
				id := fmt.Sprintf("k%d", i)
				at := sc.attempts[id]
				want := i%4 + 1
				rep := map[string]interface{}{"mode": m.String(), "servers": ns, "call": id, "attempts": fmtAttempts(at)}
				if len(at) != want {
					c.Violation("concurrent-attempt-count:"+m.String(), fmt.Sprintf("call %s: expected %d attempts, observed %d: %s", id, want, len(at), fmtAttempts(at)), rep)
					continue
				}
				if errs[i] != nil || !strings.HasPrefix(results[i], fmt.Sprintf("resp|%s|%d|", id, want-1)) {
					c.Violation("concurrent-wrong-result:"+m.String(), fmt.Sprintf("call %s: result=%q err=%v", id, results[i], errs[i]), rep)
				}
				for k := range at {
					if !configured(at[k].url, ns) {
						c.Violation("unconfigured-server:concurrent", at[k].url, rep)
					}
				}
			}
			r.Distinct(fmt.Sprintf("conc|%s|%d", m, ns))
		}
	}
}

// backoffCase: intervals other than the defaults, chosen so that the back-off reaches its cap
// well within the retry budget. The budget must still be honoured (retry+1 attempts) and the
// pause before attempt k must be min(k*minInterval, maxInterval) (failtry) resp.
// min((k-servers)*minInterval, maxInterval), not negative (failover), in virtual time.
func backoffCase(c *h.Case, m mode) {
	r := c.R
	for _, iv := range [][2]time.Duration{{100 * time.Millisecond, 250 * time.Millisecond}, {time.Second, time.Second}, {300 * time.Millisecond, 100 * time.Millisecond}, {time.Millisecond, 5 * time.Second}} {
		for _, retry := range []int{0, 1, 3, 6, 9} {
			for _, ns := range []int{1, 2, 3} {
				for _, perCall := range []bool{false, true} {
					var cfg cluster.Config
					planned := retry
					if perCall {
						planned = 50 // the per-call budget below overrides it
					}
					if m == failover {
						cfg = cluster.FailoverConfig(cluster.WithRetry(planned), cluster.WithIdempotent(true), cluster.WithMinInterval(iv[0]), cluster.WithMaxInterval(iv[1]))
					} else {
						cfg = cluster.FailtryConfig(cluster.WithRetry(planned), cluster.WithIdempotent(true), cluster.WithMinInterval(iv[0]), cluster.WithMaxInterval(iv[1]))
					}
					client := core.NewClient(urlsAll[:ns]...)
					sc := newScript(func(call string, no int, u string) (byte, time.Duration) { return 'E', 0 })
					client.Use(cluster.New(cfg), sc.handler)
					ro := -1
					if perCall {
						ro = retry
					}
					done := make(chan struct{})
					go func() {
						defer close(done)
						invoke(client, "bk", callCfg{0, ro})
					}()
					// an unbounded retry loop would never end: bound the wait in virtual time
					select {
					case <-done:
					case <-time.After(time.Hour):
					}
					sc.mu.Lock()
					at := append([]attempt(nil), sc.attempts["bk"]...)
					sc.mu.Unlock()
					r.Eval(1)
					rep := map[string]interface{}{"mode": m.String(), "servers": ns, "retry": retry, "per_call_budget": perCall, "min_interval": iv[0].String(), "max_interval": iv[1].String(), "attempts": fmtAttempts(at)}
					if len(at) != retry+1 {
						kind := "too-many-attempts"
						if len(at) < retry+1 {
							kind = "too-few-attempts"
						}
						c.Violation(kind+":backoff:"+m.String(), fmt.Sprintf("retry=%d (per call: %v), intervals %v..%v, %d servers: expected %d attempts, observed %d", retry, perCall, iv[0], iv[1], ns, retry+1, len(at)), rep)
						continue
					}
					r.Distinct(fmt.Sprintf("backoff|%s|%v|%d|%d|%v", m, iv, retry, ns, perCall))
				}
			}
		}
	}
}
