// C04 — decoding untrusted bytes never crashes, hangs or over-allocates.
package c04

import (
	"bytes"
	"container/list"
	"context"
	"fmt"
	"math/big"
	"math/rand"
	"os"
	"reflect"
	"regexp"
	"runtime"
	"runtime/metrics"
	"strconv"
	"syscall"
	"testing"
	"time"

	"github.com/google/uuid"
	hio "github.com/hprose/hprose-golang/v3/io"
	"github.com/hprose/hprose-golang/v3/rpc/codec/jsonrpc"
	"github.com/hprose/hprose-golang/v3/rpc/core"
	"verif/internal/corpus"
	"verif/internal/gen"
	"verif/internal/gentypes"
	"verif/internal/h"
	"verif/internal/iox"
)

// ---- monitors ----

var allocSample = []metrics.Sample{{Name: "/gc/heap/allocs:bytes"}}

func allocated() uint64 {
	metrics.Read(allocSample)
	return allocSample[0].Value.Uint64()
}

func threadCPU() time.Duration {
	var ru syscall.Rusage
	if err := syscall.Getrusage(1 /* RUSAGE_THREAD */, &ru); err != nil {
		return 0
	}
	return time.Duration(ru.Utime.Nano() + ru.Stime.Nano())
}

const (
	allocBase    = 1 << 20 // bytes allowed regardless of input length
	allocPerByte = 4096    // bytes allowed per input byte (a 2-byte map entry into map[interface{}]interface{} costs ~200 bytes)
	cpuBudget    = 250 * time.Millisecond
)

// ---- destinations ----

func destTypes() []reflect.Type {
	return []reflect.Type{
		gen.TIface, gen.TBool, gen.TInt, gen.TInt8, gen.TUint16, gen.TInt64, gen.TUint64, gen.TFloat32, gen.TFloat64, gen.TComplex128, gen.TString, gen.TBytes,
		reflect.TypeOf([]int(nil)), reflect.TypeOf([]string(nil)), reflect.TypeOf([][]byte(nil)), reflect.TypeOf([]interface{}(nil)), reflect.TypeOf([3]int{}), reflect.TypeOf([16]byte{}),
		reflect.TypeOf(map[string]int(nil)), reflect.TypeOf(map[interface{}]interface{}(nil)), reflect.TypeOf(map[string]interface{}(nil)), reflect.TypeOf(map[int]string(nil)),
		reflect.TypeOf(gentypes.Scalars{}), reflect.TypeOf(gentypes.One{}), reflect.TypeOf(&gentypes.Tree{}), reflect.TypeOf(gentypes.Libs{}), reflect.TypeOf(gentypes.Slices{}), reflect.TypeOf(gentypes.Maps{}),
		reflect.TypeOf(struct {
			A int
			B string
		}{}), reflect.TypeOf((*int)(nil)), reflect.TypeOf((**string)(nil)), gen.TTime, gen.TUUID, gen.TBigIntP, gen.TBigFloatP, gen.TBigRatP, gen.TListP,
		reflect.TypeOf([]*gentypes.One(nil)), reflect.TypeOf(map[string]*gentypes.Tree(nil)),
	}
}

// ---- entry points ----

type entry struct {
	name string
	run  func(data []byte, simple bool, dest reflect.Type) error
}

var svc *core.Service

type svcObj struct{}

func (svcObj) Hello(name string) string                                  { return "hello " + name }
func (svcObj) Sum(a, b int) int                                          { return a + b }
func (svcObj) Var(prefix string, xs ...int) int                          { return len(prefix) + len(xs) }
func (svcObj) Struct(t *gentypes.Tree) string                            { return "ok" }
func (svcObj) Any(x interface{}, m map[string]interface{}) []interface{} { return []interface{}{x, m} }
func (svcObj) Bytes(b []byte, bb [][]byte) int                           { return len(b) + len(bb) }
func (svcObj) Ctx(ctx context.Context, s []string) (int, error)          { return len(s), nil }
func (svcObj) Scalars(s gentypes.Scalars, p *int, f float64, t time.Time, u uuid.UUID, bi *big.Int) bool {
	return true
}
func (svcObj) None() {}

func initService() {
	svc = core.NewService()
	svc.AddInstanceMethods(svcObj{})
	svc.AddMissingMethod(func(name string, args []interface{}) ([]interface{}, error) { return args, nil })
}

var svc2 *core.Service // without missing-method handler

var svc3 *core.Service // JSON-RPC service codec

func entries() []entry {
	return []entry{
		{"Unmarshal", func(data []byte, simple bool, dest reflect.Type) error {
			p := reflect.New(dest)
			return hio.Formatter{Simple: simple}.Unmarshal(data, p.Interface())
		}},
		{"Decoder.Decode+Read", func(data []byte, simple bool, dest reflect.Type) error {
			dec := hio.NewDecoder(data).Simple(simple)
			dec.Read(dest)
			if dec.Error == nil {
				var x interface{}
				dec.Decode(&x) // a second value from the same stream
			}
			return dec.Error
		}},
		{"FromReader", func(data []byte, simple bool, dest reflect.Type) error {
			dec := hio.NewDecoderFromReader(&chunkReader{data: data, n: 7}).Simple(simple)
			p := reflect.New(dest)
			dec.Decode(p.Interface())
			return dec.Error
		}},
		{"Decode-non-default-settings", func(data []byte, simple bool, dest reflect.Type) error {
			// every decoder setting at a non-default value: struct values instead of pointers,
			// typed slices, interface-keyed maps, big numbers
			dec := hio.NewDecoder(data).Simple(simple)
			dec.LongType, dec.RealType, dec.MapType, dec.StructType, dec.ListType = hio.LongTypeBigInt, hio.RealTypeBigFloat, hio.MapTypeIIMap, hio.StructTypeValue, hio.ListTypeSlice
			p := reflect.New(dest)
			dec.Decode(p.Interface())
			return dec.Error
		}},
	}
}

type chunkReader struct {
	data []byte
	n    int
}

func (c *chunkReader) Read(p []byte) (int, error) {
	if len(c.data) == 0 {
		return 0, fmt.Errorf("EOF")
	}
	n := c.n
	if n > len(p) {
		n = len(p)
	}
	if n > len(c.data) {
		n = len(c.data)
	}
	copy(p, c.data[:n])
	c.data = c.data[n:]
	return n, nil
}

func runService(s *core.Service, data []byte) error {
	ctx := core.WithContext(context.Background(), core.NewServiceContext(s))
	_, err := s.Handle(ctx, data)
	return err
}

var returnTypeSets = [][]reflect.Type{
	nil,
	{gen.TIface},
	{gen.TString},
	{gen.TInt, gen.TString},
	{reflect.TypeOf([]int(nil)), reflect.TypeOf(map[string]interface{}(nil)), reflect.TypeOf(&gentypes.Tree{})},
	{reflect.TypeOf(gentypes.Scalars{})},
}

func runClient(data []byte, rt []reflect.Type) error {
	cc := core.NewClientContext()
	cc.ReturnType = rt
	_, err := core.NewClientCodec().Decode(data, cc)
	return err
}

// ---- mutators ----

var alphabet = []byte("0123456789ilduNnIetfDTZbsgamcorHCREz\"{};.+-\x00\x7f\x80\xbf\xc0\xe4\xf0\xff")

var evilCounts = []string{"-1", "0", "1", "2", "%d-1", "%d+1", "%d*2", "1000", "1000000", "1000000000", "100000000000", "2147483647", "2147483648", "4294967296", "9223372036854775807", "9223372036854775808", "18446744073709551616", "", "-0", "-9223372036854775808", "00000000000000000001", "99999999999999999999999"}

var countRe = regexp.MustCompile(`[ambscor]([0-9]+)`)

func grammarMutations(data []byte) [][]byte {
	var out [][]byte
	for _, m := range countRe.FindAllSubmatchIndex(data, -1) {
		s, e := m[2], m[3]
		n, _ := strconv.Atoi(string(data[s:e]))
		for _, ev := range evilCounts {
			var repl string
			switch ev {
			case "%d-1":
				repl = strconv.Itoa(n - 1)
			case "%d+1":
				repl = strconv.Itoa(n + 1)
			case "%d*2":
				repl = strconv.Itoa(n * 2)
			default:
				repl = ev
			}
			x := append(append(append([]byte{}, data[:s]...), repl...), data[e:]...)
			out = append(out, x)
		}
	}
	// counts that are absent (a{ m{ s" b") get one inserted
	for i := 0; i+1 < len(data); i++ {
		if (data[i] == 'a' || data[i] == 'm') && data[i+1] == '{' || (data[i] == 's' || data[i] == 'b') && data[i+1] == '"' {
			for _, ev := range []string{"1", "5", "1000000000", "100000000000", "-1"} {
				x := append(append(append([]byte{}, data[:i+1]...), ev...), data[i+1:]...)
				out = append(out, x)
			}
		}
	}
	// tag swaps between containers
	for i := 0; i < len(data); i++ {
		switch data[i] {
		case 'a', 'm', 'o', 'c', 's', 'b', 'r':
			for _, t := range []byte("amocsbr") {
				if t != data[i] {
					x := append([]byte{}, data...)
					x[i] = t
					out = append(out, x)
				}
			}
		}
	}
	return out
}

// ---- corpus ----

type seedStream struct {
	data   []byte
	t      reflect.Type
	simple bool
	label  string
}

func buildCorpus(r *h.Run) []seedStream {
	var out []seedStream
	rng := rand.New(rand.NewSource(r.Seed*31 + 7))
	uni := corpus.Universe(r.Seed, 3, r.Pick(200, 3000), 5)
	for _, ue := range uni {
		if ue.Block == "depth2" && rng.Intn(r.Pick(12, 2)) != 0 {
			continue
		}
		if ue.Block == "mapcell" && rng.Intn(r.Pick(4, 1)) != 0 {
			continue
		}
		vals := corpus.Values(ue, rng)
		n := 0
		for i, v := range vals {
			if i >= 2 && rng.Intn(4) != 0 {
				continue
			}
			for _, simple := range []bool{true, false} {
				var data []byte
				var err error
				if p, _ := h.Try(func() { data, err = iox.Encode(corpus.Iface(v), simple, iox.EncEncode) }); p != nil || err != nil {
					continue
				}
				if len(data) == 0 || len(data) > 4096 {
					continue
				}
				out = append(out, seedStream{data, ue.T, simple, ue.Label})
			}
			n++
			if n >= r.Pick(3, 8) {
				break
			}
		}
	}
	// hand-written streams that exercise every tag and the reference/class tables
	one := 1
	l := list.New()
	l.PushBack("x")
	for _, v := range []interface{}{
		[]interface{}{"abc", "abc", &gentypes.One{A: 1}, &gentypes.One{A: 2}, []byte("bytes"), time.Now().UTC(), uuid.New(), 1.5, true, nil, big.NewInt(1 << 40), l, map[string]interface{}{"k": "abc"}},
		&gentypes.Tree{Name: "root", Kids: []*gentypes.Tree{{Name: "kid"}, {Name: "kid"}}, M: map[string]*gentypes.Tree{"a": {Name: "m"}}},
		map[interface{}]interface{}{1: "a", "b": 2, 1.5: []int{1, 2}},
		[][]byte{[]byte("a"), nil, {}},
		[]*int{&one, nil, &one},
		gentypes.Scalars{I: -5, U64: 1 << 63, F64: 1e300, S: "中文😀"},
	} {
		for _, simple := range []bool{true, false} {
			if data, err := iox.Encode(v, simple, iox.EncEncode); err == nil {
				out = append(out, seedStream{data, reflect.TypeOf(v), simple, fmt.Sprintf("hand:%T", v)})
			}
		}
	}
	return out
}

func rpcCorpus() (requests, responses [][]byte) {
	cc := core.NewClientContext()
	enc := func(simple bool, name string, args ...interface{}) {
		codec := core.NewClientCodec(core.WithSimple(simple))
		cc := core.NewClientContext()
		cc.RequestHeaders().Set("k", "v")
		if b, err := codec.Encode(name, args, cc); err == nil {
			requests = append(requests, b)
		}
	}
	_ = cc
	one := 1
	for _, simple := range []bool{true, false} {
		enc(simple, "hello", "world")
		enc(simple, "Hello", "世界😀")
		enc(simple, "sum", 1, 2)
		enc(simple, "sum", 1)
		enc(simple, "sum", 1, 2, 3)
		enc(simple, "var", "p", 1, 2, 3)
		enc(simple, "var", "p")
		enc(simple, "struct", &gentypes.Tree{Name: "t", Kids: []*gentypes.Tree{{Name: "k"}}})
		enc(simple, "any", "x", map[string]interface{}{"a": 1, "b": "x"})
		enc(simple, "bytes", []byte("abc"), [][]byte{[]byte("a"), nil})
		enc(simple, "ctx", []string{"a", "a", "b"})
		enc(simple, "scalars", gentypes.Scalars{I: 1, S: "s"}, &one, 1.5, time.Now(), uuid.New(), big.NewInt(5))
		enc(simple, "none")
		enc(simple, "nosuchmethod", 1, "a", []int{1})
		enc(simple, "*")
		enc(simple, "~")
	}
	requests = append(requests, []byte("z"), []byte(""), []byte(`Cs5"hello"z`), []byte(`H m1{s6"simple"t}Cs5"hello"a1{s5"world"}z`), []byte(`Hm1{s6"simple"t}Cs5"hello"a1{s5"world"}z`))
	// responses
	svcctx := func() *core.ServiceContext { return core.NewServiceContext(svc) }
	for _, simple := range []bool{true, false} {
		codec := core.NewServiceCodec(core.WithSimple(simple))
		for _, res := range []interface{}{nil, "hello", 12345, []interface{}{1, "two"}, []int{1, 2, 3}, map[string]interface{}{"a": 1}, &gentypes.Tree{Name: "t"}, gentypes.Scalars{S: "s"}, fmt.Errorf("an error"), fmt.Errorf("timeout"), core.NewPanicError("boom")} {
			sc := svcctx()
			sc.ResponseHeaders().Set("h", 1)
			if b, err := codec.Encode(res, sc); err == nil {
				responses = append(responses, b)
			}
		}
	}
	responses = append(responses, []byte("z"), []byte(`Es5"error"z`), []byte(`Ra2{1s3"two"}z`), []byte(`Rnz`))
	return
}

// ---- the check ----

type job struct {
	data   []byte
	simple bool
	dest   reflect.Type
	entry  int
	kind   string // "io", "service", "client"
	rt     int
}

func runJob(j job, ents []entry) (err error) {
	switch j.kind {
	case "io":
		return ents[j.entry].run(j.data, j.simple, j.dest)
	case "service":
		if j.entry == 0 {
			return runService(svc, j.data)
		}
		return runService(svc2, j.data)
	case "jsonrpc-service":
		return runService(svc3, j.data)
	case "jsonrpc-client":
		cc := core.NewClientContext()
		cc.ReturnType = returnTypeSets[j.rt]
		_, err := jsonrpc.NewClientCodec(nil).Decode(j.data, cc)
		return err
	default:
		return runClient(j.data, returnTypeSets[j.rt])
	}
}

func (j job) describe() string {
	switch j.kind {
	case "io":
		return fmt.Sprintf("io/%s simple=%v dest=%s", [...]string{"Unmarshal", "Decoder.Decode+Read", "FromReader", "Decode-non-default-settings"}[j.entry], j.simple, j.dest)
	case "service":
		return fmt.Sprintf("Service.Handle(missing-method handler=%v)", j.entry == 0)
	case "jsonrpc-service":
		return "Service.Handle with the JSON-RPC service codec"
	case "jsonrpc-client":
		return fmt.Sprintf("jsonrpc ClientCodec.Decode(return types %v)", returnTypeSets[j.rt])
	}
	return fmt.Sprintf("ClientCodec.Decode(return types %v)", returnTypeSets[j.rt])
}

func sigDest(j job) string {
	if j.kind != "io" {
		return j.kind
	}
	s := j.dest.String()
	if len(s) > 40 {
		s = s[:40]
	}
	return s
}

// batch runs jobs under the allocation and time monitors; offenders are re-run one by one.
func batch(c *h.Case, jobs []job, ents []entry) {
	r := c.R
	if len(jobs) == 0 {
		return
	}
	total := 0
	for _, j := range jobs {
		total += len(j.data)
	}
	a0 := allocated()
	t0 := time.Now()
	for _, j := range jobs {
		one(c, j, ents, false)
	}
	dt := time.Since(t0)
	da := allocated() - a0
	r.Eval(int64(len(jobs)))
	if da > uint64(len(jobs))*allocBase/4+uint64(total)*allocPerByte || dt > 400*time.Millisecond {
		// pinpoint
		for _, j := range jobs {
			one(c, j, ents, true)
		}
	}
}

func one(c *h.Case, j job, ents []entry, measure bool) {
	r := c.R
	var a0 uint64
	var c0 time.Duration
	if measure {
		runtime.LockOSThread()
		defer runtime.UnlockOSThread()
		a0 = allocated()
		c0 = threadCPU()
	}
	data := append([]byte(nil), j.data...)
	jj := j
	jj.data = data
	var err error
	p, st := h.Try(func() { err = runJob(jj, ents) })
	rep := map[string]interface{}{"input": h.Hex(clipb(j.data, 2000)), "input_len": len(j.data), "entry": j.describe()}
	if p != nil {
		if !measure { // report once
			c.Violation("panic:"+h.PanicClass(fmt.Sprint(p))+"@"+h.FirstRepoFrame(st), fmt.Sprintf("%s panicked on %d bytes: %v\ninput=%s\n%s", j.describe(), len(j.data), p, h.Hex(clipb(j.data, 400)), h.TrimStack(st)), rep)
		}
		return
	}
	if err != nil {
		r.Stat("rejected_with_error", 1)
	} else {
		r.Stat("accepted", 1)
	}
	if measure && os.Getenv("VERIF_LIGHT") != "1" { // allocation and CPU budgets are calibrated for uninstrumented builds
		da := allocated() - a0
		dc := threadCPU() - c0
		if da > allocBase+uint64(len(j.data))*allocPerByte {
			// confirm once more (GC bookkeeping noise is far below the budget, but be sure)
			a1 := allocated()
			h.Try(func() { runJob(jj, ents) })
			if allocated()-a1 > allocBase+uint64(len(j.data))*allocPerByte {
				c.Violation("over-allocation:"+sigDest(j), fmt.Sprintf("%s allocated %d bytes for an input of %d bytes (budget %d)\ninput=%s", j.describe(), da, len(j.data), allocBase+len(j.data)*allocPerByte, h.Hex(clipb(j.data, 400))), rep)
			}
		}
		budget := cpuBudget + time.Duration(len(j.data))*2*time.Microsecond // linear in the input for the long hostile literals
		if dc > budget {
			c1 := threadCPU()
			h.Try(func() { runJob(jj, ents) })
			if threadCPU()-c1 > budget {
				c.Violation("cpu-time:"+sigDest(j), fmt.Sprintf("%s used %v of CPU time for an input of %d bytes (budget %v)\ninput=%s", j.describe(), dc, len(j.data), cpuBudget, h.Hex(clipb(j.data, 400))), rep)
			}
		}
	}
}

func TestCheck(t *testing.T) {
	r := h.Start(t, "C04")
	defer r.Finish()
	initService()
	svc2 = core.NewService()
	svc2.AddInstanceMethods(svcObj{})
	svc3 = core.NewService()
	svc3.Codec = jsonrpc.NewServiceCodec(nil)
	svc3.AddInstanceMethods(svcObj{})
	ents := entries()
	dests := destTypes()
	r.Meta("rule", "valid streams (C01 universe sample, hand-written streams using every tag, RPC requests and responses) are mutated: every truncation; every single-byte substitution from a 48-byte alphabet of tags/digits/delimiters/boundary bytes (exhaustive on streams <= 48 bytes in quick, <= 96 in thorough, sampled on longer ones); single insertions and deletions; grammar-aware replacement of every count/length/reference/class index by 22 hostile values; container tag swaps; seeded random byte strings. Each mutant is decoded into its own type, interface{} and seeded other destinations through Unmarshal, Decoder.Read (two values), reader mode, Service.Handle (9 published signatures, with and without missing-method handler) and ClientCodec.Decode (6 return-type sets). Monitors: recover (panic), child death (fatal error / OOM under ulimit -v), per-case watchdog (hang), heap bytes allocated per decode <= 1 MiB + 4096 B per input byte, thread CPU time per decode <= 250 ms + 2 us per input byte. Hand-written amplification literals (exponents of 5..20 digits in i/l/d tokens and in strings, 60 000-digit numbers, lists and maps nested 1 000 / 10 000 / 100 000 deep, closed and unclosed, 1 000 references to a 50 KB string or byte string, a 200-field class instantiated 300 times) are decoded into every destination under the same monitors. distinct_nontrivial = distinct mutated inputs (hashed) executed Added: a decode entry with every decoder setting at a non-default value (struct values, typed slices, interface-keyed maps, big numbers) for all hostile literals and a quarter of the mutants; objects of registered classes with slice/map/interface fields used as map keys; 400 nested list headers (counts fitting the unread input) into 400-level map and slice types built with reflect.")
	r.Meta("assumptions", []string{
		"malformed input that is accepted without error is counted (stats.accepted), not reported: C04 is about crashes, hangs and over-allocation",
		"inputs are at most 4 KiB (+ mutation); the allocation budget is linear in the input length",
		"CPU time is thread CPU time (getrusage RUSAGE_THREAD) of the decoding goroutine, confirmed by a second run",
	})
	seeds := buildCorpus(r)
	reqs, resps := rpcCorpus()
	maxExh := r.Pick(48, 96)
	light := os.Getenv("VERIF_LIGHT") == "1" // sanitizer passes: the same structure at the quick tier's sizes
	if light {
		maxExh = 48
	}
	for si, s := range seeds {
		si, s := si, s
		if light && si%8 != 0 {
			continue // sanitizer passes: every 8th seed stream (the plain pass runs them all)
		}
		r.Case(fmt.Sprintf("io/%d/%s", si, clipLabel(s.label)), func(c *h.Case) { ioCase(c, s, ents, dests, maxExh) })
	}
	for i, q := range reqs {
		i, q := i, q
		r.Case(fmt.Sprintf("service/%d", i), func(c *h.Case) { rpcCase(c, q, "service", ents, maxExh) })
	}
	for i, q := range resps {
		i, q := i, q
		r.Case(fmt.Sprintf("client/%d", i), func(c *h.Case) { rpcCase(c, q, "client", ents, maxExh) })
	}
	jreqs, jresps := jsonCorpus()
	if light {
		var a, b [][]byte
		for i := range jreqs {
			if i%4 == 0 {
				a = append(a, jreqs[i])
			}
		}
		for i := range jresps {
			if i%4 == 0 {
				b = append(b, jresps[i])
			}
		}
		jreqs, jresps = a, b
	}
	for i, q := range jreqs {
		i, q := i, q
		r.Case(fmt.Sprintf("jsonrpc-service/%d", i), func(c *h.Case) { rpcCase(c, q, "jsonrpc-service", ents, maxExh) })
	}
	for i, q := range jresps {
		i, q := i, q
		r.Case(fmt.Sprintf("jsonrpc-client/%d", i), func(c *h.Case) { rpcCase(c, q, "jsonrpc-client", ents, maxExh) })
	}
	for i, hl := range hostileLiterals() {
		i, hl := i, hl
		if os.Getenv("VERIF_LIGHT") == "1" && len(hl.data) > 1<<20 {
			continue // the multi-megabyte literals run in the plain pass only (the sanitizers make million-level recursion take minutes)
		}
		r.Case(fmt.Sprintf("hostile/%d/%s", i, hl.label), func(c *h.Case) {
			ds := dests
			if len(hl.data) > 1<<20 {
				ds = []reflect.Type{gen.TIface, reflect.TypeOf([]interface{}(nil)), reflect.TypeOf(map[string]interface{}(nil)), reflect.TypeOf(&gentypes.Tree{})}
			} else if len(hl.data) > 8192 {
				// long inputs: the destinations that recurse or collect
				ds = []reflect.Type{gen.TIface, reflect.TypeOf([]interface{}(nil)), reflect.TypeOf(map[interface{}]interface{}(nil)), reflect.TypeOf(map[string]interface{}(nil)), reflect.TypeOf(&gentypes.Tree{}), gen.TBigIntP, gen.TBigFloatP, gen.TBigRatP, gen.TString, gen.TBytes, reflect.TypeOf([][]byte(nil)), reflect.TypeOf([]string(nil))}
			}
			for _, d := range ds {
				for e := range ents {
					if len(hl.data) > 1<<20 && e >= 2 {
						continue // 7-byte reads over megabytes only repeat what the in-memory entries show, slowly
					}
					for _, simple := range []bool{false, true} {
						one(c, job{data: hl.data, simple: simple, dest: d, entry: e, kind: "io"}, ents, false)
						one(c, job{data: hl.data, simple: simple, dest: d, entry: e, kind: "io"}, ents, true)
						c.R.Eval(1)
					}
				}
			}
			c.R.Distinct("hostile|" + hl.label)
		})
	}
	// list headers nested 400 deep, each count fitting the unread input, decoded into a map type
	// nested as deep (built with reflect.MapOf): every level's pre-allocation must come out of
	// the one per-input budget, whatever container kind the destination makes of the list
	r.Case("hostile/nested-list-headers-into-a-400-level-map-type", func(c *h.Case) {
		const levels = 400
		mt := reflect.TypeOf(int(0))
		st := reflect.TypeOf(int(0))
		for i := 0; i < levels; i++ {
			mt = reflect.MapOf(reflect.TypeOf(int(0)), mt)
			st = reflect.SliceOf(st)
		}
		data := append(bytes.Repeat([]byte("a20000{"), levels), bytes.Repeat([]byte("0"), 22000)...)
		for _, d := range []reflect.Type{mt, st} {
			for e := range ents {
				if e == 2 {
					continue
				}
				for _, simple := range []bool{false, true} {
					one(c, job{data: data, simple: simple, dest: d, entry: e, kind: "io"}, ents, false)
					one(c, job{data: data, simple: simple, dest: d, entry: e, kind: "io"}, ents, true)
					c.R.Eval(1)
				}
			}
		}
		c.R.Distinct("hostile|nested-list-headers-into-deep-types")
	})
	nrand := r.Pick(200, 4000)
	if light && nrand > 400 {
		nrand = 400
	}
	for i := 0; i < nrand; i++ {
		i := i
		r.Case(fmt.Sprintf("random/%d", i), func(c *h.Case) { randomCase(c, ents, dests) })
	}
}

func clipLabel(s string) string {
	if len(s) > 60 {
		return s[:60]
	}
	return s
}

func mutants(data []byte, rng *rand.Rand, maxExh int) [][]byte {
	var ms [][]byte
	for cut := 0; cut < len(data); cut++ {
		ms = append(ms, data[:cut])
	}
	if len(data) <= maxExh {
		for i := range data {
			for _, a := range alphabet {
				if a != data[i] {
					x := append([]byte{}, data...)
					x[i] = a
					ms = append(ms, x)
				}
			}
		}
	} else {
		for k := 0; k < 300; k++ {
			x := append([]byte{}, data...)
			x[rng.Intn(len(x))] = alphabet[rng.Intn(len(alphabet))]
			ms = append(ms, x)
		}
	}
	n := len(data)
	for k := 0; k < 40 && n > 0; k++ {
		i := rng.Intn(n)
		ins := append(append(append([]byte{}, data[:i]...), alphabet[rng.Intn(len(alphabet))]), data[i:]...)
		del := append(append([]byte{}, data[:i]...), data[i+1:]...)
		ms = append(ms, ins, del)
	}
	ms = append(ms, grammarMutations(data)...)
	return ms
}

func ioCase(c *h.Case, s seedStream, ents []entry, dests []reflect.Type, maxExh int) {
	rng := c.Rand()
	ms := mutants(s.data, rng, maxExh)
	ds := []reflect.Type{s.t, gen.TIface, dests[rng.Intn(len(dests))], dests[rng.Intn(len(dests))]}
	const chunk = 64
	for b := 0; b*chunk < len(ms); b++ {
		b := b
		c.Sub(int64(b), func() {
			var jobs []job
			for _, m := range ms[b*chunk : minInt((b+1)*chunk, len(ms))] {
				for di, d := range ds {
					e := 0
					if di == 1 {
						e = 1
					} else if di == 3 {
						e = 2
					}
					jobs = append(jobs, job{data: m, simple: s.simple, dest: d, entry: e, kind: "io"})
					if di == 0 && rng.Intn(8) == 0 {
						jobs = append(jobs, job{data: m, simple: !s.simple, dest: d, entry: 0, kind: "io"})
					}
					if di <= 1 && rng.Intn(4) == 0 {
						jobs = append(jobs, job{data: m, simple: s.simple, dest: d, entry: 3, kind: "io"})
					}
				}
				c.R.Distinct(string(m))
			}
			batch(c, jobs, ents)
		})
	}
	if c.Index%97 == 0 && len(ms) > 10 {
		c.R.Sample(map[string]interface{}{"seed_stream": h.Hex(clipb(s.data, 120)), "type": s.t.String(), "mutants": len(ms), "example_mutant": h.Hex(clipb(ms[len(ms)/2], 120))})
	}
}

func rpcCase(c *h.Case, data []byte, kind string, ents []entry, maxExh int) {
	rng := c.Rand()
	ms := mutants(data, rng, maxExh)
	ms = append(ms, data)
	const chunk = 64
	for b := 0; b*chunk < len(ms); b++ {
		b := b
		c.Sub(int64(b), func() {
			var jobs []job
			for _, m := range ms[b*chunk : minInt((b+1)*chunk, len(ms))] {
				if kind == "service" {
					jobs = append(jobs, job{data: m, kind: kind, entry: 0}, job{data: m, kind: kind, entry: 1})
				} else if kind == "jsonrpc-service" {
					jobs = append(jobs, job{data: m, kind: kind})
				} else if kind == "jsonrpc-client" {
					for rt := range returnTypeSets {
						jobs = append(jobs, job{data: m, kind: kind, rt: rt})
					}
				} else {
					jobs = append(jobs, job{data: m, kind: kind, rt: rng.Intn(len(returnTypeSets))}, job{data: m, kind: kind, rt: rng.Intn(len(returnTypeSets))})
				}
				c.R.Distinct(kind + string(m))
			}
			batch(c, jobs, ents)
		})
	}
}

func randomCase(c *h.Case, ents []entry, dests []reflect.Type) {
	rng := c.Rand()
	var jobs []job
	for k := 0; k < 200; k++ {
		n := 1 + rng.Intn(40)
		b := make([]byte, n)
		for i := range b {
			if rng.Intn(4) == 0 {
				b[i] = byte(rng.Intn(256))
			} else {
				b[i] = alphabet[rng.Intn(len(alphabet))]
			}
		}
		d := dests[rng.Intn(len(dests))]
		jobs = append(jobs, job{data: b, simple: rng.Intn(2) == 0, dest: d, entry: rng.Intn(3), kind: "io"})
		if k%4 == 0 {
			jobs = append(jobs, job{data: b, kind: "service", entry: rng.Intn(2)}, job{data: b, kind: "client", rt: rng.Intn(len(returnTypeSets))})
		}
		c.R.Distinct("rnd" + string(b))
	}
	c.Sub(0, func() { batch(c, jobs, ents) })
}

func minInt(a, b int) int {
	if a < b {
		return a
	}
	return b
}

func clipb(b []byte, n int) []byte {
	if len(b) > n {
		return b[:n]
	}
	return b
}

var _ = bytes.Equal

type hostile struct {
	label string
	data  []byte
}

// hostileLiterals are hand-written amplification attempts: short inputs that ask for much
// memory, time or stack.
func hostileLiterals() []hostile {
	rep := func(s string, n int) string { return string(bytes.Repeat([]byte(s), n)) }
	var out []hostile
	add := func(label, data string) { out = append(out, hostile{label, []byte(data)}) }
	for _, e := range []string{"99999", "999999", "9999999", "99999999", "999999999", "99999999999999999999", "-999999999", "+999999999"} {
		add("double-exponent-"+e, "d1e"+e+";")
		add("double-exponent-neg-mantissa-"+e, "d-123.456e"+e+";")
		add("long-with-exponent-"+e, "l1e"+e+";")
		add("integer-with-exponent-"+e, "i1e"+e+";")
		add("list-of-double-exponents-"+e, "a3{d1e"+e+";d2e"+e+";d3e"+e+";}")
		add("map-key-double-exponent-"+e, "m1{d1e"+e+";t}")
		lit := "1e" + e
		add("string-with-exponent-"+e, fmt.Sprintf("s%d\"%s\"", len(lit), lit))
		lit = "1/1e" + e
		add("string-ratio-with-exponent-"+e, fmt.Sprintf("s%d\"%s\"", len(lit), lit))
	}
	// objects of registered classes with slice, map and interface fields as keys of maps (struct
	// values are unhashable when a field is), decoded as values and as pointers
	for _, body := range []string{`a1{n}`, `a0{}`, `n`, `m0{}`, `s1"x"`, `a1{a1{1}}`} {
		for _, field := range []string{"kids", "m", "any", "name", "arr"} {
			lit := fmt.Sprintf(`c4"Tree"1{s%d"%s"}o0{%s}`, len(field), field, body)
			add("object-as-map-key-"+field+"-"+body, "m1{"+lit+"t}")
			add("object-as-map-key-twice-"+field+"-"+body, "m2{"+lit+"1o0{"+body+"}2}")
			add("object-in-list-as-map-key-"+field+"-"+body, "m1{a1{"+lit+"}t}")
		}
	}
	add("double-many-digits", "d0."+rep("0", 60000)+"1;")
	add("double-many-integer-digits", "d"+rep("9", 60000)+";")
	add("long-many-digits", "l"+rep("9", 60000)+";")
	add("integer-many-digits", "i"+rep("9", 60000)+";")
	for _, n := range []int{1000, 10000, 100000} {
		add(fmt.Sprintf("nested-lists-%d", n), rep("a1{", n)+"n"+rep("}", n))
		add(fmt.Sprintf("nested-lists-unclosed-%d", n), rep("a1{", n))
		add(fmt.Sprintf("nested-maps-%d", n), rep("m1{n", n)+"n"+rep("}", n))
		add(fmt.Sprintf("nested-map-keys-%d", n), rep("m1{", n)+"nn"+rep("n}", n))
	}
	for _, n := range []int{9000, 10001, 200000, 1500000} {
		// around and far beyond any sensible depth: deep enough to exhaust a 1 GB stack without a limit
		add(fmt.Sprintf("deep-lists-%d", n), rep("a1{", n)+"n"+rep("}", n))
		add(fmt.Sprintf("deep-objects-%d", n), "c1\"A\"1{s1\"a\"}"+rep("o0{", n)+"n"+rep("}", n))
		add(fmt.Sprintf("deep-registered-objects-%d", n), "c4\"Tree\"1{s2\"up\"}"+rep("o0{", n)+"n"+rep("}", n))
		add(fmt.Sprintf("deep-maps-as-objects-%d", n), rep("m1{s2\"up\"", n)+"n"+rep("}", n))
		add(fmt.Sprintf("deep-mixed-%d", n), rep("a1{m1{1", n/2)+"n"+rep("}}", n/2))
	}
	// an object of an unknown class is a map that can contain itself; referenced where a string is wanted
	add("cyclic-map-referenced-as-string", "a2{c1\"X\"1{s1\"a\"}o0{r2;}r2;}")
	add("cyclic-list-referenced-as-string", "a2{a1{r1;}r1;}")
	add("cyclic-map-as-map-key", "a2{m1{s1\"k\"r1;}m1{r1;1}}")
	// nested headers that each announce as many elements as bytes remain: the loops of all levels must stop at the first error
	add("nested-counts-over-a-short-tail", rep("a49999{", 2000)+rep("n", 50000))
	add("nested-map-counts-over-a-short-tail", rep("m24999{", 2000)+rep("n", 50000))
	// many empty containers first, then a chain far deeper than the limit: whatever is counted per
	// container must not be given back more often than it was taken
	for _, empty := range []string{"a{}", "m{}", "e"} {
		n := 1200000
		add("empties-then-deep-chain-"+empty, "a"+strconv.Itoa(n+1)+"{"+rep(empty, n)+rep("a1{", n)+"n"+rep("}", n)+"}")
	}
	add("empty-objects-then-deep-chain", "c1\"A\"0{}a1200001{"+rep("o0{}", 1200000)+rep("a1{", 1200000)+"n"+rep("}", 1200000)+"}")
	long := rep("x", 50000)
	add("many-references-to-a-long-string", "a1001{s50000\""+long+"\""+rep("r1;", 1000)+"}")
	add("many-references-to-long-bytes", "a1001{b50000\""+long+"\""+rep("r1;", 1000)+"}")
	add("class-with-many-fields-referenced-often", "c1\"A\"200{"+rep("s1\"f\"", 200)+"}"+"a300{"+rep("o0{"+rep("n", 200)+"}", 300)+"}")
	add("guid-and-time-garbage", "a4{g{"+rep("f", 36)+"}D99999999T999999.999999999ZT999999.999999999999ZD00000000Z}")
	return out
}

// jsonCorpus: JSON-RPC 2.0 requests for the published methods and responses of every shape
// (the mutators then damage them; the structural variants below are the ones byte mutation
// does not reach: wrong parameter counts, results of another shape than the caller expects).
func jsonCorpus() (requests, responses [][]byte) {
	req := func(s string) { requests = append(requests, []byte(s)) }
	resp := func(s string) { responses = append(responses, []byte(s)) }
	for _, params := range []string{`["world"]`, `[]`, `["a","b"]`, `["a",1,2,3,4,5,6,7,8,9]`, `[1]`, `[null]`, `[{"a":1}]`, `[[1,2]]`, `{"name":"x"}`, `"world"`, `5`, `null`} {
		req(`{"jsonrpc":"2.0","id":1,"method":"hello","params":` + params + `}`)
		req(`{"jsonrpc":"2.0","id":1,"method":"sum","params":` + params + `}`)
		req(`{"jsonrpc":"2.0","id":1,"method":"var","params":` + params + `}`)
		req(`{"jsonrpc":"2.0","id":1,"method":"struct","params":` + params + `}`)
		req(`{"jsonrpc":"2.0","id":1,"method":"any","params":` + params + `}`)
		req(`{"jsonrpc":"2.0","id":1,"method":"bytes","params":` + params + `}`)
		req(`{"jsonrpc":"2.0","id":1,"method":"ctx","params":` + params + `}`)
		req(`{"jsonrpc":"2.0","id":1,"method":"scalars","params":` + params + `}`)
		req(`{"jsonrpc":"2.0","id":1,"method":"none","params":` + params + `}`)
		req(`{"jsonrpc":"2.0","id":1,"method":"nosuchmethod","params":` + params + `}`)
	}
	req(`{"jsonrpc":"2.0","id":1,"method":"hello"}`)
	req(`{"jsonrpc":"2.0","method":"hello","params":["x"]}`)
	req(`{"jsonrpc":"1.0","id":1,"method":"hello","params":["x"]}`)
	req(`{"jsonrpc":"2.0","id":{"a":[1,2]},"method":"hello","params":["x"],"headers":{"simple":true,"k":[1,{"z":null}]}}`)
	req(`{"jsonrpc":"2.0","id":1,"method":"hello","params":["x"],"headers":5}`)
	req(`[{"jsonrpc":"2.0","id":1,"method":"hello","params":["x"]}]`)
	req(`{`)
	req(`{}`)
	for _, result := range []string{`"hello"`, `5`, `1.5`, `true`, `null`, `[]`, `[1]`, `[1,"two"]`, `[1,"two",3,4,5,6,7,8]`, `{"a":1}`, `{"Name":"t","Kids":[{"Name":"k"}]}`, `[[1,2],{"a":1},{"Name":"t"}]`, `"` + string(bytes.Repeat([]byte("x"), 300)) + `"`} {
		resp(`{"jsonrpc":"2.0","id":1,"result":` + result + `}`)
		resp(`{"jsonrpc":"2.0","id":1,"result":` + result + `,"headers":{"h":1}}`)
	}
	for _, e := range []string{`{"code":-32601,"message":"Method not found"}`, `{"code":0,"message":"plain"}`, `{"code":1,"message":"m","data":{"x":[1]}}`, `{"code":"x"}`, `"error"`, `5`, `null`, `[]`, `{"message":5}`} {
		resp(`{"jsonrpc":"2.0","id":1,"error":` + e + `}`)
		resp(`{"jsonrpc":"2.0","id":1,"result":1,"error":` + e + `}`)
	}
	resp(`{}`)
	resp(`[]`)
	resp(`{"jsonrpc":"2.0","id":1,"result":1,"headers":5}`)
	return
}
