//go:build go1.25

// C19 — push delivers each accepted message to its subscriber exactly once, in order.
// Runs under virtual time over the mock transport.
package c19

import (
	"context"
	"fmt"
	"reflect"
	"sort"
	"strings"
	"sync"
	"sync/atomic"
	"testing"
	"testing/synctest"
	"time"

	"github.com/hprose/hprose-golang/v3/rpc/core"
	"github.com/hprose/hprose-golang/v3/rpc/mock"
	"github.com/hprose/hprose-golang/v3/rpc/plugins/push"
	"verif/internal/h"
)

var sysN int64

type leftover struct {
	id, topic string
	msgs      []int
	at        time.Duration
}

type world struct {
	addr    string
	service *core.Service
	broker  *push.Broker
	t0      time.Time
	mu      sync.Mutex
	left    []leftover
	clients map[string]*core.Client
}

func newWorld(timeout, heartbeat time.Duration) *world {
	w := &world{addr: fmt.Sprintf("c19-%d", atomic.AddInt64(&sysN, 1)), clients: map[string]*core.Client{}}
	w.service = core.NewService()
	w.broker = push.NewBroker(w.service)
	w.broker.Timeout = timeout
	w.broker.HeartBeat = heartbeat
	w.t0 = time.Now()
	w.broker.OnUnsubscribe = func(ctx context.Context, id, topic string, messages []push.Message) {
		lo := leftover{id: id, topic: topic, at: time.Since(w.t0)}
		for _, m := range messages {
			lo.msgs = append(lo.msgs, toInt(m.Data))
		}
		w.mu.Lock()
		w.left = append(w.left, lo)
		w.mu.Unlock()
	}
	if err := w.service.Bind(mock.Server{Address: w.addr}); err != nil {
		panic(err)
	}
	return w
}

func (w *world) close() { mock.Server{Address: w.addr}.Close() }

func (w *world) client(id string) *core.Client {
	w.mu.Lock()
	defer w.mu.Unlock()
	c, ok := w.clients[id]
	if !ok {
		c = core.NewClient("mock://" + w.addr)
		c.Timeout = 0
		if id != "" {
			c.RequestHeaders().Set("id", id)
		}
		w.clients[id] = c
	}
	return c
}

func toInt(v interface{}) int {
	switch x := v.(type) {
	case int:
		return x
	case int64:
		return int(x)
	case float64:
		return int(x)
	}
	return -1
}

var tPoll = reflect.TypeOf(map[string][]push.Message(nil))
var tBool = reflect.TypeOf(false)
var tMapBool = reflect.TypeOf(map[string]bool(nil))

func invoke(c *core.Client, rt reflect.Type, name string, args ...interface{}) (interface{}, error) {
	cc := core.NewClientContext()
	cc.ReturnType = []reflect.Type{rt}
	res, err := c.InvokeContext(core.WithContext(context.Background(), cc), name, args)
	if err != nil || len(res) == 0 {
		return nil, err
	}
	return res[0], nil
}

func (w *world) subscribe(id, topic string) bool {
	r, _ := invoke(w.client(id), tBool, "+", topic)
	b, _ := r.(bool)
	return b
}

func (w *world) unsubscribe(id, topic string) bool {
	r, _ := invoke(w.client(id), tBool, "-", topic)
	b, _ := r.(bool)
	return b
}

// poll returns topic -> message ids; unsub lists topics reported as unsubscribed (nil value).
func (w *world) poll(id string) (got map[string][]int, from map[string][]string, unsub []string, null bool, err error) {
	r, err := invoke(w.client(id), tPoll, "<")
	if err != nil {
		return nil, nil, nil, false, err
	}
	m, _ := r.(map[string][]push.Message)
	if m == nil {
		return nil, nil, nil, true, nil
	}
	got = map[string][]int{}
	from = map[string][]string{}
	for topic, msgs := range m {
		if msgs == nil {
			unsub = append(unsub, topic)
			continue
		}
		for _, x := range msgs {
			got[topic] = append(got[topic], toInt(x.Data))
			from[topic] = append(from[topic], x.From)
		}
	}
	return
}

func (w *world) unicast(from string, msg int, topic, id string) bool {
	r, _ := invoke(w.client(from), tBool, ">", msg, topic, id)
	b, _ := r.(bool)
	return b
}

func (w *world) multicast(from string, msg int, topic string, ids []string) map[string]bool {
	r, _ := invoke(w.client(from), tMapBool, ">?", msg, topic, ids)
	m, _ := r.(map[string]bool)
	return m
}

func (w *world) broadcast(from string, msg int, topic string) map[string]bool {
	r, _ := invoke(w.client(from), tMapBool, ">*", msg, topic)
	m, _ := r.(map[string]bool)
	return m
}

// ---- history and oracle ----

type pub struct {
	msg        int
	topic, id  string
	call, ret  int64 // logical clock
	at         time.Duration
	accepted   bool
	overlapsUn bool
}

type deliv struct {
	msg       int
	topic, id string
	seq       int64 // logical clock at delivery (poll return)
	at        time.Duration
	pos       int
}

type hist struct {
	mu    sync.Mutex
	clock int64
	pubs  []*pub
	dels  []deliv
	// unsubscribe intervals per (id, topic)
	uns []struct {
		id, topic string
		call, ret int64
	}
}

func (hs *hist) tick() int64 { return atomic.AddInt64(&hs.clock, 1) }

func key(id, topic string) string { return id + "/" + topic }

// check applies the exactly-once / order / no-foreign-delivery / conservation oracle.
func check(c *h.Case, hs *hist, w *world, subscribedAtEnd map[string]bool, sig string, rep map[string]interface{}) {
	hs.mu.Lock()
	defer hs.mu.Unlock()
	delivered := map[string][]deliv{} // key -> deliveries in order
	count := map[int]map[string]int{}
	sort.SliceStable(hs.dels, func(i, j int) bool {
		if hs.dels[i].seq != hs.dels[j].seq {
			return hs.dels[i].seq < hs.dels[j].seq
		}
		return hs.dels[i].pos < hs.dels[j].pos
	})
	for _, d := range hs.dels {
		k := key(d.id, d.topic)
		delivered[k] = append(delivered[k], d)
		if count[d.msg] == nil {
			count[d.msg] = map[string]int{}
		}
		count[d.msg][k]++
	}
	leftovers := map[int]map[string]int{}
	w.mu.Lock()
	for _, lo := range w.left {
		for _, m := range lo.msgs {
			if leftovers[m] == nil {
				leftovers[m] = map[string]int{}
			}
			leftovers[m][key(lo.id, lo.topic)]++
		}
	}
	w.mu.Unlock()
	accepted := map[string]map[int]*pub{}
	for _, p := range hs.pubs {
		k := key(p.id, p.topic)
		for _, u := range hs.uns {
			if u.id == p.id && u.topic == p.topic && p.call < u.ret && u.call < p.ret {
				p.overlapsUn = true
			}
		}
		if !p.accepted {
			if count[p.msg][k] > 0 {
				c.Violation("delivered-although-publish-reported-failure:"+sig, fmt.Sprintf("message %d to %s: publish returned false but it was delivered", p.msg, k), rep)
			}
			continue
		}
		if accepted[k] == nil {
			accepted[k] = map[int]*pub{}
		}
		accepted[k][p.msg] = p
		n := count[p.msg][k]
		l := leftovers[p.msg][k]
		switch {
		case n > 1:
			c.Violation("delivered-twice:"+sig, fmt.Sprintf("message %d was delivered %d times to %s", p.msg, n, k), rep)
		case n == 1 && l > 0:
			c.Violation("delivered-and-returned-on-unsubscribe:"+sig, fmt.Sprintf("message %d to %s was delivered and also handed to OnUnsubscribe", p.msg, k), rep)
		case n == 0 && l == 0:
			if p.overlapsUn {
				c.R.Stat("publishes_overlapping_unsubscribe_not_delivered", 1)
				continue
			}
			if rep != nil {
				var sb strings.Builder
				for _, q := range hs.pubs {
					fmt.Fprintf(&sb, "pub msg=%d %s/%s logical=[%d,%d] t=%v accepted=%v overlapsUnsub=%v\n", q.msg, q.id, q.topic, q.call, q.ret, q.at, q.accepted, q.overlapsUn)
				}
				for _, d := range hs.dels {
					fmt.Fprintf(&sb, "delivery msg=%d %s/%s logical=%d t=%v pos=%d\n", d.msg, d.id, d.topic, d.seq, d.at, d.pos)
				}
				for _, u := range hs.uns {
					fmt.Fprintf(&sb, "unsubscribe %s/%s logical=[%d,%d]\n", u.id, u.topic, u.call, u.ret)
				}
				rep["history"] = sb.String()
			}
			c.Violation("lost:"+classifyLoss(p, rep)+":"+sig, fmt.Sprintf("message %d to %s was accepted (publish returned true at virtual t=%v) but never delivered and not handed to OnUnsubscribe by the end of the drain phase", p.msg, k, p.at), rep)
		}
	}
	// foreign delivery and order
	for k, ds := range delivered {
		for i, d := range ds {
			p := accepted[k][d.msg]
			if p == nil {
				c.Violation("delivered-to-a-client-it-was-not-accepted-for:"+sig, fmt.Sprintf("message %d appeared at %s", d.msg, k), rep)
				continue
			}
			for j := i + 1; j < len(ds); j++ {
				q := accepted[k][ds[j].msg]
				if q != nil && q.ret < p.call {
					c.Violation("out-of-order:"+sig, fmt.Sprintf("%s: message %d (publish returned at logical %d) was delivered after message %d (publish invoked at logical %d)", k, ds[j].msg, q.ret, d.msg, p.call), rep)
				}
			}
		}
	}
}

// classifyLoss gives the loss a scenario class for the known-findings signature.
func classifyLoss(p *pub, rep map[string]interface{}) string {
	if v, ok := rep["poll_timeout_windows"].([][2]time.Duration); ok {
		for _, win := range v {
			if p.at >= win[0] && p.at <= win[1] {
				return "published-between-a-poll-timeout-and-the-re-poll"
			}
		}
	}
	return "other"
}

// ---- scenarios ----

func TestCheck(t *testing.T) {
	mock.RegisterHandler()
	mock.RegisterTransport()
	r := h.Start(t, "C19")
	defer r.Finish()
	r.Meta("rule", "under virtual time a real Service+Broker over the mock transport, observed at the published functions (+ - < > >? >*) through raw invocations carrying an id header, and through push.Prosumer callbacks. Exhaustive grid: one publish at every 1 ms offset from -5 to +15 ms around the poll-timeout instant x client re-poll latency {0,1,10 ms} x {unicast, multicast, broadcast} x {1,2} messages; seeded random histories with 1..3 clients x 1..3 topics, several publishers released at one virtual instant, subscribe/unsubscribe during traffic, heartbeat {0, large}; a drain phase of further polls; oracle over unique message ids: exactly once, never to a client/topic it was not accepted for, order under the real-time partial order of publishes (logical clock), conservation accepted = delivered + handed to OnUnsubscribe (publishes overlapping an unsubscribe may be delivered 0 or 1 times), a client subscribed from the start that never unsubscribes and polls continuously must have every publish accepted (accepted/total is reported in the statistics); a Prosumer whose loop is running subscribes to further topics while the broker greets it from OnSubscribe and publishers follow at once; and the explicit stop-polling-goes-offline scenario with a small heartbeat which is excluded from the no-loss clause. distinct_nontrivial = distinct (scenario, offset/latency/seed) combinations with at least one accepted message Added: a client subscribed from the start that polls continuously must have every publish accepted; a Prosumer subscribing to further topics while its loop runs; every replay carries the recorded history.")
	r.Meta("assumptions", []string{
		"a client that stops polling beyond the heartbeat is outside the no-loss clause (as the property words it); heartbeat is 0 or large in all other scenarios",
		"publishes that overlap an unsubscribe of the same (client, topic) may be delivered zero or one time, never twice",
		"the drain phase issues polls until two consecutive polls return nothing",
	})
	for _, kind := range []string{"unicast", "multicast", "broadcast"} {
		for _, lat := range []time.Duration{0, time.Millisecond, 10 * time.Millisecond} {
			for _, nmsg := range []int{1, 2} {
				kind, lat, nmsg := kind, lat, nmsg
				r.Case(fmt.Sprintf("grid/%s/latency%v/msgs%d", kind, lat, nmsg), func(c *h.Case) {
					for off := -5; off <= 15; off++ {
						off := off
						c.Sub(int64(off+5), func() {
							synctest.Test(t, func(t *testing.T) { gridCase(c, kind, lat, nmsg, time.Duration(off)*time.Millisecond) })
						})
					}
				})
			}
		}
	}
	n := r.Pick(2500, 20000)
	for k := 0; k < n; k++ {
		k := k
		r.Case(fmt.Sprintf("random/%d", k), func(c *h.Case) {
			synctest.Test(t, func(t *testing.T) { randomCase(c, k) })
		})
	}
	np := r.Pick(300, 3000)
	for k := 0; k < np; k++ {
		k := k
		r.Case(fmt.Sprintf("prosumer/%d", k), func(c *h.Case) {
			synctest.Test(t, func(t *testing.T) { prosumerCase(c, k) })
		})
	}
	for k := 0; k < r.Pick(60, 600); k++ {
		k := k
		r.Case(fmt.Sprintf("prosumer-more-topics/%d", k), func(c *h.Case) {
			synctest.Test(t, func(t *testing.T) { prosumerTopicsCase(c, k) })
		})
	}
	for k := 0; k < r.Pick(60, 600); k++ {
		k := k
		r.Case(fmt.Sprintf("prosumer-failed-poll/%d", k), func(c *h.Case) {
			synctest.Test(t, func(t *testing.T) { prosumerFaultCase(c, k) })
		})
	}
	for k := 0; k < 24; k++ {
		k := k
		r.Case(fmt.Sprintf("resubscribe/%d", k), func(c *h.Case) {
			synctest.Test(t, func(t *testing.T) { resubscribeCase(c, k) })
		})
	}
	r.Case("offline-after-heartbeat", func(c *h.Case) {
		synctest.Test(t, func(t *testing.T) { offlineCase(c) })
	})
}

const pollTimeout = 100 * time.Millisecond

// poller polls in a loop with a re-poll latency and records deliveries until stop is closed and
// two consecutive polls came back empty.
func poller(w *world, hs *hist, id string, latency time.Duration, stop chan struct{}, windows *[][2]time.Duration, wmu *sync.Mutex, unsubSeen *[]string) {
	empty := 0
	for {
		start := time.Since(w.t0)
		got, _, unsub, null, err := w.poll(id)
		seq := hs.tick()
		now := time.Since(w.t0)
		if err != nil {
			return
		}
		hs.mu.Lock()
		for topic, msgs := range got {
			for i, m := range msgs {
				hs.dels = append(hs.dels, deliv{msg: m, topic: topic, id: id, seq: seq, at: now, pos: i})
			}
		}
		hs.mu.Unlock()
		if unsubSeen != nil && len(unsub) > 0 {
			wmu.Lock()
			*unsubSeen = append(*unsubSeen, unsub...)
			wmu.Unlock()
		}
		if len(got) == 0 {
			if now-start >= pollTimeout && windows != nil {
				// the poll timed out at `now`; the re-poll arrives after the latency
				wmu.Lock()
				*windows = append(*windows, [2]time.Duration{now, now + latency})
				wmu.Unlock()
			}
			select {
			case <-stop:
				empty++
				if empty >= 2 || null {
					return
				}
			default:
				if null {
					// no subscription at all: do not spin
					select {
					case <-stop:
						return
					case <-time.After(5 * time.Millisecond):
					}
				}
			}
		} else {
			empty = 0
		}
		if latency > 0 {
			time.Sleep(latency)
		}
	}
}

func gridCase(c *h.Case, kind string, latency time.Duration, nmsg int, off time.Duration) {
	r := c.R
	w := newWorld(pollTimeout, 0)
	defer w.close()
	hs := &hist{}
	ids := []string{"c1"}
	if kind != "unicast" {
		ids = []string{"c1", "c2"}
	}
	for _, id := range ids {
		w.subscribe(id, "t")
	}
	stop := make(chan struct{})
	var wg sync.WaitGroup
	var windows [][2]time.Duration
	var wmu sync.Mutex
	for _, id := range ids {
		id := id
		wg.Add(1)
		go func() {
			defer wg.Done()
			poller(w, hs, id, latency, stop, &windows, &wmu, nil)
		}()
	}
	// publisher: message(s) at pollTimeout + off (relative to the start of the first poll)
	publish := func(msg int) {
		p0 := hs.tick()
		at := time.Since(w.t0)
		var acc map[string]bool
		switch kind {
		case "unicast":
			acc = map[string]bool{"c1": w.unicast("pub", msg, "t", "c1")}
		case "multicast":
			acc = w.multicast("pub", msg, "t", ids)
		default:
			acc = w.broadcast("pub", msg, "t")
		}
		p1 := hs.tick()
		hs.mu.Lock()
		for _, id := range ids {
			hs.pubs = append(hs.pubs, &pub{msg: msg, topic: "t", id: id, call: p0, ret: p1, at: at, accepted: acc[id]})
		}
		hs.mu.Unlock()
	}
	time.Sleep(pollTimeout + off)
	publish(1)
	if nmsg == 2 {
		time.Sleep(3 * time.Millisecond)
		publish(2)
	}
	// drain: three more poll periods
	time.Sleep(3*pollTimeout + 50*time.Millisecond)
	close(stop)
	wg.Wait()
	r.Eval(int64(len(hs.pubs)))
	rep := map[string]interface{}{"scenario": "grid", "kind": kind, "repoll_latency": latency.String(), "messages": nmsg, "publish_offset_from_poll_timeout": off.String(), "poll_timeout_windows": windows, "deliveries": fmt.Sprint(hs.dels)}
	check(c, hs, w, nil, "grid:"+kind, rep)
	r.Distinct(fmt.Sprintf("grid|%s|%v|%d|%v", kind, latency, nmsg, off))
	if off == 3*time.Millisecond && latency == 10*time.Millisecond && nmsg == 1 {
		r.Sample(map[string]interface{}{"scenario": "grid", "kind": kind, "offset": off.String(), "latency": latency.String(), "deliveries": fmt.Sprint(hs.dels)})
	}
}

func randomCase(c *h.Case, k int) {
	r := c.R
	rng := c.Rand()
	hb := time.Duration(0)
	if k%3 == 0 {
		hb = time.Hour
	}
	w := newWorld(pollTimeout, hb)
	defer w.close()
	hs := &hist{}
	nc := 1 + rng.Intn(3)
	nt := 1 + rng.Intn(3)
	var ids, topics []string
	for i := 0; i < nc; i++ {
		ids = append(ids, fmt.Sprintf("c%d", i))
	}
	for i := 0; i < nt; i++ {
		topics = append(topics, fmt.Sprintf("t%d", i))
	}
	stable := map[string]bool{} // (id, topic) subscribed from the start
	for _, id := range ids {
		for _, tp := range topics {
			if rng.Intn(4) != 0 {
				if w.subscribe(id, tp) {
					stable[key(id, tp)] = true
				}
			}
		}
	}
	stop := make(chan struct{})
	var wg sync.WaitGroup
	var windows [][2]time.Duration
	var wmu sync.Mutex
	for i, id := range ids {
		id := id
		lat := []time.Duration{0, time.Millisecond, 7 * time.Millisecond}[(i+k)%3]
		wg.Add(1)
		go func() {
			defer wg.Done()
			poller(w, hs, id, lat, stop, &windows, &wmu, nil)
		}()
	}
	var msgN int64
	npub := 1 + rng.Intn(3)
	var pwg sync.WaitGroup
	gate := make(chan struct{})
	type step struct {
		sleep time.Duration
		kind  int
		topic string
		id    string
	}
	plans := make([][]step, npub)
	for p := range plans {
		for i := 0; i < 4+rng.Intn(12); i++ {
			plans[p] = append(plans[p], step{
				sleep: []time.Duration{0, 0, time.Millisecond, 5 * time.Millisecond, 40 * time.Millisecond, 99 * time.Millisecond, 100 * time.Millisecond, 101 * time.Millisecond}[rng.Intn(8)],
				kind:  rng.Intn(3), topic: topics[rng.Intn(nt)], id: ids[rng.Intn(nc)],
			})
		}
	}
	for p := 0; p < npub; p++ {
		p := p
		pwg.Add(1)
		go func() {
			defer pwg.Done()
			<-gate
			for _, st := range plans[p] {
				if st.sleep > 0 {
					time.Sleep(st.sleep)
				}
				msg := int(atomic.AddInt64(&msgN, 1))
				p0 := hs.tick()
				at := time.Since(w.t0)
				var acc map[string]bool
				switch st.kind {
				case 0:
					acc = map[string]bool{st.id: w.unicast(fmt.Sprintf("pub%d", p), msg, st.topic, st.id)}
				case 1:
					acc = w.multicast(fmt.Sprintf("pub%d", p), msg, st.topic, ids)
				default:
					acc = w.broadcast(fmt.Sprintf("pub%d", p), msg, st.topic)
				}
				p1 := hs.tick()
				hs.mu.Lock()
				for id, ok := range acc {
					hs.pubs = append(hs.pubs, &pub{msg: msg, topic: st.topic, id: id, call: p0, ret: p1, at: at, accepted: ok})
				}
				hs.mu.Unlock()
			}
		}()
	}
	// a subscriber that unsubscribes and resubscribes during traffic
	var uwg sync.WaitGroup
	if k%2 == 0 {
		uwg.Add(1)
		uid, utp := ids[rng.Intn(nc)], topics[rng.Intn(nt)]
		delete(stable, key(uid, utp))
		d1 := time.Duration(rng.Intn(150)) * time.Millisecond
		d2 := time.Duration(rng.Intn(150)) * time.Millisecond
		go func() {
			defer uwg.Done()
			<-gate
			time.Sleep(d1)
			u0 := hs.tick()
			w.unsubscribe(uid, utp)
			u1 := hs.tick()
			hs.mu.Lock()
			hs.uns = append(hs.uns, struct {
				id, topic string
				call, ret int64
			}{uid, utp, u0, u1})
			hs.mu.Unlock()
			time.Sleep(d2)
			w.subscribe(uid, utp)
		}()
	}
	close(gate)
	pwg.Wait()
	uwg.Wait()
	time.Sleep(3*pollTimeout + 50*time.Millisecond)
	close(stop)
	wg.Wait()
	r.Eval(int64(len(hs.pubs)))
	nacc := 0
	for _, p := range hs.pubs {
		if p.accepted {
			nacc++
		}
	}
	rep := map[string]interface{}{"scenario": "random", "clients": nc, "topics": nt, "publishers": npub, "heartbeat": hb.String(), "poll_timeout_windows": windows, "accepted": nacc, "deliveries": len(hs.dels)}
	// a client that is subscribed from the start, never unsubscribes and keeps polling well within
	// the heart beat stays subscribed: every publish to it is accepted
	for _, p := range hs.pubs {
		if !p.accepted && stable[key(p.id, p.topic)] {
			c.Violation("publish-rejected-for-a-subscribed-polling-client:random", fmt.Sprintf("message %d to %s/%s at virtual t=%v was refused although the client subscribed before the traffic began, never unsubscribed and polls continuously (heart beat %v)", p.msg, p.id, p.topic, p.at, hb), rep)
			break
		}
	}
	check(c, hs, w, nil, "random", rep)
	if nacc > 0 {
		r.Distinct(fmt.Sprintf("random|%d", k))
	}
	r.Stat("publishes_total", int64(len(hs.pubs)))
	if hb > 0 {
		r.Stat("publishes_total_with_heartbeat", int64(len(hs.pubs)))
		r.Stat("messages_accepted_with_heartbeat", int64(nacc))
	}
	r.Stat("messages_accepted", int64(nacc))
	r.Stat("messages_delivered", int64(len(hs.dels)))
	r.Stat("polls_timed_out", int64(len(windows)))
	if hb > 0 {
		time.Sleep(hb + time.Second) // let the heartbeat timers of the broker expire before the bubble ends
	}
}

// prosumerCase: delivery order at the callbacks of push.Prosumer.
func prosumerCase(c *h.Case, k int) {
	r := c.R
	rng := c.Rand()
	w := newWorld(pollTimeout, 0)
	defer w.close()
	client := core.NewClient("mock://" + w.addr)
	client.Timeout = 0
	ps := push.NewProsumer(client, "consumer")
	var mu sync.Mutex
	var got []int
	slow := k%2 == 0
	if _, err := ps.Subscribe("t", func(data int) {
		if slow && data%3 == 0 {
			time.Sleep(2 * time.Millisecond) // a callback that takes a little virtual time
		}
		mu.Lock()
		got = append(got, data)
		mu.Unlock()
	}); err != nil {
		c.Violation("prosumer-subscribe-failed", err.Error(), nil)
		return
	}
	time.Sleep(time.Millisecond)
	n := 10 + rng.Intn(30)
	var sent []int
	for i := 1; i <= n; i++ {
		if i == n/2 && k%3 != 1 {
			// a quiet period longer than the broker's poll time-out (one or two time-outs): the
			// loop gets the broker's empty answer and must poll again
			time.Sleep(time.Duration(1+k%2)*pollTimeout + 7*time.Millisecond)
		}
		if w.unicast("pub", i, "t", "consumer") {
			sent = append(sent, i)
		}
		time.Sleep([]time.Duration{0, 0, time.Millisecond, 3 * time.Millisecond}[rng.Intn(4)])
	}
	time.Sleep(2*pollTimeout + 50*time.Millisecond)
	ps.Unsubscribe("t")
	time.Sleep(2*pollTimeout + 50*time.Millisecond)
	r.Eval(int64(n))
	mu.Lock()
	defer mu.Unlock()
	rep := map[string]interface{}{"scenario": "prosumer", "sent": sent, "callbacks": got, "slow_callbacks": slow}
	seen := map[int]int{}
	for _, x := range got {
		seen[x]++
	}
	for _, x := range sent {
		if seen[x] == 0 {
			c.Violation("lost:prosumer", fmt.Sprintf("message %d accepted but the callback never saw it; callbacks saw %v", x, got), rep)
		} else if seen[x] > 1 {
			c.Violation("delivered-twice:prosumer", fmt.Sprintf("message %d reached the callback %d times", x, seen[x]), rep)
		}
	}
	if !sort.IntsAreSorted(got) {
		c.Violation("out-of-order:prosumer-callbacks", fmt.Sprintf("a sequential publisher sent %v; the callback saw %v", sent, got), rep)
	}
	r.Distinct(fmt.Sprintf("prosumer|%d", k))
}

// prosumerTopicsCase: a Prosumer whose poll loop is already running subscribes to further
// topics while messages for them are accepted: a greeting pushed by the broker from its
// OnSubscribe callback (accepted before Subscribe returns) and publishes right after.
func prosumerTopicsCase(c *h.Case, k int) {
	r := c.R
	rng := c.Rand()
	w := newWorld(pollTimeout, 0)
	defer w.close()
	var amu sync.Mutex
	accepted := map[int]string{} // message -> topic
	w.broker.OnSubscribe = func(ctx context.Context, id string, topic string) {
		if id != "consumer" {
			return
		}
		msg := 1000 + len(topic)*7 + int(topic[len(topic)-1])
		if w.broker.Push(msg, topic, id)[id] {
			amu.Lock()
			accepted[msg] = topic
			amu.Unlock()
		}
	}
	client := core.NewClient("mock://" + w.addr)
	client.Timeout = 0
	ps := push.NewProsumer(client, "consumer")
	var mu sync.Mutex
	got := map[string][]int{}
	sub := func(topic string) bool {
		_, err := ps.Subscribe(topic, func(data int) {
			mu.Lock()
			got[topic] = append(got[topic], data)
			mu.Unlock()
		})
		return err == nil
	}
	topics := []string{"a", "bb", "ccc", "dddd"}[:2+k%3]
	next := 1
	for i, topic := range topics {
		if !sub(topic) {
			c.Violation("prosumer-subscribe-failed", "Subscribe("+topic+") failed", nil)
			return
		}
		// publishes right after Subscribe returned, and a little later
		for j := 0; j < 1+rng.Intn(3); j++ {
			if w.unicast("pub", next, topic, "consumer") {
				amu.Lock()
				accepted[next] = topic
				amu.Unlock()
			}
			next++
			time.Sleep([]time.Duration{0, 0, time.Millisecond}[rng.Intn(3)])
		}
		if i == 0 {
			time.Sleep(time.Duration(rng.Intn(3)) * time.Millisecond) // let the poll loop get going
		}
	}
	if len(topics) > 2 && k%2 == 0 {
		// drop one topic while the poll is parked, then publish to the others
		time.Sleep(20 * time.Millisecond)
		ps.Unsubscribe(topics[0])
		time.Sleep(time.Duration(rng.Intn(3)) * time.Millisecond)
		for _, topic := range topics[1:] {
			if w.unicast("pub", next, topic, "consumer") {
				amu.Lock()
				accepted[next] = topic
				amu.Unlock()
			}
			next++
		}
	}
	time.Sleep(2*pollTimeout + 50*time.Millisecond)
	for _, topic := range topics {
		ps.Unsubscribe(topic)
	}
	time.Sleep(2*pollTimeout + 50*time.Millisecond)
	mu.Lock()
	defer mu.Unlock()
	amu.Lock()
	defer amu.Unlock()
	r.Eval(int64(len(accepted)))
	rep := map[string]interface{}{"scenario": "prosumer-more-topics", "topics": topics, "accepted": fmt.Sprint(accepted), "callbacks": fmt.Sprint(got)}
	count := map[int]int{}
	for topic, msgs := range got {
		for _, m := range msgs {
			count[m]++
			if accepted[m] != topic {
				c.Violation("wrong-topic:prosumer", fmt.Sprintf("message %d accepted for %q reached the callback of %q", m, accepted[m], topic), rep)
			}
		}
	}
	for m, topic := range accepted {
		switch {
		case count[m] == 0:
			kind := "publish"
			if m >= 1000 {
				kind = "greeting-from-OnSubscribe"
			}
			c.Violation("lost:prosumer-later-topic:"+kind, fmt.Sprintf("message %d accepted for topic %q (subscribed while the poll loop was running) never reached its callback; callbacks saw %v", m, topic, got), rep)
		case count[m] > 1:
			c.Violation("delivered-twice:prosumer", fmt.Sprintf("message %d reached callbacks %d times", m, count[m]), rep)
		}
	}
	r.Distinct(fmt.Sprintf("prosumer-topics|%d", k))
}

// prosumerFaultCase: one poll of a running Prosumer fails at the client before it reaches the
// broker (a plain error, or the time-out error the Prosumer treats differently). The broker saw
// nothing, the client stays subscribed and its loop re-subscribes and polls again: everything
// accepted before, during and after the failure must reach the callback once, in order.
func prosumerFaultCase(c *h.Case, k int) {
	r := c.R
	rng := c.Rand()
	w := newWorld(pollTimeout, 0)
	defer w.close()
	client := core.NewClient("mock://" + w.addr)
	client.Timeout = 0
	failAt := int64(2 + k%3)
	nfail := int64(1 + (k/3)%2)
	timeoutKind := (k/6)%2 == 0
	var polls, failed int64
	client.Use(func(ctx context.Context, name string, args []interface{}, next core.NextInvokeHandler) ([]interface{}, error) {
		if name == "<" {
			if n := atomic.AddInt64(&polls, 1); n >= failAt && n < failAt+nfail {
				atomic.AddInt64(&failed, 1)
				if timeoutKind {
					return nil, core.ErrTimeout
				}
				return nil, fmt.Errorf("injected poll failure %d", n)
			}
		}
		return next(ctx, name, args)
	})
	ps := push.NewProsumer(client, "consumer")
	ps.RetryInterval = time.Duration(k%4) * 5 * time.Millisecond
	var mu sync.Mutex
	var got []int
	if _, err := ps.Subscribe("t", func(data int) {
		mu.Lock()
		got = append(got, data)
		mu.Unlock()
	}); err != nil {
		c.Violation("prosumer-subscribe-failed", err.Error(), nil)
		return
	}
	time.Sleep(time.Millisecond)
	n := 12 + rng.Intn(20)
	var sent []int
	for i := 1; i <= n; i++ {
		if w.unicast("pub", i, "t", "consumer") {
			sent = append(sent, i)
		}
		// every publish answers one poll, so the failing polls fall among the first few messages
		time.Sleep([]time.Duration{0, time.Millisecond, 3 * time.Millisecond, 12 * time.Millisecond}[rng.Intn(4)])
	}
	time.Sleep(3*pollTimeout + 50*time.Millisecond)
	ps.Unsubscribe("t")
	time.Sleep(2*pollTimeout + 50*time.Millisecond)
	r.Eval(int64(n))
	mu.Lock()
	defer mu.Unlock()
	rep := map[string]interface{}{"scenario": "prosumer-failed-poll", "sent": sent, "callbacks": got, "failed_polls": atomic.LoadInt64(&failed), "fail_at_poll": failAt, "timeout_error": timeoutKind, "polls": atomic.LoadInt64(&polls)}
	if atomic.LoadInt64(&failed) == 0 {
		r.Inconclusive("prosumer-failed-poll: the failing poll was never reached")
		return
	}
	if len(sent) != n {
		c.Violation("refused:prosumer-after-failed-poll", fmt.Sprintf("%d of %d publishes to a subscribed client whose poll failed at the client were refused", n-len(sent), n), rep)
	}
	seen := map[int]int{}
	for _, x := range got {
		seen[x]++
	}
	for _, x := range sent {
		if seen[x] == 0 {
			c.Violation("lost:prosumer-after-failed-poll", fmt.Sprintf("message %d accepted but the callback never saw it after a poll failed at the client; callbacks saw %v", x, got), rep)
			break
		} else if seen[x] > 1 {
			c.Violation("delivered-twice:prosumer", fmt.Sprintf("message %d reached the callback %d times", x, seen[x]), rep)
		}
	}
	if !sort.IntsAreSorted(got) {
		c.Violation("out-of-order:prosumer-callbacks", fmt.Sprintf("a sequential publisher sent %v; the callback saw %v", sent, got), rep)
	}
	r.Stat("prosumer_failed_polls", atomic.LoadInt64(&failed))
	r.Distinct(fmt.Sprintf("prosumer-failed-poll|%d", k))
}

// resubscribeCase: a subscribed client subscribes to the same topic again (what a Prosumer does
// after every failed poll) while messages are queued for it or while its poll is parked: the
// repeated subscribe answers false and nothing queued is lost.
func resubscribeCase(c *h.Case, k int) {
	w := newWorld(pollTimeout, 0)
	defer w.close()
	hs := &hist{}
	parked := k%2 == 1
	before, after := 1+k/2%3, k/6%2
	other := k/12%2 == 1 // a second topic of the same client is left alone
	if !w.subscribe("c1", "t") {
		c.Violation("first-subscribe-false", "the first subscribe of a topic answered false", nil)
		return
	}
	if other {
		w.subscribe("c1", "u")
	}
	rep := map[string]interface{}{"scenario": "resubscribe", "parked_poll": parked, "published_before": before, "published_after": after}
	publish := func(m int, topic string) {
		p0 := hs.tick()
		ok := w.unicast("pub", m, topic, "c1")
		p1 := hs.tick()
		hs.mu.Lock()
		hs.pubs = append(hs.pubs, &pub{msg: m, topic: topic, id: "c1", call: p0, ret: p1, at: time.Since(w.t0), accepted: ok})
		hs.mu.Unlock()
		if !ok {
			c.Violation("refused:subscribed-client", fmt.Sprintf("publish %d to a subscribed client was refused", m), rep)
		}
	}
	record := func() {
		got, _, _, _, _ := w.poll("c1")
		seq := hs.tick()
		hs.mu.Lock()
		for topic, msgs := range got {
			for i, m := range msgs {
				hs.dels = append(hs.dels, deliv{msg: m, topic: topic, id: "c1", seq: seq, pos: i})
			}
		}
		hs.mu.Unlock()
	}
	done := make(chan struct{})
	if parked {
		go func() { record(); close(done) }()
		time.Sleep(time.Millisecond)
		if w.subscribe("c1", "t") {
			c.Violation("resubscribe-true", "a repeated subscribe of a subscribed topic answered true", rep)
		}
		m := 1
		for ; m <= before; m++ {
			publish(m, "t")
		}
		<-done
	} else {
		m := 1
		for ; m <= before; m++ {
			publish(m, "t")
			if other {
				publish(100+m, "u")
			}
		}
		if w.subscribe("c1", "t") {
			c.Violation("resubscribe-true", "a repeated subscribe of a subscribed topic answered true", rep)
		}
	}
	for m := 50; m < 50+after; m++ {
		publish(m, "t")
	}
	for i := 0; i < 3; i++ {
		record()
	}
	c.R.Eval(int64(before + after))
	check(c, hs, w, map[string]bool{key("c1", "t"): true, key("c1", "u"): other}, "resubscribe", rep)
	c.R.Distinct(fmt.Sprintf("resubscribe|%d", k))
}

// offlineCase: a client that stops polling beyond the heartbeat goes offline; its pending
// messages are handed to OnUnsubscribe. Excluded from the no-loss clause; checked for
// conservation only.
func offlineCase(c *h.Case) {
	w := newWorld(pollTimeout, 50*time.Millisecond)
	defer w.close()
	hs := &hist{}
	w.subscribe("c1", "t")
	// one poll that gets a message, then the client disappears
	go func() {
		got, _, _, _, _ := w.poll("c1")
		seq := hs.tick()
		hs.mu.Lock()
		for topic, msgs := range got {
			for i, m := range msgs {
				hs.dels = append(hs.dels, deliv{msg: m, topic: topic, id: "c1", seq: seq, pos: i})
			}
		}
		hs.mu.Unlock()
	}()
	time.Sleep(time.Millisecond)
	for m := 1; m <= 3; m++ {
		p0 := hs.tick()
		ok := w.unicast("pub", m, "t", "c1")
		p1 := hs.tick()
		hs.pubs = append(hs.pubs, &pub{msg: m, topic: "t", id: "c1", call: p0, ret: p1, at: time.Since(w.t0), accepted: ok})
		time.Sleep(10 * time.Millisecond)
	}
	time.Sleep(time.Second)
	c.R.Eval(3)
	// conservation: every accepted message was delivered or handed to OnUnsubscribe, none twice
	w.mu.Lock()
	leftovers := fmt.Sprint(w.left)
	w.mu.Unlock()
	check(c, hs, w, nil, "offline", map[string]interface{}{"scenario": "offline-after-heartbeat", "leftovers": leftovers})
	if ok := w.unicast("pub", 99, "t", "c1"); ok {
		c.Violation("accepted-for-an-offline-client", "a publish to a client that went offline reported success", nil)
	}
	c.R.Distinct("offline")
}

var _ = strings.Join
