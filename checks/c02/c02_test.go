// C02 — reference mode preserves shared and cyclic object graphs; every back-reference
// resolves to the item the encoder meant.
package c02

import (
	"bytes"
	"container/list"
	"errors"
	"fmt"
	"math/big"
	"math/rand"
	"reflect"
	"testing"
	"time"

	"github.com/google/uuid"
	hio "github.com/hprose/hprose-golang/v3/io"
	"verif/internal/eqv"
	"verif/internal/gentypes"
	"verif/internal/h"
	"verif/internal/hpref"
	"verif/internal/iox"
)

type G = gentypes.G

// genGraph builds n nodes with unique ids and random edges of every kind.
func genGraph(rng *rand.Rand, n int, shape string) (*G, []*G) {
	nodes := make([]*G, n)
	for i := range nodes {
		nodes[i] = &G{ID: i + 1, Str: fmt.Sprintf("node-%d", i+1)}
	}
	pick := func() *G { return nodes[rng.Intn(n)] }
	switch shape {
	case "tree":
		for i := 1; i < n; i++ {
			p := nodes[rng.Intn(i)]
			p.S = append(p.S, nodes[i])
		}
	case "chain-cycle":
		for i := 0; i < n; i++ {
			nodes[i].P = nodes[(i+1)%n]
		}
	case "self":
		for _, x := range nodes {
			x.P = x
			x.S = []*G{x, x}
			x.M = map[string]*G{"me": x}
			x.A = [2]*G{x, nil}
			x.I = x
		}
		for i := 1; i < n; i++ {
			nodes[0].S = append(nodes[0].S, nodes[i])
		}
	case "dag":
		// layered binary DAG: node i points twice at node i+1 (unfolding 2^n)
		for i := 0; i+1 < n; i++ {
			nodes[i].P = nodes[i+1]
			nodes[i].Q = nodes[i+1]
		}
	case "slice-cycle":
		for i := 0; i < n; i++ {
			nodes[i].S = []*G{nodes[(i+1)%n], nodes[(i+2)%n]}
		}
	case "map-cycle":
		for i := 0; i < n; i++ {
			nodes[i].M = map[string]*G{"next": nodes[(i+1)%n], "self": nodes[i]}
		}
	case "array-cycle":
		for i := 0; i < n; i++ {
			nodes[i].A = [2]*G{nodes[(i+1)%n], nodes[(i+n-1)%n]}
		}
	case "iface-cycle":
		for i := 0; i < n; i++ {
			switch i % 4 {
			case 0:
				nodes[i].I = nodes[(i+1)%n]
			case 1:
				nodes[i].I = []*G{nodes[(i+1)%n], nodes[i]}
			case 2:
				nodes[i].I = map[string]*G{"n": nodes[(i+1)%n]}
			case 3:
				nodes[i].I = []interface{}{nodes[(i+1)%n], "node-1", nodes[0]}
			}
		}
	case "ptr-to-container":
		shared := []*G{}
		for i := 0; i < n; i++ {
			shared = append(shared, nodes[i])
		}
		sm := map[string]*G{"first": nodes[0], "last": nodes[n-1]}
		for i := 0; i < n; i++ {
			nodes[i].PS = &shared // the same slice pointer everywhere: one definition, n-1 references
			nodes[i].PM = &sm
			if i+1 < n {
				nodes[i].P = nodes[i+1]
			}
		}
	default: // random
		for _, x := range nodes {
			if rng.Intn(2) == 0 {
				x.P = pick()
			}
			if rng.Intn(3) == 0 {
				x.Q = pick()
			}
			for k := rng.Intn(4); k > 0; k-- {
				if rng.Intn(6) == 0 {
					x.S = append(x.S, nil)
				} else {
					x.S = append(x.S, pick())
				}
			}
			if rng.Intn(3) == 0 {
				x.M = map[string]*G{}
				for k := rng.Intn(3); k >= 0; k-- {
					x.M[fmt.Sprintf("k%d", rng.Intn(4))] = pick()
				}
			}
			if rng.Intn(3) == 0 {
				x.A = [2]*G{pick(), pick()}
			}
			switch rng.Intn(8) {
			case 0:
				x.I = pick()
			case 1:
				x.I = []*G{pick(), pick()}
			case 2:
				x.I = map[string]*G{"a": pick()}
			case 3:
				x.I = []interface{}{pick(), x.Str, pick().Str, 1.5}
			case 4:
				x.I = &gentypes.H{N: x.ID, G: pick(), Any: []interface{}{pick(), "node-1"}}
			}
			if rng.Intn(4) == 0 {
				s := []*G{pick(), pick()}
				x.PS = &s
			}
			if rng.Intn(5) == 0 {
				m := map[string]*G{"x": pick()}
				x.PM = &m
			}
			// referable payloads, often repeated between nodes
			if rng.Intn(2) == 0 {
				x.Str = []string{"shared-string", "另一个共享", "node-1", "😀😀"}[rng.Intn(4)]
			}
			if rng.Intn(3) == 0 {
				x.B = [][]byte{nil, {}, []byte("bytes"), []byte("shared-string")}[rng.Intn(4)]
			}
			if rng.Intn(3) == 0 {
				x.T = time.Date(2020+rng.Intn(3), 1, 2, 3, 4, 5, 0, time.UTC)
			}
			if rng.Intn(3) == 0 {
				x.U = uuid.MustParse("550e8400-e29b-41d4-a716-446655440000")
			}
		}
	}
	return nodes[0], nodes
}

// reachable counts the distinct *G reachable from root through every field kind.
func reachable(root interface{}) int {
	seen := map[uintptr]bool{}
	var walk func(v reflect.Value)
	tG := reflect.TypeOf((*G)(nil))
	walk = func(v reflect.Value) {
		switch v.Kind() {
		case reflect.Ptr:
			if v.IsNil() {
				return
			}
			if v.Type() == tG {
				if seen[v.Pointer()] {
					return
				}
				seen[v.Pointer()] = true
			} else if seen[v.Pointer()^0x5555] {
				return
			} else {
				seen[v.Pointer()^0x5555] = true
			}
			walk(v.Elem())
		case reflect.Interface:
			if !v.IsNil() {
				walk(v.Elem())
			}
		case reflect.Slice, reflect.Array:
			if v.Type().Elem().Kind() == reflect.Uint8 {
				return
			}
			for i := 0; i < v.Len(); i++ {
				walk(v.Index(i))
			}
		case reflect.Map:
			it := v.MapRange()
			for it.Next() {
				walk(it.Value())
			}
		case reflect.Struct:
			if v.Type().PkgPath() == "time" || v.Type() == reflect.TypeOf(uuid.UUID{}) {
				return
			}
			for i := 0; i < v.NumField(); i++ {
				if v.Type().Field(i).PkgPath == "" {
					walk(v.Field(i))
				}
			}
		}
	}
	walk(reflect.ValueOf(root))
	n := 0
	tGcount := 0
	_ = tGcount
	for range seen {
		n++
	}
	// count only *G entries: recount
	n = 0
	var count func(v reflect.Value)
	seen2 := map[uintptr]bool{}
	seenO := map[uintptr]bool{}
	count = func(v reflect.Value) {
		switch v.Kind() {
		case reflect.Ptr:
			if v.IsNil() {
				return
			}
			if v.Type() == tG {
				if seen2[v.Pointer()] {
					return
				}
				seen2[v.Pointer()] = true
				n++
			} else {
				if seenO[v.Pointer()] {
					return
				}
				seenO[v.Pointer()] = true
			}
			count(v.Elem())
		case reflect.Interface:
			if !v.IsNil() {
				count(v.Elem())
			}
		case reflect.Slice, reflect.Array:
			if v.Type().Elem().Kind() == reflect.Uint8 {
				return
			}
			for i := 0; i < v.Len(); i++ {
				count(v.Index(i))
			}
		case reflect.Map:
			it := v.MapRange()
			for it.Next() {
				count(it.Value())
			}
		case reflect.Struct:
			if v.Type().PkgPath() == "time" || v.Type() == reflect.TypeOf(uuid.UUID{}) {
				return
			}
			for i := 0; i < v.NumField(); i++ {
				if v.Type().Field(i).PkgPath == "" {
					count(v.Field(i))
				}
			}
		}
	}
	count(reflect.ValueOf(root))
	return n
}

var shapes = []string{"tree", "chain-cycle", "self", "dag", "slice-cycle", "map-cycle", "array-cycle", "iface-cycle", "ptr-to-container", "random", "random", "random"}

func TestCheck(t *testing.T) {
	r := h.Start(t, "C02")
	defer r.Finish()
	r.Meta("rule", "graphs: node type with pointer, slice-, map-, array-of-pointer, interface{}, pointer-to-slice and pointer-to-map fields; shapes {tree, chain cycle, self loops through every field kind, depth-n binary DAG (unfolding 2^n), cycles through slices/maps/arrays/interfaces, shared container pointers, random} x sizes 1..40; encoded in reference mode, (1) each distinct node must appear as exactly one object body in the independent reader's parse, (2) the parse must be bisimilar to the Go graph (every r index resolves to the item meant), (3) decoding into *G and into interface{} must be bisimilar to the original, (4) stream length is bounded linearly in the number of nodes. reference soup: one item of every reference-counted kind placed before/between/after repeated strings and pointers, typed and interface{} destinations. distinct_nontrivial = distinct (shape,size,seed-derived graph) and (soup item kind, position) pairs Added: for each of the 14 key kinds a map to interface{} (shared pointer, shared list, shared string as values) and a map to string; \"each distinct object written once\" decided on the independently parsed stream (distinct objects per class, referable literals counted).")
	r.Meta("assumptions", []string{
		"cycles are closed through Go pointers (only pointers have identity in this encoder)",
		"equality is bisimulation of unfoldings (visited-pair comparison); pointer identity after decoding is reported as a statistic only",
		"hpref resolves references itself, so a consistent-but-wrong numbering on both Go sides would still be caught by the parse",
	})
	sizes := []int{1, 2, 3, 4, 5, 6, 8, 12, 20, 40}
	reps := r.Pick(60, 600)
	for _, shape := range shapes {
		for _, n := range sizes {
			for rep := 0; rep < reps; rep++ {
				shape, n, rep := shape, n, rep
				if shape != "random" && shape != "tree" && rep >= 2 {
					continue // deterministic shapes need no repetition beyond the two entry points
				}
				if shape == "tree" && rep >= 24 {
					continue
				}
				r.Case(fmt.Sprintf("graph/%s/n%d/%d", shape, n, rep), func(c *h.Case) { graphCase(c, shape, n, rep) })
			}
		}
	}
	soupCases(r)
	typedSoupCases(r)
}

func graphCase(c *h.Case, shape string, n, rep int) {
	rng := c.Rand()
	root, nodes := genGraph(rng, n, shape)
	var top interface{} = root
	switch rep % 4 {
	case 1:
		top = []*G{root, nodes[n-1], root}
	case 2:
		top = map[string]*G{"root": root, "again": root}
	case 3:
		top = &gentypes.H{N: 1, G: root, Any: []interface{}{root, nodes[n/2]}}
	}
	distinct := reachable(top)
	want := eqv.Denote(top)
	var data []byte
	var err error
	t0 := time.Now()
	p, st := h.Try(func() { data, err = iox.Encode(top, false, rep%iox.NEnc) })
	c.R.Eval(1)
	sig := shape
	rep0 := map[string]interface{}{"shape": shape, "n": n, "rep": rep}
	if p != nil {
		c.Violation("encode-panic:"+sig+":"+h.PanicClass(fmt.Sprint(p))+"@"+h.FirstRepoFrame(st), fmt.Sprintf("%v\n%s", p, h.TrimStack(st)), rep0)
		return
	}
	if err != nil {
		c.Violation("encode-error:"+sig, err.Error(), rep0)
		return
	}
	c.R.StatMax("max_encode_ms", time.Since(t0).Milliseconds())
	rep0["bytes"] = h.Hex(clipb(data, 1500))
	// (4) linear size: each node costs at most ~400 bytes here (13 fields, short payloads,
	// class definition once); references cost < 12 bytes each and there are at most ~12 per node
	bound := 600 + 700*distinct
	if len(data) > bound {
		c.Violation("size-not-linear:"+sig, fmt.Sprintf("stream of %d bytes for %d distinct nodes (bound %d)", len(data), distinct, bound), rep0)
	}
	c.R.StatMax("max_stream_bytes", int64(len(data)))
	// (1)+(2) independent parse
	got, rd, perr := hpref.Parse(data)
	if perr != nil {
		c.Violation("malformed:"+sig, fmt.Sprintf("independent reader rejects the stream: %v\nbytes=%s", perr, h.Hex(clipb(data, 800))), rep0)
		return
	}
	nObjG := countClass(got, "G")
	if nObjG != distinct {
		c.Violation("node-written-not-once:"+sig, fmt.Sprintf("%d distinct nodes reachable but %d object bodies of class G in the stream", distinct, nObjG), rep0)
	}
	if why := eqv.DEqual(want, got); why != "" {
		c.Violation("wrong-reference:"+sig, fmt.Sprintf("the stream, read independently, is not bisimilar to the graph: %s\nbytes=%s", why, h.Hex(clipb(data, 800))), rep0)
	}
	c.R.Stat("refs_resolved", int64(rd.NRefUse))
	// (3) decode typed
	ptr := reflect.New(reflect.TypeOf(top))
	p, st = h.Try(func() {
		err = iox.Decode(append([]byte(nil), data...), ptr.Interface(), false, iox.Setting{}, rep%iox.NDec)
	})
	c.R.Eval(1)
	if p != nil {
		c.Violation("decode-panic:"+sig+":"+h.PanicClass(fmt.Sprint(p))+"@"+h.FirstRepoFrame(st), fmt.Sprintf("%v\nbytes=%s\n%s", p, h.Hex(clipb(data, 600)), h.TrimStack(st)), rep0)
		return
	}
	if err != nil {
		c.Violation("decode-error:"+sig, fmt.Sprintf("%v\nbytes=%s", err, h.Hex(clipb(data, 800))), rep0)
		return
	}
	if why := eqv.Equal(reflect.ValueOf(top), ptr.Elem()); why != "" {
		c.Violation("graph-mismatch:"+sig, fmt.Sprintf("decoded graph differs at %s\nbytes=%s", why, h.Hex(clipb(data, 800))), rep0)
	}
	if why := eqv.DEqual(want, eqv.DenoteValue(ptr.Elem())); why != "" {
		c.Violation("graph-mismatch-denotation:"+sig, fmt.Sprintf("decoded graph not bisimilar: %s", why), rep0)
	}
	if reachable(ptr.Elem().Interface()) == distinct {
		c.R.Stat("sharing_preserved", 1)
	} else {
		c.R.Stat("sharing_not_preserved", 1)
	}
	// decode a second, different graph into the same (now used) destination: the usual loop
	// that decodes a stream of messages into one variable
	shape2 := shapes[(int(c.Index)+rep+3)%len(shapes)]
	root2, nodes2 := genGraph(rng, 1+(n+rep)%7, shape2)
	var top2 interface{} = root2
	switch rep % 4 {
	case 1:
		top2 = []*G{root2, nodes2[len(nodes2)-1], root2}
	case 2:
		top2 = map[string]*G{"root": root2, "again": root2}
	case 3:
		top2 = &gentypes.H{N: 1, G: root2, Any: []interface{}{root2, nodes2[len(nodes2)/2]}}
	}
	// Only after a tree: like encoding/json the decoder fills existing pointees in place, so a
	// destination whose old contents share or cycle merges the new values through the old
	// aliases; that is outside the property's domain and fails on the unchanged tree.
	if data2, err2 := iox.Encode(top2, false, iox.EncMarshal); err2 == nil && shape == "tree" {
		p, st = h.Try(func() {
			err = iox.Decode(append([]byte(nil), data2...), ptr.Interface(), false, iox.Setting{}, iox.DecFresh)
		})
		c.R.Eval(1)
		rep2 := map[string]interface{}{"shape_first": shape, "n_first": n, "shape_second": shape2, "rep": rep, "bytes_second": h.Hex(clipb(data2, 1200))}
		if p != nil {
			c.Violation("decode-panic-reused-destination:"+h.PanicClass(fmt.Sprint(p))+"@"+h.FirstRepoFrame(st), fmt.Sprintf("%v\n%s", p, h.TrimStack(st)), rep2)
		} else if err != nil {
			c.Violation("decode-error-reused-destination:"+shape2, err.Error(), rep2)
		} else if why := eqv.Equal(reflect.ValueOf(top2), ptr.Elem()); why != "" {
			c.Violation("graph-mismatch-reused-destination:"+shape+"-then-"+shape2, fmt.Sprintf("a %s graph decoded into a destination that already held a %s graph differs at %s\nbytes=%s", shape2, shape, why, h.Hex(clipb(data2, 800))), rep2)
		}
	}
	// decode into interface{} under a random setting
	s := iox.RandSetting(rng)
	s.Map = 0 // string-keyed conversion would stringify nothing here, keep default
	var any interface{}
	p, st = h.Try(func() { err = iox.Decode(append([]byte(nil), data...), &any, false, s, iox.DecFresh) })
	c.R.Eval(1)
	if p != nil {
		c.Violation("decode-panic-iface:"+sig+":"+h.PanicClass(fmt.Sprint(p))+"@"+h.FirstRepoFrame(st), fmt.Sprintf("%v\nsetting=%s bytes=%s\n%s", p, s, h.Hex(clipb(data, 600)), h.TrimStack(st)), rep0)
		return
	}
	if err != nil {
		c.Violation("decode-error-iface:"+sig, fmt.Sprintf("%v setting=%s\nbytes=%s", err, s, h.Hex(clipb(data, 800))), rep0)
		return
	}
	if iox.SettingCanHold(want, s) {
		if why := eqv.DEqual(want, eqv.Denote(any)); why != "" {
			c.Violation("graph-mismatch-iface:"+sig, fmt.Sprintf("graph decoded into interface{} (setting %s) not bisimilar: %s\nbytes=%s", s, why, h.Hex(clipb(data, 800))), rep0)
		}
	}
	c.R.Distinct(fmt.Sprintf("%s|%d|%d|%d", shape, n, rep, len(data)))
	c.R.SetAdd("shapes", shape)
	if n == 3 && rep == 0 {
		c.R.Sample(map[string]interface{}{"shape": shape, "nodes": n, "distinct_reachable": distinct, "stream": h.Hex(clipb(data, 300)), "refs_in_stream": rd.NRefUse})
	}
}

func countClass(d *eqv.D, class string) int {
	seen := map[*eqv.D]bool{}
	n := 0
	var walk func(d *eqv.D)
	walk = func(d *eqv.D) {
		if d == nil || seen[d] {
			return
		}
		seen[d] = true
		if d.K == eqv.KObj && d.Class == class {
			n++
		}
		for _, x := range d.List {
			walk(x)
		}
		for _, x := range d.Keys {
			walk(x)
		}
		for _, x := range d.Vals {
			walk(x)
		}
	}
	walk(d)
	return n
}

// ---- reference soup ----

type soupItem struct {
	name string
	v    interface{}
	// noRoundTrip: item is written but cannot be decoded back as a value (error values)
	noDecode bool
}

func soupItems() []soupItem {
	one := 7
	l := list.New()
	l.PushBack("in-list")
	l.PushBack("probe-string")
	el := list.New()
	tm := time.Date(2021, 3, 4, 5, 6, 7, 0, time.UTC)
	u := uuid.MustParse("550e8400-e29b-41d4-a716-446655440000")
	return []soupItem{
		{"string", "two or more units", false},
		{"string-astral", "😀", false}, // 2 UTF-16 units: a referable string
		{"string-1unit", "x", false},  // not referable
		{"string-empty", "", false},
		{"string-invalid-utf8", "\xff\xfe", false}, // travels as bytes: referable
		{"bytes", []byte("bytes"), false}, {"bytes-empty", []byte{}, false}, {"bytes-nil", []byte(nil), false},
		{"time", tm, false}, {"time-ptr", &tm, false}, {"time-date-only", time.Date(2021, 3, 4, 0, 0, 0, 0, time.UTC), false}, {"time-only", time.Date(1970, 1, 1, 1, 2, 3, 0, time.UTC), false},
		{"uuid", u, false}, {"uuid-ptr", &u, false},
		{"list", l, false}, {"list-empty", el, false},
		{"map", map[string]int{"a": 1}, false}, {"map-empty", map[string]int{}, false}, {"map-nil", map[string]int(nil), false},
		{"map-iface", map[interface{}]interface{}{"probe-string": "probe-string"}, false},
		{"slice-int", []int{1, 2}, false}, {"slice-empty", []int{}, false}, {"slice-nil", []int(nil), false},
		{"slice-string", []string{"probe-string", "aa", "aa"}, false},
		{"slice-iface", []interface{}{"probe-string", 1, nil}, false},
		{"array", [2]int{1, 2}, false}, {"array0", [0]int{}, false}, {"array-bytes", [3]byte{1, 2, 3}, false}, {"array-ptr", &[2]string{"aa", "probe-string"}, false},
		{"2d-int", [][]int{{1}, nil, {}}, false}, {"2d-bytes", [][]byte{[]byte("a"), nil, {}}, false}, {"2d-string", [][]string{{"aa", "aa"}, nil}, false},
		{"2d-float", [][]float64{{1.5}, {}}, false}, {"2d-iface", [][]interface{}{{"aa"}, nil}, false}, {"2d-bool", [][]bool{{true}}, false},
		{"2d-int8", [][]int8{{1}}, false}, {"2d-uint16", [][]uint16{{1}, nil}, false}, {"2d-float32", [][]float32{{1}}, false},
		{"object", &gentypes.Scalars{S: "probe-string", I: 1}, false}, {"object-value", gentypes.One{A: 1}, false}, {"object-1ptr", &gentypes.OnePtr{P: &one}, false},
		{"object-nested", &gentypes.Nested{OneP: &gentypes.One{A: 2}}, false}, {"object-empty", &gentypes.Empty{}, false},
		{"object-embeds", &gentypes.Embeds{Inner: gentypes.Inner{IB: "probe-string"}, Name: "probe-string"}, false},
		{"anon-struct", struct {
			A int
			S string
		}{1, "probe-string"}, false}, {"anon-struct-ptr", &struct{ S string }{"probe-string"}, false}, {"anon-empty", struct{}{}, false},
		{"rat", big.NewRat(1, 3), false}, {"rat-int", big.NewRat(4, 1), false}, {"bigint", big.NewInt(1 << 40), false}, {"bigfloat", big.NewFloat(1.5), false},
		{"complex", complex(1, 2), false}, {"complex-real", complex(1, 0), false}, {"complex64", complex64(complex(0, 1)), false},
		{"error", errors.New("probe-string"), true},
		{"int", 12345, false}, {"float", 1.5, false}, {"bool", true, false}, {"nil", nil, false},
		{"ptr-int", &one, false}, {"ptr-string", strp("probe-string"), false},
		{"tree", &gentypes.Tree{Name: "probe-string", Kids: []*gentypes.Tree{{Name: "kid"}}}, false},
	}
}

func strp(s string) *string { return &s }

// fastPathMaps: the encoder has a hand-written body writer for every (key kind, value kind)
// pair. For each key kind a map to interface{} whose values share one pointer, one list and
// one referable string (each also a second time), and a map to string with one string under
// several keys. The map order is random, so whichever value comes second must be a back-reference.
func fastPathMaps() []soupItem {
	var out []soupItem
	keyTypes := []reflect.Type{
		reflect.TypeOf(""), reflect.TypeOf(int(0)), reflect.TypeOf(int8(0)), reflect.TypeOf(int16(0)), reflect.TypeOf(int32(0)), reflect.TypeOf(int64(0)),
		reflect.TypeOf(uint(0)), reflect.TypeOf(uint8(0)), reflect.TypeOf(uint16(0)), reflect.TypeOf(uint32(0)), reflect.TypeOf(uint64(0)),
		reflect.TypeOf(float32(0)), reflect.TypeOf(float64(0)), reflect.TypeOf((*interface{})(nil)).Elem(),
	}
	key := func(kt reflect.Type, i int) reflect.Value {
		switch kt.Kind() {
		case reflect.String:
			return reflect.ValueOf(fmt.Sprintf("key-%d", i))
		case reflect.Interface:
			return reflect.ValueOf(&[]interface{}{i + 1}[0]).Elem()
		case reflect.Float32, reflect.Float64:
			return reflect.ValueOf(float64(i) + 1.5).Convert(kt)
		}
		return reflect.ValueOf(i + 1).Convert(kt)
	}
	for _, kt := range keyTypes {
		shared := &gentypes.Tree{Name: "shared-through-map-values"}
		sharedList := []interface{}{"in a shared list", 1}
		mi := reflect.MakeMap(reflect.MapOf(kt, reflect.TypeOf((*interface{})(nil)).Elem()))
		vals := []interface{}{shared, shared, sharedList, sharedList, "probe-string", "probe-string", 5, nil}
		for i, v := range vals {
			if v == nil {
				mi.SetMapIndex(key(kt, i), reflect.Zero(mi.Type().Elem()))
			} else {
				mi.SetMapIndex(key(kt, i), reflect.ValueOf(v))
			}
		}
		out = append(out, soupItem{"map-" + kt.String() + "-to-interface", mi.Interface(), false})
		ms := reflect.MakeMap(reflect.MapOf(kt, reflect.TypeOf("")))
		for i := 0; i < 4; i++ {
			ms.SetMapIndex(key(kt, i), reflect.ValueOf("probe-string"))
		}
		out = append(out, soupItem{"map-" + kt.String() + "-to-string", ms.Interface(), false})
	}
	return out
}

func soupCases(r *h.Run) {
	items := append(soupItems(), fastPathMaps()...)
	for i, it := range items {
		for pos := 0; pos < 3; pos++ {
			i, it, pos := i, it, pos
			r.Case(fmt.Sprintf("soup/%s/pos%d", it.name, pos), func(c *h.Case) { soupCase(c, items, i, it, pos) })
		}
	}
	// random soups of several items
	n := r.Pick(4000, 60000)
	for k := 0; k < n; k++ {
		k := k
		r.Case(fmt.Sprintf("soup/random/%d", k), func(c *h.Case) {
			rng := c.Rand()
			var seq []interface{}
			shared := &gentypes.One{A: 9}
			probes := []interface{}{"probe-string", shared, "另一个共享"}
			hasErr := false
			for j := 2 + rng.Intn(8); j > 0; j-- {
				if rng.Intn(3) == 0 {
					seq = append(seq, probes[rng.Intn(len(probes))])
				} else {
					it := items[rng.Intn(len(items))]
					if it.noDecode {
						hasErr = true
					}
					seq = append(seq, it.v)
				}
			}
			seq = append(seq, "probe-string", shared, "probe-string", shared)
			runSoup(c, "random", seq, hasErr)
		})
	}
}

func soupCase(c *h.Case, items []soupItem, i int, it soupItem, pos int) {
	shared := &gentypes.One{A: 9}
	var seq []interface{}
	switch pos {
	case 0: // item before the probes: an off-by-one at its counting site shifts both probes' references
		seq = []interface{}{it.v, "probe-string", shared, "probe-string", shared}
	case 1: // between definition and reference
		seq = []interface{}{"probe-string", shared, it.v, "probe-string", shared}
	case 2: // item repeated itself, then probes
		seq = []interface{}{"probe-string", it.v, it.v, shared, "probe-string", shared, it.v}
	}
	runSoup(c, it.name, seq, it.noDecode)
	c.R.Distinct(fmt.Sprintf("soup|%s|%d", it.name, pos))
}

func runSoup(c *h.Case, name string, seq []interface{}, noDecode bool) {
	want := eqv.Denote(seq)
	var data []byte
	var err error
	p, st := h.Try(func() { data, err = iox.Encode(seq, false, iox.EncMarshal) })
	c.R.Eval(1)
	rep := map[string]interface{}{"item": name, "seq": fmt.Sprintf("%#v", seq)}
	if p != nil {
		c.Violation("soup-encode-panic:"+name+":"+h.PanicClass(fmt.Sprint(p))+"@"+h.FirstRepoFrame(st), fmt.Sprintf("%v\n%s", p, h.TrimStack(st)), rep)
		return
	}
	if err != nil {
		c.Violation("soup-encode-error:"+name, err.Error(), rep)
		return
	}
	rep["bytes"] = h.Hex(clipb(data, 1200))
	got, rd, perr := hpref.Parse(data)
	if perr != nil {
		c.Violation("soup-malformed:"+name, fmt.Sprintf("independent reader rejects the stream: %v\nbytes=%s", perr, h.Hex(clipb(data, 800))), rep)
		return
	}
	if why := eqv.DEqual(want, got); why != "" {
		c.Violation("soup-wrong-reference:"+name, fmt.Sprintf("read independently, the stream denotes something else: %s\nbytes=%s", why, h.Hex(clipb(data, 800))), rep)
	}
	// each distinct object is written once: the independent reader must find as many distinct
	// objects of a class as the value has (a second full copy instead of a back-reference
	// shows as one more), and a referable string literal appears once in the stream
	for _, cls := range []string{"Tree", "Scalars", "One", "OnePtr", "Nested", "Embeds"} {
		if w, g := countClass(want, cls), countClass(got, cls); w != g {
			c.Violation("object-written-more-than-once:"+name, fmt.Sprintf("the value has %d distinct %s objects, the stream defines %d\nbytes=%s", w, cls, g, h.Hex(clipb(data, 800))), rep)
		}
	}
	for _, lit := range []string{"probe-string", "shared-through-map-values"} {
		// (the message of an error value is written after an E tag and is not referable)
		if n := bytes.Count(data, []byte(lit)) - bytes.Count(data, []byte(fmt.Sprintf("Es%d\"%s\"", len(lit), lit))); n > 1 {
			c.Violation("string-written-more-than-once:"+name, fmt.Sprintf("the referable string %q is written %d times in one reference-mode stream\nbytes=%s", lit, n, h.Hex(clipb(data, 800))), rep)
		}
	}
	c.R.Stat("refs_resolved", int64(rd.NRefUse))
	if rd.NRefUse == 0 {
		c.R.Stat("soup_without_back_reference", 1)
	}
	if noDecode {
		return
	}
	// decode into []interface{} and into interface{}
	for k := 0; k < 2; k++ {
		var dst interface{}
		if k == 0 {
			dst = new([]interface{})
		} else {
			dst = new(interface{})
		}
		p, st = h.Try(func() { err = iox.Decode(append([]byte(nil), data...), dst, false, iox.Setting{}, k) })
		c.R.Eval(1)
		if p != nil {
			c.Violation("soup-decode-panic:"+name+":"+h.PanicClass(fmt.Sprint(p))+"@"+h.FirstRepoFrame(st), fmt.Sprintf("%v\nbytes=%s\n%s", p, h.Hex(clipb(data, 600)), h.TrimStack(st)), rep)
			return
		}
		if err != nil {
			c.Violation("soup-decode-error:"+name, fmt.Sprintf("%v\nbytes=%s", err, h.Hex(clipb(data, 800))), rep)
			return
		}
		if why := eqv.DEqual(want, eqv.DenoteValue(reflect.ValueOf(dst).Elem())); why != "" {
			c.Violation("soup-mismatch:"+name, fmt.Sprintf("decoded sequence differs: %s\nbytes=%s", why, h.Hex(clipb(data, 800))), rep)
			return
		}
	}
	// typed destination: a struct whose fields take the items is covered by C01; here also
	// decode element-wise with one decoder (reference scope spans the whole list)
	dec := hio.NewDecoder(append([]byte(nil), data...)).Simple(false)
	var back []interface{}
	p, st = h.Try(func() { dec.Decode(&back) })
	if p == nil && dec.Error == nil && len(back) != len(seq) {
		c.Violation("soup-length:"+name, fmt.Sprintf("decoded %d items, wrote %d", len(back), len(seq)), rep)
	}
}

// typedSoup: every referable kind in a typed position between a definition and a
// back-reference, decoded into a typed destination (an anonymous struct built with reflect).
func typedSoupCases(r *h.Run) {
	tm := time.Date(2021, 3, 4, 5, 6, 7, 0, time.UTC)
	u := uuid.MustParse("550e8400-e29b-41d4-a716-446655440000")
	l := list.New()
	l.PushBack("in-list")
	l.PushBack("probe-string")
	one := 3
	items := []interface{}{
		"two or more units", "😀", "x", "", "\xff\xfe", []byte("bytes"), []byte{}, []byte(nil),
		tm, &tm, time.Date(2021, 3, 4, 0, 0, 0, 0, time.UTC), time.Date(1970, 1, 1, 1, 2, 3, 0, time.UTC), u, &u, l,
		map[string]int{"a": 1}, map[string]int{}, map[string]int(nil), map[interface{}]interface{}{"probe-string": "probe-string"},
		[]int{1, 2}, []int{}, []int(nil), []string{"probe-string", "aa", "aa"}, []interface{}{"probe-string", 1, nil},
		[2]int{1, 2}, [0]int{}, [3]byte{1, 2, 3}, &[2]string{"aa", "probe-string"}, [1]*int{&one},
		[][]int{{1}, nil, {}}, [][]byte{[]byte("a"), nil, {}}, [][]string{{"aa", "aa"}, nil}, [][]float64{{1.5}, {}}, [][]interface{}{{"aa"}, nil, {"aa", "probe-string"}}, [][]bool{{true}},
		&gentypes.Scalars{S: "probe-string", I: 1}, gentypes.One{A: 1}, &gentypes.OnePtr{P: &one}, gentypes.OnePtr{P: &one}, &gentypes.Nested{OneP: &gentypes.One{A: 2}}, &gentypes.Empty{}, gentypes.Empty{},
		&gentypes.Embeds{Inner: gentypes.Inner{IB: "probe-string"}, Name: "probe-string"}, gentypes.EmbedsLate{Name: "probe-string"},
		struct {
			A int
			S string
		}{1, "probe-string"}, &struct{ S string }{"probe-string"}, struct{}{},
		big.NewRat(1, 3), *big.NewRat(1, 3), big.NewRat(4, 1), big.NewInt(1 << 40), *big.NewInt(5), big.NewFloat(1.5), *big.NewFloat(2.5),
		complex(1, 2), complex(1, 0), complex64(complex(0, 1)), 12345, 1.5, true, &one, strp("probe-string"),
		gentypes.MyBytes("nb"), gentypes.MyIntSlice{1, 2}, gentypes.MyStrMap{"k": 1}, gentypes.MyString("named string"),
		&gentypes.Tree{Name: "probe-string", Kids: []*gentypes.Tree{{Name: "kid"}}},
	}
	tOne := reflect.TypeOf((*gentypes.One)(nil))
	tStr := reflect.TypeOf("")
	for i, it := range items {
		i, it := i, it
		r.Case(fmt.Sprintf("typed-soup/%d/%T", i, it), func(c *h.Case) {
			t := reflect.TypeOf(it)
			st := reflect.StructOf([]reflect.StructField{
				{Name: "P1", Type: tStr}, {Name: "O1", Type: tOne}, {Name: "It", Type: t}, {Name: "P2", Type: tStr}, {Name: "O2", Type: tOne}, {Name: "It2", Type: t}, {Name: "P3", Type: tStr}, {Name: "O3", Type: tOne},
			})
			shared := &gentypes.One{A: 9}
			v := reflect.New(st).Elem()
			v.Field(0).SetString("probe-string")
			v.Field(1).Set(reflect.ValueOf(shared))
			v.Field(2).Set(reflect.ValueOf(it))
			v.Field(3).SetString("probe-string")
			v.Field(4).Set(reflect.ValueOf(shared))
			v.Field(5).Set(reflect.ValueOf(it))
			v.Field(6).SetString("probe-string")
			v.Field(7).Set(reflect.ValueOf(shared))
			for variant := 0; variant < 3; variant++ {
				var top reflect.Value
				switch variant {
				case 0:
					top = v
				case 1: // as slice elements of the struct type
					top = reflect.MakeSlice(reflect.SliceOf(st), 2, 2)
					top.Index(0).Set(v)
					top.Index(1).Set(v)
				case 2: // behind a pointer inside a map
					top = reflect.MakeMap(reflect.MapOf(tStr, reflect.PtrTo(st)))
					pv := reflect.New(st)
					pv.Elem().Set(v)
					top.SetMapIndex(reflect.ValueOf("k"), pv)
				}
				name := fmt.Sprintf("%T", it)
				var data []byte
				var err error
				p, stk := h.Try(func() { data, err = iox.Encode(top.Interface(), false, iox.EncMarshal) })
				c.R.Eval(1)
				rep := map[string]interface{}{"item": fmt.Sprintf("%#v", it), "variant": variant}
				if p != nil {
					c.Violation("typed-soup-encode-panic:"+name+":"+h.PanicClass(fmt.Sprint(p))+"@"+h.FirstRepoFrame(stk), fmt.Sprintf("%v\n%s", p, h.TrimStack(stk)), rep)
					continue
				}
				if err != nil {
					c.Violation("typed-soup-encode-error:"+name, err.Error(), rep)
					continue
				}
				rep["bytes"] = h.Hex(clipb(data, 1200))
				got, rd, perr := hpref.Parse(data)
				if perr != nil {
					c.Violation("typed-soup-malformed:"+name, fmt.Sprintf("%v\nbytes=%s", perr, h.Hex(clipb(data, 800))), rep)
					continue
				}
				if why := eqv.DEqual(eqv.DenoteValue(top), got); why != "" {
					c.Violation("typed-soup-wrong-reference:"+name, fmt.Sprintf("read independently the stream denotes something else: %s\nbytes=%s", why, h.Hex(clipb(data, 800))), rep)
				}
				c.R.Stat("refs_resolved", int64(rd.NRefUse))
				for entry := 0; entry < iox.NDec; entry++ {
					ptr := reflect.New(top.Type())
					p, stk = h.Try(func() { err = iox.Decode(append([]byte(nil), data...), ptr.Interface(), false, iox.Setting{}, entry) })
					c.R.Eval(1)
					if p != nil {
						c.Violation("typed-soup-decode-panic:"+name+":"+h.PanicClass(fmt.Sprint(p))+"@"+h.FirstRepoFrame(stk), fmt.Sprintf("%v\nbytes=%s\n%s", p, h.Hex(clipb(data, 600)), h.TrimStack(stk)), rep)
						break
					}
					if err != nil {
						c.Violation("typed-soup-decode-error:"+name, fmt.Sprintf("%v\nbytes=%s", err, h.Hex(clipb(data, 800))), rep)
						break
					}
					if why := eqv.Equal(top, ptr.Elem()); why != "" {
						c.Violation("typed-soup-mismatch:"+name, fmt.Sprintf("typed decode differs at %s\nbytes=%s", why, h.Hex(clipb(data, 800))), rep)
						break
					}
				}
				c.R.Distinct(fmt.Sprintf("typed-soup|%d|%d", i, variant))
			}
		})
	}
}

func clipb(b []byte, n int) []byte {
	if len(b) > n {
		return b[:n]
	}
	return b
}
