// C05 — streaming decode equals in-memory decode for every fragmentation.
package c05

import (
	"os"
	"bytes"
	"fmt"
	"io"
	"math/rand"
	"reflect"
	"strings"
	"testing"
	"testing/iotest"

	hio "github.com/hprose/hprose-golang/v3/io"
	"verif/internal/corpus"
	"verif/internal/eqv"
	"verif/internal/gentypes"
	"verif/internal/h"
	"verif/internal/iox"
)

// fragReader hands out data in chunks given by sizes (cycled); a size of 0 is a zero-byte read.
type fragReader struct {
	data  []byte
	pos   int
	sizes []int
	i     int
	// boundaries seen (offsets at which a read ended before the end of data)
	bounds []int
}

func (f *fragReader) Read(p []byte) (int, error) {
	if f.pos >= len(f.data) {
		return 0, io.EOF
	}
	n := f.sizes[f.i%len(f.sizes)]
	f.i++
	if n == 0 {
		return 0, nil
	}
	if n > len(p) {
		n = len(p)
	}
	if n > len(f.data)-f.pos {
		n = len(f.data) - f.pos
	}
	copy(p, f.data[f.pos:f.pos+n])
	f.pos += n
	if f.pos < len(f.data) {
		f.bounds = append(f.bounds, f.pos)
	}
	return n, nil
}

type outcome struct {
	vals    []reflect.Value
	err     error
	remains []byte
	panic   interface{}
	stack   string
}

// decodeAll decodes k values of type t (nil = interface{}) with dec and reads the remains.
func decodeAll(dec *hio.Decoder, t reflect.Type, k int, simple bool, s iox.Setting) (o outcome) {
	dec.Simple(simple)
	dec.LongType, dec.RealType, dec.MapType, dec.StructType, dec.ListType = s.Long, s.Real, s.Map, s.Struct, s.List
	o.panic, o.stack = h.Try(func() {
		for i := 0; i < k; i++ {
			p := reflect.New(t)
			dec.Decode(p.Interface())
			o.vals = append(o.vals, p.Elem())
			if dec.Error != nil {
				break
			}
		}
		o.err = dec.Error
		if o.err == nil {
			o.remains = dec.Remains()
		}
	})
	return
}

var tIface = reflect.TypeOf((*interface{})(nil)).Elem()

type stream struct {
	data   []byte
	t      reflect.Type
	k      int
	simple bool
	label  string
}

func classify(r *h.Run, data []byte, bounds []int) {
	for _, b := range bounds {
		if b <= 0 || b >= len(data) {
			continue
		}
		prev, next := data[b-1], data[b]
		switch {
		case next&0xc0 == 0x80:
			r.Stat("boundary_inside_multibyte_char", 1)
		case prev >= '0' && prev <= '9' && next >= '0' && next <= '9':
			r.Stat("boundary_inside_digits", 1)
		case next == '"':
			r.Stat("boundary_before_quote", 1)
		case prev == '"':
			r.Stat("boundary_after_quote", 1)
		case next == ';' || next == '{' || next == '}':
			r.Stat("boundary_before_delimiter", 1)
		default:
			r.Stat("boundary_other", 1)
		}
	}
}

func TestCheck(t *testing.T) {
	r := h.Start(t, "C05")
	defer r.Finish()
	r.Meta("rule", "streams = encodings (simple and reference mode) of the C01 universe values, sequences of 2..4 values followed by trailing bytes, and truncations of them; each stream is decoded from memory (reference) and from readers that fragment it: every two-way split position, every fixed chunk size 1..64 and 255/256/257, seeded random chunk sequences with interleaved zero-byte reads, iotest.OneByteReader/HalfReader/DataErrReader; buffer sizes 256/257/512/4096; fresh decoders and the pooled Formatter.UnmarshalFromReader; typed and interface{} destinations. Outcome compared: decoded values (eqv.Equal), error nil-ness, Remains(). distinct_nontrivial = distinct (stream, fragmentation pattern, buffer size) triples with at least one refill inside the stream Added: a third of the reader-mode decodes use a decoder that has read only part of an earlier stream and is pointed at the new reader with ResetReader.")
	r.Meta("assumptions", []string{
		"the in-memory decoder is the reference (differential oracle): no expected values are needed",
		"error outcome = both nil or both non-nil; error texts are not compared",
		"readers that return an error other than io.EOF are not used (their outcome legitimately differs)",
	})
	longStreams(r)
	light := r.Quick()
	sanitizer := os.Getenv("VERIF_LIGHT") == "1" // sanitizer passes run a sixth of the type universe
	uni := corpus.Universe(r.Seed, 4, r.Pick(600, 20000), r.Pick(5, 7))
	for _, ue := range uni {
		ue := ue
		if light && ue.Block == "depth2" && fnvMod(ue.Label, 4) != 0 {
			r.Skip(1)
			continue
		}
		if sanitizer && fnvMod(ue.Label, 6) != 0 {
			r.Skip(1)
			continue
		}
		r.Case(ue.Label, func(c *h.Case) {
			vals := corpus.Values(ue, c.Rand())
			rng := c.Rand()
			// pick up to 6 values (systematic first ones + random)
			var pick []reflect.Value
			for i := 0; i < len(vals) && len(pick) < 6; i++ {
				if i < 3 || rng.Intn(3) == 0 {
					pick = append(pick, vals[i])
				}
			}
			for j, v := range pick {
				j, v := j, v
				c.Sub(int64(j), func() { valueStreams(c, ue, j, v, pick) })
			}
		})
	}
}

// longStreams: containers and strings beyond the decoder's internal thresholds (buffer size
// 256, reader-mode preallocation 1024) so that the grow-as-elements-arrive paths run.
func longStreams(r *h.Run) {
	mk := func(n int) []int {
		x := make([]int, n)
		for i := range x {
			x[i] = i * 7
		}
		return x
	}
	ss := func(n int) []string {
		x := make([]string, n)
		for i := range x {
			x[i] = fmt.Sprintf("s%d-中", i%50)
		}
		return x
	}
	mp := func(n int) map[int]string {
		m := map[int]string{}
		for i := 0; i < n; i++ {
			m[i] = fmt.Sprint(i)
		}
		return m
	}
	nb := func(n int) gentypes.MyBytes {
		b := make(gentypes.MyBytes, n)
		for i := range b {
			b[i] = byte(i)
		}
		return b
	}
	vals := []interface{}{
		mk(1023), mk(1024), mk(1025), mk(1500), mk(2048), mk(2049), mk(5000),
		ss(1025), ss(3000), mp(1025), mp(2500), nb(1025), nb(3000),
		[]byte(strings.Repeat("0123456789", 500)), strings.Repeat("长", 3000), strings.Repeat("ab😀", 1000),
		[][]int{mk(1100), mk(3), mk(1030)}, []interface{}{mk(1500), "tail", ss(1200), "tail"},
		[]*gentypes.One{{A: 1}, nil}, func() []*gentypes.One {
			x := make([]*gentypes.One, 1300)
			x[7] = &gentypes.One{A: 7}
			x[1299] = x[7]
			return x
		}(),
	}
	for i, v := range vals {
		i, v := i, v
		r.Case(fmt.Sprintf("long/%d/%T", i, v), func(c *h.Case) {
			rng := c.Rand()
			for _, simple := range []bool{true, false} {
				data, err := safeEncode(v, simple)
				if err != nil {
					continue
				}
				for _, t := range []reflect.Type{reflect.TypeOf(v), tIface} {
					compareLong(c, stream{data, t, 1, simple, "long"}, rng)
				}
			}
		})
	}
}

func compareLong(c *h.Case, s stream, rng *rand.Rand) {
	// the usual comparison but with few, long-range fragmentations
	ref := decodeAll(hio.NewDecoder(append([]byte(nil), s.data...)), s.t, s.k, s.simple, iox.Setting{})
	if ref.panic != nil || ref.err != nil {
		c.Violation("long-reference-failed", fmt.Sprintf("in-memory decode of own output failed: %v %v", ref.panic, ref.err), nil)
		return
	}
	pats := [][]int{{1}, {3}, {7}, {255}, {256}, {257}, {1000}, {4096}, {1 << 20}, {5, 0, 300, 1}, {len(s.data) / 2, 1 << 20}, {1 + rng.Intn(700)}, {1 + rng.Intn(50), 1 + rng.Intn(3000)}}
	for _, sizes := range pats {
		for _, bs := range []int{256, 300, 4096} {
			fr := &fragReader{data: append([]byte(nil), s.data...), sizes: sizes}
			got := decodeAll(hio.NewDecoderFromReader(fr, bs), s.t, s.k, s.simple, iox.Setting{})
			c.R.Eval(1)
			rep := map[string]interface{}{"type": s.t.String(), "simple": s.simple, "sizes": sizes, "bufsize": bs, "stream_len": len(s.data), "stream_head": h.Hex(clipb(s.data, 200))}
			if got.panic != nil {
				c.Violation("stream-panic:"+h.PanicClass(fmt.Sprint(got.panic))+"@"+h.FirstRepoFrame(got.stack), fmt.Sprintf("reader-mode decode of a long stream panicked: %v\n%s", got.panic, h.TrimStack(got.stack)), rep)
				continue
			}
			if got.err != nil {
				c.Violation("error-outcome-differs:long", fmt.Sprintf("reader-mode decode of a %d-byte stream failed: %v (sizes %v, buffer %d)", len(s.data), got.err, sizes, bs), rep)
				continue
			}
			var why string
			pp, _ := h.Try(func() { why = eqv.Equal(ref.vals[0], got.vals[0]) })
			if pp != nil {
				why = fmt.Sprintf("comparison panicked: %v", pp)
			}
			if why != "" {
				c.Violation("value-differs:long:"+s.t.String(), fmt.Sprintf("long stream (%d bytes) decodes differently from a reader (sizes %v, buffer %d) at %s", len(s.data), sizes, bs, why), rep)
				continue
			}
			if !bytes.Equal(ref.remains, got.remains) {
				c.Violation("position-differs:long", fmt.Sprintf("Remains() differs after a long stream: %d vs %d bytes", len(ref.remains), len(got.remains)), rep)
			}
			c.R.Distinct(fmt.Sprintf("long|%x|%v|%d", fnv64(s.data), sizes, bs))
		}
	}
}

func fnvMod(s string, m int) int {
	hh := 0
	for i := 0; i < len(s); i++ {
		hh = hh*31 + int(s[i])
	}
	if hh < 0 {
		hh = -hh
	}
	return hh % m
}

func valueStreams(c *h.Case, ue corpus.Entry, j int, v reflect.Value, all []reflect.Value) {
	rng := c.Rand()
	for _, simple := range []bool{true, false} {
		data, err := safeEncode(corpus.Iface(v), simple)
		if err != nil {
			continue
		}
		// single value, typed and interface{} destinations
		compareAll(c, stream{data, ue.T, 1, simple, ue.Label}, rng)
		compareAll(c, stream{data, tIface, 1, simple, ue.Label + "->iface"}, rng)
		// sequence of k values + trailing bytes (position after the values must agree)
		if j == 0 {
			enc := new(hio.Encoder).Simple(simple)
			k := 0
			ok := true
			for _, x := range all {
				if p, _ := h.Try(func() {
					if enc.Encode(corpus.Iface(x)) != nil {
						ok = false
					}
				}); p != nil {
					ok = false
				}
				k++
				if k >= 4 {
					break
				}
			}
			if ok {
				seq := append(enc.Bytes(), []byte("TAIL\x00tail😀")...)
				compareAll(c, stream{seq, ue.T, k, simple, ue.Label + "/seq"}, rng)
			}
		}
		// truncations (error outcome must agree): a sample of cut points
		if len(data) > 1 {
			cuts := []int{1, len(data) - 1, len(data) / 2}
			for i := 0; i < 3; i++ {
				cuts = append(cuts, 1+rng.Intn(len(data)-1))
			}
			for _, cut := range cuts {
				compareFew(c, stream{data[:cut], ue.T, 1, simple, ue.Label + "/trunc"}, rng)
			}
		}
	}
}

func safeEncode(v interface{}, simple bool) (data []byte, err error) {
	p, _ := h.Try(func() { data, err = iox.Encode(v, simple, iox.EncEncode) })
	if p != nil {
		return nil, fmt.Errorf("panic: %v", p)
	}
	return
}

type pattern struct {
	name  string
	sizes []int
	mk    func(data []byte) io.Reader // alternative: a reader constructor
}

func patterns(n int, rng *rand.Rand, few bool) []pattern {
	var ps []pattern
	if few {
		ps = append(ps, pattern{name: "chunk1", sizes: []int{1}}, pattern{name: "chunk2", sizes: []int{2}}, pattern{name: "chunk3", sizes: []int{3}}, pattern{name: "chunk7", sizes: []int{7}})
		if n > 2 {
			p := 1 + rng.Intn(n-1)
			ps = append(ps, pattern{name: "split", sizes: []int{p, 1 << 20}})
		}
		return ps
	}
	for p := 1; p < n && p <= 600; p++ {
		ps = append(ps, pattern{name: "split", sizes: []int{p, 1 << 20}})
	}
	for s := 1; s <= 64 && s < n+1; s++ {
		ps = append(ps, pattern{name: fmt.Sprintf("chunk%d", s), sizes: []int{s}})
	}
	for _, s := range []int{255, 256, 257} {
		if n > s {
			ps = append(ps, pattern{name: fmt.Sprintf("chunk%d", s), sizes: []int{s}})
		}
	}
	for k := 0; k < 4; k++ {
		sz := make([]int, 3+rng.Intn(6))
		for i := range sz {
			sz[i] = rng.Intn(5) // zero-byte reads included
		}
		sz[rng.Intn(len(sz))] = 1 + rng.Intn(9)
		ps = append(ps, pattern{name: "random+zero", sizes: sz})
	}
	ps = append(ps,
		pattern{name: "iotest.OneByte", mk: func(d []byte) io.Reader { return iotest.OneByteReader(bytes.NewReader(d)) }},
		pattern{name: "iotest.Half", mk: func(d []byte) io.Reader { return iotest.HalfReader(bytes.NewReader(d)) }},
		pattern{name: "iotest.DataErr", mk: func(d []byte) io.Reader { return iotest.DataErrReader(bytes.NewReader(d)) }},
		pattern{name: "iotest.DataErr+OneByte", mk: func(d []byte) io.Reader { return iotest.DataErrReader(iotest.OneByteReader(bytes.NewReader(d))) }},
	)
	return ps
}

func compareAll(c *h.Case, s stream, rng *rand.Rand) { compare(c, s, rng, false) }
func compareFew(c *h.Case, s stream, rng *rand.Rand) { compare(c, s, rng, true) }

func compare(c *h.Case, s stream, rng *rand.Rand, few bool) {
	r := c.R
	set := iox.Setting{}
	if s.t == tIface && rng.Intn(2) == 0 {
		set = iox.RandSetting(rng)
	}
	ref := decodeAll(hio.NewDecoder(append([]byte(nil), s.data...)), s.t, s.k, s.simple, set)
	if ref.panic != nil {
		// the in-memory decoder itself panics: C04's business, no reference available
		r.Stat("reference_panicked_skipped", 1)
		return
	}
	bufSizes := []int{256}
	if !few {
		bufSizes = []int{256, 257, 512, 4096}
	}
	for pi, p := range patterns(len(s.data), rng, few) {
		for bi, bs := range bufSizes {
			if bi > 0 && !(p.name == "split" && pi%7 == 0) && !(len(p.sizes) == 1 && p.sizes[0] >= 255) && p.name != "random+zero" {
				continue // larger buffers only change behaviour for long reads
			}
			var rd io.Reader
			var fr *fragReader
			if p.mk != nil {
				rd = p.mk(append([]byte(nil), s.data...))
			} else {
				fr = &fragReader{data: append([]byte(nil), s.data...), sizes: p.sizes}
				rd = fr
			}
			var got outcome
			pooled := p.mk == nil && s.k == 1 && set.Struct == 0 && set.List == 0 && pi%5 == 0 && bs == 256
			if pooled {
				ptr := reflect.New(s.t)
				var err error
				got.panic, got.stack = h.Try(func() {
					err = hio.Formatter{Simple: s.simple, LongType: set.Long, RealType: set.Real, MapType: set.Map}.UnmarshalFromReader(rd, ptr.Interface())
				})
				got.err = err
				got.vals = []reflect.Value{ptr.Elem()}
			} else if reused := p.mk == nil && pi%3 == 1; reused {
				// a decoder that read only part of an earlier stream (more was buffered than
				// decoded) is pointed at this reader with ResetReader: nothing of the earlier
				// stream may be seen
				dec := hio.NewDecoderFromReader(bytes.NewReader([]byte(`i7;s4"left"a2{1;2}i9;`)), bs)
				var first int
				dec.Decode(&first)
				if dec.Error != nil || first != 7 {
					c.Violation("reused-decoder-prelude-failed", fmt.Sprintf("first=%d err=%v", first, dec.Error), nil)
				}
				dec.ResetReader(rd)
				got = decodeAll(dec, s.t, s.k, s.simple, set)
				r.Stat("decoders_reused_with_ResetReader", 1)
			} else {
				got = decodeAll(hio.NewDecoderFromReader(rd, bs), s.t, s.k, s.simple, set)
			}
			r.Eval(1)
			rep := map[string]interface{}{"type": s.t.String(), "label": s.label, "simple": s.simple, "k": s.k, "pattern": p.name, "sizes": p.sizes, "bufsize": bs, "pooled": pooled, "decoder_reused_after_partial_stream": !pooled && p.mk == nil && pi%3 == 1, "bytes": h.Hex(clipb(s.data, 900)), "setting": set.String()}
			sigT := s.t.String()
			if len(sigT) > 60 {
				sigT = sigT[:60]
			}
			if got.panic != nil {
				c.Violation("stream-panic:"+h.PanicClass(fmt.Sprint(got.panic))+"@"+h.FirstRepoFrame(got.stack), fmt.Sprintf("reader-mode decode panicked (in-memory decode did not): %v\npattern=%s sizes=%v buf=%d\nbytes=%s\n%s", got.panic, p.name, p.sizes, bs, h.Hex(clipb(s.data, 500)), h.TrimStack(got.stack)), rep)
				continue
			}
			if (ref.err == nil) != (got.err == nil) {
				c.Violation("error-outcome-differs:"+p.name, fmt.Sprintf("in-memory error=%v, reader-mode error=%v\npattern=%s sizes=%v buf=%d type=%s\nbytes=%s", ref.err, got.err, p.name, p.sizes, bs, s.t, h.Hex(clipb(s.data, 500))), rep)
				continue
			}
			if ref.err == nil {
				if len(ref.vals) != len(got.vals) {
					c.Violation("value-count-differs:"+p.name, fmt.Sprintf("%d vs %d values", len(ref.vals), len(got.vals)), rep)
					continue
				}
				bad := false
				for i := range ref.vals {
					var why string
					pp, _ := h.Try(func() { why = eqv.Equal(ref.vals[i], got.vals[i]) })
					if pp != nil {
						why = fmt.Sprintf("comparison panicked: %v", pp)
					}
					if why != "" {
						c.Violation("value-differs:"+p.name+":"+sigT, fmt.Sprintf("value %d differs between in-memory and reader-mode decode at %s\npattern=%s sizes=%v buf=%d\nmemory=%s\nreader=%s\nbytes=%s", i, why, p.name, p.sizes, bs, corpus.Clip(ref.vals[i], 300), corpus.Clip(got.vals[i], 300), h.Hex(clipb(s.data, 500))), rep)
						bad = true
						break
					}
				}
				if bad {
					continue
				}
				if !pooled && !bytes.Equal(ref.remains, got.remains) {
					c.Violation("position-differs:"+p.name, fmt.Sprintf("Remains() after %d values: in-memory %q, reader-mode %q\npattern=%s sizes=%v buf=%d\nbytes=%s", s.k, clipb(ref.remains, 80), clipb(got.remains, 80), p.name, p.sizes, bs, h.Hex(clipb(s.data, 500))), rep)
					continue
				}
			}
			if fr != nil && len(fr.bounds) > 0 {
				classify(r, s.data, fr.bounds)
				r.Distinct(fmt.Sprintf("%x|%s|%v|%d", fnv64(s.data), p.name, p.sizes, bs))
			} else if p.mk != nil && len(s.data) > 1 {
				r.Distinct(fmt.Sprintf("%x|%s|%d", fnv64(s.data), p.name, bs))
			}
			r.SetAdd("patterns", p.name)
		}
	}
	if c.Index%211 == 0 && !few {
		r.Sample(map[string]interface{}{"stream": h.Hex(clipb(s.data, 160)), "dest": s.t.String(), "values": s.k, "simple": s.simple, "reference_error": fmt.Sprint(ref.err)})
	}
}

func fnv64(b []byte) uint64 {
	var x uint64 = 14695981039346656037
	for _, c := range b {
		x ^= uint64(c)
		x *= 1099511628211
	}
	return x
}

func clipb(b []byte, n int) []byte {
	if len(b) > n {
		return b[:n]
	}
	return b
}
