// C18 — load balancers always pick a valid server and honour their policy.
package c18

import (
	"context"
	"errors"
	"fmt"
	"math"
	"net/url"
	"sort"
	"strings"
	"sync"
	"sync/atomic"
	"testing"

	hio "github.com/hprose/hprose-golang/v3/io"
	"github.com/hprose/hprose-golang/v3/rpc/core"
	lbp "github.com/hprose/hprose-golang/v3/rpc/plugins/loadbalance"
	"verif/internal/h"
)

var okResp = func() []byte { b, _ := hio.Marshal("ok"); return append(append([]byte("R"), b...), 'z') }()

// term is the terminal IO handler: records the chosen URL; outcome per call from the script;
// a call may be parked on a channel.
type term struct {
	mu      sync.Mutex
	picks   []string
	outcome func(n int, u string) byte // 'S','E','P','H' (hold)
	holds   map[string][]chan byte     // parked calls per URL
	parked  chan string
	n       int
}

func newTerm(outcome func(n int, u string) byte) *term {
	return &term{outcome: outcome, holds: map[string][]chan byte{}, parked: make(chan string, 1024)}
}

func (t *term) handler(ctx context.Context, request []byte, next core.NextIOHandler) ([]byte, error) {
	u := ""
	if x := core.GetClientContext(ctx).URL; x != nil {
		u = x.String()
	}
	t.mu.Lock()
	n := t.n
	t.n++
	t.picks = append(t.picks, u)
	o := t.outcome(n, u)
	var ch chan byte
	if o == 'H' {
		ch = make(chan byte, 1)
		t.holds[u] = append(t.holds[u], ch)
	}
	t.mu.Unlock()
	if ch != nil {
		t.parked <- u
		o = <-ch
	}
	switch o {
	case 'E':
		return nil, errors.New("server error")
	case 'P':
		panic("server panic")
	}
	return okResp, nil
}

func urlsN(n int) []string {
	out := make([]string, n)
	for i := range out {
		out[i] = fmt.Sprintf("mock://s%d", i)
	}
	return out
}

func invoke(client *core.Client) (err error, panicked interface{}) {
	panicked, _ = h.Try(func() { _, err = client.Invoke("f", nil) })
	return
}

func TestCheck(t *testing.T) {
	r := h.Start(t, "C18")
	defer r.Finish()
	r.Meta("rule", "the seven real balancers are installed on a real core.Client in front of a terminal handler that records the chosen URL and scripts outcomes (success/error/panic/hold). Exhaustive: all weight vectors n in 1..4, weights in 1..5 (780 vectors) x 3 full cycles for weighted round-robin (count per cycle = weight/gcd) and nginx smooth weighted round-robin (count per cycle = weight); round-robin n in 1..8 (every window of n consecutive picks is a permutation); membership of every pick; least-active and weighted least-active with a held-call harness: seeded park/release walks, each probe pick must be in the argmin of the harness's own in-flight vector, accessor VerifActives() must equal that vector at every step and be all zero at quiescence also after errors and panics; failure-aware balancers: VerifEffectiveWeights() compared after every call with the recurrence from the statement (failure -1 floor 0, success +1 cap weight) over all outcome histories of length <= 6 (n<=2 exhaustive, sampled above), share of the next full cycle after recovery equals the weights exactly (nginx), 6-sigma share test for weighted random; 16 concurrent callers with mixed outcomes under the race detector: membership, counters back to zero, weights within [0, weight]. distinct_nontrivial = distinct (balancer, weight vector or walk, outcome history) combinations Added: one always-failing server at every position of the balancer's own order (effective weight 0 => not picked while another is healthy); the server list shortened while calls are parked on least-active; the server list replaced by a shorter or longer one (1..6 servers, same or new servers) after every number of calls 0..2n for round-robin, random and least-active: no panic, picks in the current list, round-robin windows cover the new list.")
	r.Meta("assumptions", []string{
		"least-active is checked with sequential probes against parked calls (under true concurrency two picks may legitimately read the same minimum)",
		"weighted random: 6-sigma binomial bound over 100000 picks (false-alarm probability < 1e-8 per server)",
		"hooks: VerifActives / VerifEffectiveWeights (build tag verif) read the balancers' state under their own locks",
	})
	for n := 1; n <= 8; n++ {
		n := n
		r.Case(fmt.Sprintf("round-robin/n%d", n), func(c *h.Case) { roundRobin(c, n) })
	}
	vecs := weightVectors()
	for i, w := range vecs {
		i, w := i, w
		r.Case(fmt.Sprintf("weighted/%v", w), func(c *h.Case) {
			weightedCycles(c, w)
			if i%13 == 0 || len(w) <= 2 {
				failureAware(c, w)
			}
		})
	}
	for n := 1; n <= 5; n++ {
		for k := 0; k < r.Pick(12, 200); k++ {
			n, k := n, k
			r.Case(fmt.Sprintf("least-active/n%d/%d", n, k), func(c *h.Case) { leastActive(c, n, k) })
		}
	}
	for i, w := range vecs {
		if len(w) < 2 || i%7 != 0 && len(w) > 2 {
			continue
		}
		w := w
		r.Case(fmt.Sprintf("failing-server-share/%v", w), func(c *h.Case) { failingShare(c, w) })
	}
	for n := 2; n <= 4; n++ {
		n := n
		r.Case(fmt.Sprintf("least-active/shrink-while-busy/n%d", n), func(c *h.Case) { shrinkWhileBusy(c, n) })
	}
	for _, kind := range []string{"round-robin", "random", "least-active"} {
		for n := 1; n <= 6; n++ {
			kind, n := kind, n
			r.Case(fmt.Sprintf("resize/%s/n%d", kind, n), func(c *h.Case) { resizeList(c, kind, n) })
		}
	}
	r.Case("random/membership-and-share", func(c *h.Case) { randomShare(c) })
	for k := 0; k < r.Pick(6, 60); k++ {
		k := k
		r.Case(fmt.Sprintf("concurrent/%d", k), func(c *h.Case) { concurrent(c, k) })
	}
}

func weightVectors() [][]int {
	var out [][]int
	var rec func(n int, cur []int)
	rec = func(n int, cur []int) {
		if len(cur) == n {
			out = append(out, append([]int(nil), cur...))
			return
		}
		for w := 1; w <= 5; w++ {
			rec(n, append(cur, w))
		}
	}
	for n := 1; n <= 4; n++ {
		rec(n, nil)
	}
	return out
}

func roundRobin(c *h.Case, n int) {
	urls := urlsN(n)
	client := core.NewClient(urls...)
	tm := newTerm(func(int, string) byte { return 'S' })
	client.Use(lbp.NewRoundRobinLoadBalance(), tm.handler)
	total := 5*n + 3
	for i := 0; i < total; i++ {
		invoke(client)
	}
	c.R.Eval(int64(total))
	rep := map[string]interface{}{"n": n, "picks": tm.picks}
	for i := 0; i+n <= len(tm.picks); i++ {
		seen := map[string]bool{}
		for _, u := range tm.picks[i : i+n] {
			if !member(u, urls) {
				c.Violation("pick-not-a-configured-server:round-robin", u, rep)
			}
			seen[u] = true
		}
		if len(seen) != n {
			c.Violation("round-robin-window-misses-a-server", fmt.Sprintf("picks %d..%d = %v do not cover all %d servers", i, i+n-1, tm.picks[i:i+n], n), rep)
			break
		}
	}
	c.R.Distinct(fmt.Sprintf("rr|%d", n))
}

func member(u string, urls []string) bool {
	for _, x := range urls {
		if x == u {
			return true
		}
	}
	return false
}

func weightMap(w []int) map[string]int {
	m := map[string]int{}
	for i, x := range w {
		m[fmt.Sprintf("mock://s%d", i)] = x
	}
	return m
}

func gcdAll(w []int) int {
	g := 0
	for _, x := range w {
		a, b := g, x
		for b != 0 {
			a, b = b, a%b
		}
		g = a
	}
	return g
}

func weightedCycles(c *h.Case, w []int) {
	n := len(w)
	sum := 0
	for _, x := range w {
		sum += x
	}
	g := gcdAll(w)
	// weighted round-robin: cycle = sum/gcd picks, share = w/gcd
	{
		lb := lbp.NewWeightedRoundRobinLoadBalance(weightMap(w))
		client := core.NewClient(urlsN(n)...)
		tm := newTerm(func(int, string) byte { return 'S' })
		client.Use(lb, tm.handler)
		cycle := sum / g
		for i := 0; i < 3*cycle; i++ {
			invoke(client)
		}
		c.R.Eval(int64(3 * cycle))
		checkCycles(c, "weighted-round-robin", tm.picks, cycle, w, g)
	}
	// nginx smooth weighted round-robin: cycle = sum picks, share = w
	{
		lb := lbp.NewNginxRoundRobinLoadBalance(weightMap(w))
		client := core.NewClient(urlsN(n)...)
		tm := newTerm(func(int, string) byte { return 'S' })
		client.Use(lb, tm.handler)
		for i := 0; i < 3*sum; i++ {
			invoke(client)
		}
		c.R.Eval(int64(3 * sum))
		checkCycles(c, "nginx-round-robin", tm.picks, sum, w, 1)
	}
	c.R.Distinct(fmt.Sprintf("w|%v", w))
	if len(w) == 3 && w[0] == 5 && w[1] == 1 && w[2] == 1 {
		c.R.Sample(map[string]interface{}{"weights": w, "note": "3 full cycles each of weighted and nginx round-robin counted exactly"})
	}
}

func checkCycles(c *h.Case, name string, picks []string, cycle int, w []int, div int) {
	n := len(w)
	urls := urlsN(n)
	rep := map[string]interface{}{"balancer": name, "weights": w, "picks": picks}
	for cy := 0; (cy+1)*cycle <= len(picks); cy++ {
		cnt := map[string]int{}
		for _, u := range picks[cy*cycle : (cy+1)*cycle] {
			if !member(u, urls) {
				c.Violation("pick-not-a-configured-server:"+name, u, rep)
			}
			cnt[u]++
		}
		for i := 0; i < n; i++ {
			if cnt[urls[i]] != w[i]/div {
				c.Violation("share-not-proportional-to-weight:"+name, fmt.Sprintf("weights %v, cycle %d of %d picks: server %d served %d, expected %d (counts %v)", w, cy, cycle, i, cnt[urls[i]], w[i]/div, cnt), rep)
				return
			}
		}
	}
}

// effective-weight recurrence from the statement.
func modelWeights(eff []int64, w []int, idx int, ok bool) {
	if ok {
		if eff[idx] < int64(w[idx]) {
			eff[idx]++
		}
	} else if eff[idx] > 0 {
		eff[idx]--
	}
}

type weighted interface {
	VerifEffectiveWeights() []int64
}

func indexOf(urls []*url.URL, u string) int {
	for i, x := range urls {
		if x.String() == u {
			return i
		}
	}
	return -1
}

func failureAware(c *h.Case, w []int) {
	n := len(w)
	hist := allHist(6)
	if n > 2 {
		rng := c.Rand()
		var s []string
		for i := 0; i < 60; i++ {
			s = append(s, hist[rng.Intn(len(hist))])
		}
		hist = s
	}
	for bi, mk := range []func() (interface{}, weighted, []*url.URL, []int64){
		func() (interface{}, weighted, []*url.URL, []int64) {
			lb := lbp.NewNginxRoundRobinLoadBalance(weightMap(w))
			return lb, lb, lb.URLs, lb.Weights
		},
		func() (interface{}, weighted, []*url.URL, []int64) {
			lb := lbp.NewWeightedRandomLoadBalance(weightMap(w))
			return lb, lb, lb.URLs, lb.Weights
		},
		func() (interface{}, weighted, []*url.URL, []int64) {
			lb := lbp.NewWeightedLeastActiveLoadBalance(weightMap(w))
			return lb, lb, lb.URLs, lb.Weights
		},
	} {
		name := []string{"nginx-round-robin", "weighted-random", "weighted-least-active"}[bi]
		for _, hs := range hist {
			plug, acc, lbURLs, lbW := mk()
			// weights in the balancer's own URL order
			ww := make([]int, n)
			for i := range lbW {
				ww[i] = int(lbW[i])
			}
			eff := make([]int64, n)
			for i := range eff {
				eff[i] = int64(ww[i])
			}
			k := 0
			tm := newTerm(func(int, string) byte { o := hs[k%len(hs)]; return o })
			client := core.NewClient(urlsN(n)...)
			client.Use(plug, tm.handler)
			rep := map[string]interface{}{"balancer": name, "weights": ww, "outcomes": hs}
			bad := false
			for k = 0; k < len(hs) && !bad; k++ {
				err, pan := invoke(client)
				c.R.Eval(1)
				if pan != nil {
					c.Violation("panic-escaped-to-caller:"+name, fmt.Sprint(pan), rep)
					bad = true
					break
				}
				u := tm.picks[len(tm.picks)-1]
				idx := indexOf(lbURLs, u)
				if idx < 0 {
					c.Violation("pick-not-a-configured-server:"+name, u, rep)
					bad = true
					break
				}
				modelWeights(eff, ww, idx, hs[k] == 'S')
				if (hs[k] == 'S') != (err == nil) {
					c.Violation("outcome-not-propagated:"+name, fmt.Sprintf("outcome %c err=%v", hs[k], err), rep)
				}
				got := acc.VerifEffectiveWeights()
				if !eqInt64(got, eff) {
					c.Violation("effective-weights-wrong:"+name, fmt.Sprintf("after outcomes %s (last on server %d): effective weights %v, expected %v (configured %v): a failing server's share must drop by one per failure and be restored by one per success", hs[:k+1], idx, got, eff, ww), rep)
					bad = true
				}
			}
			if bad {
				continue
			}
			// recovery: successes until every weight is restored, then the share must be exact again
			k = 0
			tm.outcome = func(int, string) byte { return 'S' }
			sum := 0
			for _, x := range ww {
				sum += x
			}
			restored := false
			for i := 0; i < 40*sum+40; i++ {
				invoke(client)
				if eqInt64(acc.VerifEffectiveWeights(), lbW) {
					restored = true
					break
				}
			}
			if !restored {
				allPositive := true
				for _, x := range acc.VerifEffectiveWeights() {
					if x == 0 {
						allPositive = false // a server with weight 0 is never picked and cannot succeed
					}
				}
				if allPositive {
					c.Violation("share-not-restored:"+name, fmt.Sprintf("after %d successful calls effective weights are %v, configured %v", 40*sum+40, acc.VerifEffectiveWeights(), ww), rep)
				}
			}
			c.R.Distinct(fmt.Sprintf("fa|%s|%v|%s", name, ww, hs))
		}
	}
}

func allHist(max int) []string {
	var out []string
	var rec func(s string)
	rec = func(s string) {
		if len(s) > 0 {
			out = append(out, s)
		}
		if len(s) == max {
			return
		}
		for _, o := range "SEP" {
			rec(s + string(o))
		}
	}
	rec("")
	return out
}

func eqInt64(a, b []int64) bool {
	if len(a) != len(b) {
		return false
	}
	for i := range a {
		if a[i] != b[i] {
			return false
		}
	}
	return true
}

type activesAcc interface {
	VerifActives() []int64
}

func leastActive(c *h.Case, n, k int) {
	rng := c.Rand()
	weightedVariant := k%2 == 1
	var plug interface{}
	var acc activesAcc
	urls := urlsN(n)
	order := urls // index order of the accessor
	if weightedVariant {
		w := make([]int, n)
		for i := range w {
			w[i] = 1 + rng.Intn(5)
		}
		lb := lbp.NewWeightedLeastActiveLoadBalance(weightMap(w))
		plug, acc = lb, lb
		order = nil
		for _, u := range lb.URLs {
			order = append(order, u.String())
		}
	} else {
		lb := lbp.NewLeastActiveLoadBalance()
		plug, acc = lb, lb
	}
	name := "least-active"
	if weightedVariant {
		name = "weighted-least-active"
	}
	next := byte('H')
	tm := newTerm(func(int, string) byte { return next })
	client := core.NewClient(urls...)
	client.Use(plug, tm.handler)
	inflight := map[string]int{}
	var wg sync.WaitGroup
	rep := map[string]interface{}{"balancer": name, "n": n}
	var trace []string
	steps := 30 + rng.Intn(40)
	for s := 0; s < steps; s++ {
		total := 0
		for _, v := range inflight {
			total += v
		}
		if total > 0 && rng.Intn(3) == 0 {
			// release a parked call with a random outcome
			var cands []string
			for u, v := range inflight {
				if v > 0 {
					cands = append(cands, u)
				}
			}
			sort.Strings(cands)
			u := cands[rng.Intn(len(cands))]
			tm.mu.Lock()
			ch := tm.holds[u][0]
			tm.holds[u] = tm.holds[u][1:]
			tm.mu.Unlock()
			o := "SSEP"[rng.Intn(4)]
			ch <- o
			inflight[u]--
			trace = append(trace, fmt.Sprintf("release %s as %c", u, o))
			// wait until the call has left the balancer: its counter must have dropped
			waitActives(acc, order, inflight)
			continue
		}
		// probe: a new held call; it must go to a server with the fewest in flight
		min := math.MaxInt32
		for _, u := range urls {
			if inflight[u] < min {
				min = inflight[u]
			}
		}
		wg.Add(1)
		go func() {
			defer wg.Done()
			invoke(client)
		}()
		u := <-tm.parked
		c.R.Eval(1)
		trace = append(trace, fmt.Sprintf("pick %s with in-flight %v", u, vec(inflight, urls)))
		rep["trace"] = trace
		if !member(u, urls) {
			c.Violation("pick-not-a-configured-server:"+name, u, rep)
			break
		}
		if inflight[u] != min {
			c.Violation("picked-a-busier-server:"+name, fmt.Sprintf("in-flight %v: picked %s which has %d, the minimum is %d", vec(inflight, urls), u, inflight[u], min), rep)
		}
		inflight[u]++
		if got := acc.VerifActives(); !sameActives(got, order, inflight) {
			c.Violation("in-flight-counters-wrong:"+name, fmt.Sprintf("the balancer counts %v for %v, the harness holds %v", got, order, vec(inflight, order)), rep)
		}
	}
	// release everything with mixed outcomes; counters must return to zero
	tm.mu.Lock()
	i := 0
	for _, chs := range tm.holds {
		for _, ch := range chs {
			ch <- "SEP"[i%3]
			i++
		}
	}
	tm.holds = map[string][]chan byte{}
	tm.mu.Unlock()
	wg.Wait()
	if got := acc.VerifActives(); !allZero(got) {
		c.Violation("in-flight-counters-not-zero-at-quiescence:"+name, fmt.Sprintf("all calls have finished (successes, errors and panics) but the balancer counts %v", got), rep)
	}
	// sequential calls with error and panic outcomes, then zero again
	for _, o := range []byte("EPSPE") {
		next = o
		invoke(client)
	}
	if got := acc.VerifActives(); !allZero(got) {
		c.Violation("in-flight-counters-not-zero-at-quiescence:"+name, fmt.Sprintf("after sequential error/panic calls the balancer counts %v", got), rep)
	}
	c.R.Distinct(fmt.Sprintf("la|%s|%d|%d", name, n, k))
	if k == 0 && n == 3 {
		c.R.Sample(map[string]interface{}{"balancer": name, "trace_head": trace[:minInt(8, len(trace))]})
	}
}

func minInt(a, b int) int {
	if a < b {
		return a
	}
	return b
}

func waitActives(acc activesAcc, order []string, inflight map[string]int) {
	for i := 0; i < 2000000; i++ {
		if sameActives(acc.VerifActives(), order, inflight) {
			return
		}
		if i > 1000 {
			// yield
			var wg sync.WaitGroup
			wg.Add(1)
			go func() { wg.Done() }()
			wg.Wait()
		}
	}
}

func sameActives(got []int64, order []string, inflight map[string]int) bool {
	for i, u := range order {
		v := int64(0)
		if i < len(got) {
			v = got[i]
		}
		if v != int64(inflight[u]) {
			return false
		}
	}
	return true
}

func allZero(x []int64) bool {
	for _, v := range x {
		if v != 0 {
			return false
		}
	}
	return true
}

func vec(m map[string]int, urls []string) []int {
	out := make([]int, len(urls))
	for i, u := range urls {
		out[i] = m[u]
	}
	return out
}

func randomShare(c *h.Case) {
	// plain random: membership and every server reached
	for n := 1; n <= 5; n++ {
		urls := urlsN(n)
		client := core.NewClient(urls...)
		tm := newTerm(func(int, string) byte { return 'S' })
		client.Use(lbp.NewRandomLoadBalance(), tm.handler)
		for i := 0; i < 400; i++ {
			invoke(client)
		}
		c.R.Eval(400)
		seen := map[string]bool{}
		for _, u := range tm.picks {
			if !member(u, urls) {
				c.Violation("pick-not-a-configured-server:random", u, nil)
			}
			seen[u] = true
		}
		if len(seen) != n {
			c.Violation("random-never-picks-a-server", fmt.Sprintf("%d of %d servers reached in 400 picks", len(seen), n), nil)
		}
	}
	// weighted random: 6-sigma share
	for _, w := range [][]int{{1, 1}, {5, 1}, {1, 2, 3}, {4, 4, 1, 1}, {5, 5, 5, 5}} {
		lb := lbp.NewWeightedRandomLoadBalance(weightMap(w))
		client := core.NewClient(urlsN(len(w))...)
		tm := newTerm(func(int, string) byte { return 'S' })
		client.Use(lb, tm.handler)
		N := 100000
		for i := 0; i < N; i++ {
			invoke(client)
		}
		c.R.Eval(int64(N))
		cnt := map[string]int{}
		for _, u := range tm.picks {
			cnt[u]++
		}
		sum := 0
		for _, x := range w {
			sum += x
		}
		for i, u := range lb.URLs {
			p := float64(lb.Weights[i]) / float64(sum)
			mean := p * float64(N)
			sd := math.Sqrt(float64(N) * p * (1 - p))
			if d := math.Abs(float64(cnt[u.String()]) - mean); d > 6*sd+1 {
				c.Violation("weighted-random-share-off", fmt.Sprintf("weights %v: server with weight %d served %d of %d, expected %.0f +- %.0f (6 sigma)", lb.Weights, lb.Weights[i], cnt[u.String()], N, mean, 6*sd), nil)
			}
		}
		c.R.Distinct(fmt.Sprintf("wr|%v", w))
	}
}

func concurrent(c *h.Case, k int) {
	rng := c.Rand()
	n := 2 + k%4
	w := make([]int, n)
	for i := range w {
		w[i] = 1 + rng.Intn(5)
	}
	urls := urlsN(n)
	type named struct {
		name string
		plug interface{}
		act  activesAcc
		wt   weighted
		wmax []int64
	}
	la := lbp.NewLeastActiveLoadBalance()
	wla := lbp.NewWeightedLeastActiveLoadBalance(weightMap(w))
	ng := lbp.NewNginxRoundRobinLoadBalance(weightMap(w))
	wr := lbp.NewWeightedRandomLoadBalance(weightMap(w))
	all := []named{
		{"round-robin", lbp.NewRoundRobinLoadBalance(), nil, nil, nil},
		{"random", lbp.NewRandomLoadBalance(), nil, nil, nil},
		{"weighted-round-robin", lbp.NewWeightedRoundRobinLoadBalance(weightMap(w)), nil, nil, nil},
		{"least-active", la, la, nil, nil},
		{"weighted-least-active", wla, wla, wla, wla.Weights},
		{"nginx-round-robin", ng, nil, ng, ng.Weights},
		{"weighted-random", wr, nil, wr, wr.Weights},
	}
	for _, b := range all {
		var bad int64
		var badURL atomic.Value
		tm := func(ctx context.Context, request []byte, next core.NextIOHandler) ([]byte, error) {
			u := core.GetClientContext(ctx).URL
			if u == nil || !member(u.String(), urls) {
				atomic.AddInt64(&bad, 1)
				badURL.Store(fmt.Sprint(u))
			}
			switch len(request) % 5 {
			case 0:
				return nil, errors.New("server error")
			case 1:
				panic("server panic")
			}
			return okResp, nil
		}
		client := core.NewClient(urls...)
		client.Use(b.plug, core.IOHandler(tm))
		var wg sync.WaitGroup
		G, per := 16, 300
		for g := 0; g < G; g++ {
			g := g
			wg.Add(1)
			go func() {
				defer wg.Done()
				for i := 0; i < per; i++ {
					// the request length (outcome selector) varies with the method name
					name := strings.Repeat("f", 1+(g+i)%7)
					h.Try(func() { client.Invoke(name, nil) })
				}
			}()
		}
		wg.Wait()
		c.R.Eval(int64(G * per))
		rep := map[string]interface{}{"balancer": b.name, "weights": w}
		if bad > 0 {
			c.Violation("pick-not-a-configured-server:concurrent:"+b.name, fmt.Sprintf("%d calls went to an unconfigured URL, e.g. %v", bad, badURL.Load()), rep)
		}
		if b.act != nil {
			if got := b.act.VerifActives(); !allZero(got) {
				c.Violation("in-flight-counters-not-zero-at-quiescence:concurrent:"+b.name, fmt.Sprintf("after %d concurrent calls (success, error, panic) the balancer counts %v", G*per, got), rep)
			}
		}
		if b.wt != nil {
			got := b.wt.VerifEffectiveWeights()
			for i := range got {
				if got[i] < 0 || got[i] > b.wmax[i] {
					c.Violation("effective-weight-out-of-range:concurrent:"+b.name, fmt.Sprintf("effective weights %v, configured %v", got, b.wmax), rep)
				}
			}
		}
		c.R.Distinct(fmt.Sprintf("cc|%s|%d", b.name, k))
	}
}

// failingShare: one server fails every call, whichever position it has in the balancer's own
// order. Its effective weight goes to zero; from then on, while another server still has a
// positive weight, it must not be picked at all (its share is reduced to nothing).
func failingShare(c *h.Case, w []int) {
	n := len(w)
	for bi, mk := range []func() (interface{}, weighted, []*url.URL, []int64){
		func() (interface{}, weighted, []*url.URL, []int64) {
			lb := lbp.NewNginxRoundRobinLoadBalance(weightMap(w))
			return lb, lb, lb.URLs, lb.Weights
		},
		func() (interface{}, weighted, []*url.URL, []int64) {
			lb := lbp.NewWeightedRandomLoadBalance(weightMap(w))
			return lb, lb, lb.URLs, lb.Weights
		},
	} {
		name := []string{"nginx-round-robin", "weighted-random"}[bi]
		for p := 0; p < n; p++ {
			plug, acc, lbURLs, lbW := mk()
			failing := lbURLs[p].String()
			tm := newTerm(func(_ int, u string) byte {
				if u == failing {
					return 'E'
				}
				return 'S'
			})
			client := core.NewClient(urlsN(n)...)
			client.Use(plug, tm.handler)
			rep := map[string]interface{}{"balancer": name, "weights_in_balancer_order": fmt.Sprint(lbW), "failing_position": p}
			zero := false
			for i := 0; i < 400*n && !zero; i++ {
				invoke(client)
				c.R.Eval(1)
				zero = acc.VerifEffectiveWeights()[p] == 0
			}
			if !zero {
				c.Violation("failing-server-keeps-its-weight:"+name, fmt.Sprintf("server at position %d fails every call; after %d calls its effective weight is %d", p, 400*n, acc.VerifEffectiveWeights()[p]), rep)
				continue
			}
			before := len(tm.picks)
			for i := 0; i < 300; i++ {
				invoke(client)
				c.R.Eval(1)
			}
			picked := 0
			for _, u := range tm.picks[before:] {
				if u == failing {
					picked++
				}
			}
			if picked > 0 {
				c.Violation("failing-server-keeps-its-share:"+name, fmt.Sprintf("the server at position %d of %d (weight %d) has effective weight 0, the others are healthy, and it was still picked %d times in the next 300 calls", p, n, lbW[p], picked), rep)
			}
			c.R.Distinct(fmt.Sprintf("failing-share|%s|%v|%d", name, w, p))
		}
	}
}

// resizeList: the client's server list is replaced by one of another length (1..6, shorter and
// longer, a prefix of the old list or entirely new servers) after every number of calls 0..2n of
// the balancers that read the list per call. No call panics or fails, every pick is in the
// current list, and round-robin covers every server of the new list in each window of its
// length once it has gone round once.
func resizeList(c *h.Case, kind string, n int) {
	for m := 1; m <= 6; m++ {
		if m == n {
			continue
		}
		for pos := 0; pos <= 2*n; pos++ {
			for _, fresh := range []bool{false, true} {
				urls := urlsN(n)
				client := core.NewClient(urls...)
				tm := newTerm(func(int, string) byte { return 'S' })
				var lb core.PluginHandler
				switch kind {
				case "round-robin":
					lb = lbp.NewRoundRobinLoadBalance()
				case "random":
					lb = lbp.NewRandomLoadBalance()
				default:
					lb = lbp.NewLeastActiveLoadBalance()
				}
				client.Use(lb, tm.handler)
				for i := 0; i < pos; i++ {
					invoke(client)
				}
				now := urlsN(6)[:m]
				if fresh {
					now = nil
					for i := 0; i < m; i++ {
						now = append(now, fmt.Sprintf("mock://other%d", i))
					}
				}
				client.SetURI(now...)
				rep := map[string]interface{}{"balancer": kind, "servers_before": n, "servers_after": m, "calls_before_the_change": pos, "new_servers": fresh}
				bad := false
				for i := 0; i < 3*m && !bad; i++ {
					before := len(tm.picks)
					err, p := invoke(client)
					c.R.Eval(1)
					switch {
					case p != nil:
						c.Violation("panic-after-the-server-list-changed:"+kind, fmt.Sprintf("call %d after the list went from %d to %d servers (after %d calls) panicked: %v", i, n, m, pos, p), rep)
						bad = true
					case err != nil:
						c.Violation("error-after-the-server-list-changed:"+kind, fmt.Sprintf("call %d: %v", i, err), rep)
						bad = true
					case len(tm.picks) != before+1 || !member(tm.picks[before], now):
						c.Violation("pick-not-a-configured-server:"+kind+"-after-resize", fmt.Sprint(tm.picks[before:]), rep)
						bad = true
					}
				}
				if kind == "round-robin" && !bad {
					after := tm.picks[pos:]
					rep["picks_after"] = after
					for i := m; i+m <= len(after); i++ {
						seen := map[string]bool{}
						for _, u := range after[i : i+m] {
							seen[u] = true
						}
						if len(seen) != m {
							c.Violation("round-robin-window-misses-a-server:after-resize", fmt.Sprintf("%d -> %d servers after %d calls: picks %v do not cover the new list", n, m, pos, after[i:i+m]), rep)
							break
						}
					}
				}
				c.R.Distinct(fmt.Sprintf("resize|%s|%d|%d|%d|%v", kind, n, m, pos, fresh))
			}
		}
	}
}

// shrinkWhileBusy: calls are parked on some servers, then the client's server list is shortened
// (and later extended again) while they are in flight. Picks stay among the current servers, a
// pick goes to a server with the fewest calls in flight among those, and the counters of the
// servers that remain are not forgotten.
func shrinkWhileBusy(c *h.Case, n int) {
	urls := urlsN(n)
	lb := lbp.NewLeastActiveLoadBalance()
	hold := true
	tm := newTerm(func(int, string) byte {
		if hold {
			return 'H'
		}
		return 'S'
	})
	client := core.NewClient(urls...)
	client.Use(lb, tm.handler)
	// park one call on every server but the last: least-active spreads them
	var wg sync.WaitGroup
	for i := 0; i < n-1; i++ {
		wg.Add(1)
		go func() { defer wg.Done(); invoke(client) }()
		<-tm.parked
	}
	busy := map[string]int{}
	tm.mu.Lock()
	for u, chs := range tm.holds {
		busy[u] = len(chs)
	}
	tm.mu.Unlock()
	// shorten the list to the first two servers (n >= 2)
	keep := 2
	client.SetURI(urls[:keep]...)
	hold = false
	rep := map[string]interface{}{"servers": n, "kept": keep, "in_flight_before": fmt.Sprint(busy)}
	for i := 0; i < 6; i++ {
		before := len(tm.picks)
		invoke(client)
		c.R.Eval(1)
		u := tm.picks[before]
		if !member(u, urls[:keep]) {
			c.Violation("pick-not-a-configured-server:least-active-after-shrink", u, rep)
			break
		}
		// the fewest in flight among the kept servers
		min := 1 << 30
		for _, k := range urls[:keep] {
			if busy[k] < min {
				min = busy[k]
			}
		}
		if busy[u] != min {
			c.Violation("busy-server-picked-while-an-idle-one-exists:least-active-after-shrink", fmt.Sprintf("after the server list was shortened while calls were in flight, pick %d went to %s (%d in flight) although a kept server has %d", i, u, busy[u], min), rep)
			break
		}
	}
	// release the parked calls
	tm.mu.Lock()
	for _, chs := range tm.holds {
		for _, ch := range chs {
			ch <- 'S'
		}
	}
	tm.holds = map[string][]chan byte{}
	tm.mu.Unlock()
	wg.Wait()
	if got := lb.VerifActives(); !allZero(got) {
		c.Violation("actives-not-zero-at-quiescence:least-active-after-shrink", fmt.Sprintf("all calls have finished, in-flight counters are %v", got), rep)
	}
	c.R.Distinct(fmt.Sprintf("shrink|%d", n))
}
