# sourced by bin/setup and bin/check
export GOFLAGS=-mod=mod GOPROXY=off GOSUMDB=off GOTOOLCHAIN=local
export VERIF_DIR="$(cd "$(dirname "${BASH_SOURCE[0]}")/.." && pwd)"
