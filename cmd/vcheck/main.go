// vcheck is the parent driver: it builds a check's harness from /repo's current working tree
// (build tag verif), runs it as sharded child processes, attributes child deaths to cases,
// parses race-detector logs, matches violations against known_findings.txt, writes
// evidence/<id>.json and replays/<id>/*.json and prints the verdict lines.
//
// usage: vcheck <Cnn> quick|thorough
//
//	vcheck replay <replay-file>
//
// exit: 0 held (or only known findings), 1 violation, 2 inconclusive.
package main

import (
	"bufio"
	"crypto/sha1"
	"encoding/hex"
	"encoding/json"
	"fmt"
	"os"
	"os/exec"
	"path/filepath"
	"regexp"
	"sort"
	"strconv"
	"strings"
	"sync"
	"syscall"
	"time"
)

type violation struct {
	Prop   string      `json:"property"`
	Sig    string      `json:"sig"`
	Case   string      `json:"case"`
	Index  int64       `json:"index"`
	Detail string      `json:"detail"`
	Replay interface{} `json:"replay,omitempty"`
	Seed   int64       `json:"seed"`
	Tier   string      `json:"tier"`
	Pass   string      `json:"pass"`
	Shard  int         `json:"shard"`
	NShard int         `json:"nshard"`
}

type summary struct {
	Prop        string                 `json:"property"`
	Shard       int                    `json:"shard"`
	Done        bool                   `json:"done"`
	Evaluations int64                  `json:"evaluations"`
	Cases       int64                  `json:"cases"`
	Stats       map[string]int64       `json:"stats"`
	Sets        map[string][]string    `json:"sets"`
	Samples     []interface{}          `json:"samples"`
	Meta        map[string]interface{} `json:"meta"`
	Inconcl     []string               `json:"inconclusive"`
	NViol       int64                  `json:"violations"`
}

type finding struct {
	Prop string
	Sig  *regexp.Regexp
	Raw  string
	Desc string
	Hits int
}

var verifDir string

func main() {
	if len(os.Args) < 3 {
		fmt.Fprintln(os.Stderr, "usage: vcheck <Cnn> quick|thorough | vcheck replay <file>")
		os.Exit(2)
	}
	verifDir = os.Getenv("VERIF_DIR")
	if verifDir == "" {
		wd, _ := os.Getwd()
		verifDir = wd
	}
	if os.Args[1] == "replay" {
		os.Exit(replay(os.Args[2]))
	}
	id := strings.ToUpper(os.Args[1])
	tier := os.Args[2]
	if tier != "quick" && tier != "thorough" {
		tier = "quick"
	}
	cfg, ok := props[id]
	if !ok {
		fmt.Printf("INCONCLUSIVE property=%s reason=no-such-check\n", id)
		os.Exit(2)
	}
	seed := int64(1)
	if s := os.Getenv("VERIF_SEED"); s != "" {
		if v, err := strconv.ParseInt(s, 10, 64); err == nil {
			seed = v
		}
	}
	os.Exit(runCheck(id, cfg, tier, seed, ""))
}

func goEnv() []string {
	env := os.Environ()
	out := env[:0:0]
	for _, e := range env {
		if strings.HasPrefix(e, "GOFLAGS=") || strings.HasPrefix(e, "GOPROXY=") || strings.HasPrefix(e, "GOSUMDB=") || strings.HasPrefix(e, "GOTOOLCHAIN=") {
			continue
		}
		out = append(out, e)
	}
	return append(out, "GOFLAGS=-mod=mod", "GOPROXY=off", "GOSUMDB=off", "GOTOOLCHAIN=local")
}

// build compiles the harness test binary for one pass. Returns the binary path.
func build(id string, cfg propCfg, p pass) (string, error) {
	bdir := filepath.Join(verifDir, ".build")
	os.MkdirAll(bdir, 0o755)
	bin := filepath.Join(bdir, fmt.Sprintf("%s-%s.test", strings.ToLower(id), p.Name))
	gobin := cfg.Go
	if p.Go != "" {
		gobin = p.Go
	}
	if gobin == "" {
		gobin = "go"
	}
	args := []string{"test", "-c", "-vet=off", "-tags", "verif", "-o", bin}
	if p.Race {
		args = append(args, "-race")
	}
	if p.Asan {
		args = append(args, "-asan")
	}
	if repo := os.Getenv("VERIF_REPO"); repo != "" {
		// mutant runs: build against a scratch copy of the repository via a temporary modfile
		mf := filepath.Join(bdir, "go.scratch.mod")
		b, err := os.ReadFile(filepath.Join(verifDir, "go.mod"))
		if err != nil {
			return "", err
		}
		s := strings.Replace(string(b), "=> /repo", "=> "+repo, 1)
		os.WriteFile(mf, []byte(s), 0o644)
		sum, _ := os.ReadFile(filepath.Join(verifDir, "go.sum"))
		os.WriteFile(filepath.Join(bdir, "go.scratch.sum"), sum, 0o644)
		args = append(args, "-modfile="+mf)
	}
	args = append(args, "./"+cfg.Pkg)
	cmd := exec.Command(gobin, args...)
	cmd.Dir = verifDir
	cmd.Env = goEnv()
	out, err := cmd.CombinedOutput()
	if err != nil {
		return "", fmt.Errorf("build failed: %v\n%s", err, out)
	}
	return bin, nil
}

type shardResult struct {
	sum      *summary
	keys     map[uint64]struct{}
	viols    []violation
	inconcl  []string
	restarts int
	raceLogs []string
}

func readJournal(dir string) (done bool, idx, sub int64, id string) {
	b, err := os.ReadFile(filepath.Join(dir, "journal"))
	if err != nil || len(b) == 0 {
		return false, -1, -1, ""
	}
	line := strings.TrimSpace(string(b))
	if line == "DONE" {
		return true, -1, -1, ""
	}
	parts := strings.SplitN(line, " ", 3)
	if len(parts) < 2 {
		return false, -1, -1, ""
	}
	v, err := strconv.ParseInt(parts[0], 10, 64)
	if err != nil {
		return false, -1, -1, ""
	}
	sub, _ = strconv.ParseInt(parts[1], 10, 64)
	if len(parts) > 2 {
		id = strings.TrimSpace(parts[2])
	}
	return false, v, sub, id
}

var repoFrameRe = regexp.MustCompile(`(?m)^(github\.com/hprose/hprose-golang/v3/[^\s(]+(?:\([^)]*\))?[^\s(]*)`)

func firstRepoFrame(stack string) string {
	for _, line := range strings.Split(stack, "\n") {
		line = strings.TrimSpace(line)
		const pfx = "github.com/hprose/hprose-golang/v3/"
		if strings.HasPrefix(line, pfx) {
			fn := strings.TrimPrefix(line, pfx)
			if i := strings.LastIndex(fn, "("); i > 0 {
				tail := fn[i:]
				if strings.HasPrefix(tail, "(0x") || strings.HasPrefix(tail, "(...") || tail == "()" || strings.Contains(tail, "{") || strings.Contains(tail, ", ") {
					fn = fn[:i]
				}
			}
			return fn
		}
	}
	return "?"
}

var hexRe = regexp.MustCompile(`0x[0-9a-fA-F]+`)

func classify(msg string) string {
	msg = hexRe.ReplaceAllString(msg, "0x")
	var b strings.Builder
	lastHash := false
	for _, ch := range msg {
		if ch >= '0' && ch <= '9' {
			if !lastHash {
				b.WriteByte('#')
				lastHash = true
			}
			continue
		}
		lastHash = false
		if ch == ' ' {
			b.WriteByte('_')
			continue
		}
		b.WriteRune(ch)
	}
	s := b.String()
	if len(s) > 80 {
		s = s[:80]
	}
	return s
}

// crashSig extracts a crash-site signature from a child's stderr.
func crashSig(stderr string) (sig, excerpt string) {
	lines := strings.Split(stderr, "\n")
	msg := ""
	start := 0
	for i, l := range lines {
		if strings.HasPrefix(l, "fatal error:") || strings.HasPrefix(l, "panic:") || strings.HasPrefix(l, "unexpected fault address") || strings.Contains(l, "ERROR: AddressSanitizer") || strings.HasPrefix(l, "SIGSEGV") || strings.HasPrefix(l, "runtime: out of memory") || strings.HasPrefix(l, "VERIF-WATCHDOG") {
			msg = l
			start = i
			break
		}
	}
	if msg == "" {
		msg = "unknown-death"
	}
	rest := strings.Join(lines[start:], "\n")
	// prefer the goroutine that was running
	frame := firstRepoFrame(rest)
	end := start + 60
	if end > len(lines) {
		end = len(lines)
	}
	excerpt = strings.Join(lines[start:end], "\n")
	return "crash:" + classify(msg) + "@" + frame, excerpt
}

func runShard(id string, cfg propCfg, p pass, bin, tier string, seed int64, shard, nshard int, scratch string, only string) shardResult {
	var res shardResult
	res.keys = map[uint64]struct{}{}
	resume, resumeSub := int64(-1), int64(-1)
	merged := &summary{Stats: map[string]int64{}, Sets: map[string][]string{}, Meta: map[string]interface{}{}}
	res.sum = merged
	for attempt := 0; ; attempt++ {
		dir := filepath.Join(scratch, fmt.Sprintf("%s-s%d-a%d", p.Name, shard, attempt))
		os.MkdirAll(dir, 0o755)
		tmo := p.TimeoutS
		if tmo == 0 {
			tmo = 900
		}
		if tier == "thorough" {
			tmo *= 6
		}
		caseTmo := p.CaseTimeoutS
		if caseTmo == 0 {
			caseTmo = 120
		}
		args := []string{"-test.run", "^TestCheck$", "-test.timeout", "0", "-test.count", "1"}
		cmd := exec.Command(bin, args...)
		cmd.Dir = dir
		env := goEnv()
		env = append(env,
			"VERIF_OUT="+dir, "VERIF_SEED="+strconv.FormatInt(seed, 10), "VERIF_TIER="+tier,
			"VERIF_PASS="+p.Name, "VERIF_SHARD="+strconv.Itoa(shard), "VERIF_NSHARD="+strconv.Itoa(nshard),
			"VERIF_RESUME="+strconv.FormatInt(resume, 10), "VERIF_RESUME_SUB="+strconv.FormatInt(resumeSub, 10), "VERIF_CASE_TIMEOUT_S="+strconv.Itoa(caseTmo),
			"VERIF_ONLY="+only, "VERIF_DIR="+verifDir,
			"GOTRACEBACK=all", "TMPDIR="+dir)
		if p.Race {
			env = append(env, "GORACE=halt_on_error=0 log_path="+filepath.Join(dir, "race"))
		}
		if p.Asan {
			env = append(env, "ASAN_OPTIONS=detect_leaks=0:abort_on_error=0:halt_on_error=1")
		}
		for _, e := range p.Env {
			env = append(env, e)
		}
		if tz := p.TZ; len(tz) > 0 {
			env = append(env, "TZ="+tz[shard%len(tz)])
		}
		cmd.Env = env
		so, _ := os.Create(filepath.Join(dir, "stdout"))
		se, _ := os.Create(filepath.Join(dir, "stderr"))
		cmd.Stdout, cmd.Stderr = so, se
		cmd.SysProcAttr = &syscall.SysProcAttr{Setpgid: true}
		if p.UlimitVKB > 0 && !p.Race && !p.Asan {
			// address-space cap: run through sh -c ulimit
			cmd = exec.Command("sh", "-c", fmt.Sprintf("ulimit -v %d; exec \"$0\" \"$@\"", p.UlimitVKB), bin)
			cmd.Args = append(cmd.Args, args...)
			cmd.Dir = dir
			cmd.Env = env
			cmd.Stdout, cmd.Stderr = so, se
			cmd.SysProcAttr = &syscall.SysProcAttr{Setpgid: true}
		}
		err := cmd.Start()
		if err != nil {
			res.inconcl = append(res.inconcl, "cannot start child: "+err.Error())
			return res
		}
		waitc := make(chan error, 1)
		go func() { waitc <- cmd.Wait() }()
		timedOut := false
		select {
		case err = <-waitc:
		case <-time.After(time.Duration(tmo) * time.Second):
			timedOut = true
			syscall.Kill(-cmd.Process.Pid, syscall.SIGQUIT)
			select {
			case err = <-waitc:
			case <-time.After(10 * time.Second):
				syscall.Kill(-cmd.Process.Pid, syscall.SIGKILL)
				err = <-waitc
			}
		}
		so.Close()
		se.Close()
		// collect what the child wrote
		mergeChild(dir, merged, res.keys, &res.viols, shard, nshard)
		if p.Race {
			logs, _ := filepath.Glob(filepath.Join(dir, "race.*"))
			res.raceLogs = append(res.raceLogs, logs...)
		}
		done, idx, sub, cid := readJournal(dir)
		if sub >= 0 {
			cid = fmt.Sprintf("%s#%d", cid, sub)
		}
		if done {
			merged.Done = true
			return res
		}
		stderrB, _ := os.ReadFile(filepath.Join(dir, "stderr"))
		stderr := string(stderrB)
		if len(stderr) > 4<<20 {
			stderr = stderr[:4<<20]
		}
		if timedOut {
			res.inconcl = append(res.inconcl, fmt.Sprintf("child %s shard %d exceeded the %ds process watchdog at case %q", p.Name, shard, tmo, cid))
			return res
		}
		if idx < 0 {
			// died before the first case or test binary failed outright
			ex := stderr
			if len(ex) > 1500 {
				ex = ex[:1500]
			}
			outB, _ := os.ReadFile(filepath.Join(dir, "stdout"))
			o := string(outB)
			if len(o) > 1500 {
				o = o[len(o)-1500:]
			}
			res.inconcl = append(res.inconcl, fmt.Sprintf("child %s shard %d exited (%v) before any case: %s | %s", p.Name, shard, err, ex, o))
			return res
		}
		code := -1
		if ee, ok := err.(*exec.ExitError); ok {
			code = ee.ExitCode()
		}
		sig, excerpt := crashSig(stderr)
		if code == 3 && strings.Contains(stderr, "VERIF-WATCHDOG") {
			if p.HangSig != "" {
				res.viols = append(res.viols, violation{Prop: id, Sig: p.HangSig + "@" + firstRepoFrameOfRunning(stderr), Case: cid, Index: idx, Detail: "case exceeded the per-case watchdog (" + strconv.Itoa(caseTmo) + "s)\n" + trimTo(excerpt, 3000), Seed: seed, Tier: tier, Pass: p.Name, Shard: shard, NShard: nshard})
			} else {
				res.inconcl = append(res.inconcl, fmt.Sprintf("case %q exceeded the per-case watchdog in pass %s", cid, p.Name))
				return res
			}
		} else {
			if code == 0 || (err == nil) {
				// exited 0 without DONE: the harness returned early (t.Fatal / os.Exit)
				outB, _ := os.ReadFile(filepath.Join(dir, "stdout"))
				res.inconcl = append(res.inconcl, fmt.Sprintf("child %s shard %d ended without finishing at case %q: %s", p.Name, shard, cid, trimTo(string(outB), 1500)))
				return res
			}
			res.viols = append(res.viols, violation{Prop: id, Sig: sig, Case: cid, Index: idx, Detail: "child process died while running this case (exit " + strconv.Itoa(code) + ")\n" + trimTo(excerpt, 3000), Seed: seed, Tier: tier, Pass: p.Name, Shard: shard, NShard: nshard})
		}
		res.restarts++
		if only != "" {
			return res
		}
		if res.restarts > 40 {
			res.inconcl = append(res.inconcl, fmt.Sprintf("child %s shard %d died more than 40 times; remaining cases not explored", p.Name, shard))
			return res
		}
		resume, resumeSub = idx, sub
	}
}

func firstRepoFrameOfRunning(stderr string) string {
	// the watchdog dumps all goroutines; take the first repo frame of any goroutine that is not the watchdog itself
	return firstRepoFrame(stderr)
}

func trimTo(s string, n int) string {
	if len(s) > n {
		return s[:n] + "…"
	}
	return s
}

func mergeChild(dir string, m *summary, keys map[uint64]struct{}, viols *[]violation, shard, nshard int) {
	if b, err := os.ReadFile(filepath.Join(dir, "summary.json")); err == nil {
		var s summary
		if json.Unmarshal(b, &s) == nil {
			m.Evaluations += s.Evaluations
			m.Cases += s.Cases
			for k, v := range s.Stats {
				if strings.HasPrefix(k, "max_") {
					if v > m.Stats[k] {
						m.Stats[k] = v
					}
				} else {
					m.Stats[k] += v
				}
			}
			for k, l := range s.Sets {
				m.Sets[k] = unionSorted(m.Sets[k], l)
			}
			if len(m.Samples) < 6 {
				m.Samples = append(m.Samples, s.Samples...)
			}
			for k, v := range s.Meta {
				m.Meta[k] = v
			}
			m.Inconcl = append(m.Inconcl, s.Inconcl...)
		}
	}
	if f, err := os.Open(filepath.Join(dir, "keys.txt")); err == nil {
		sc := bufio.NewScanner(f)
		for sc.Scan() {
			if v, err := strconv.ParseUint(sc.Text(), 16, 64); err == nil {
				keys[v] = struct{}{}
			}
		}
		f.Close()
	}
	if f, err := os.Open(filepath.Join(dir, "violations.jsonl")); err == nil {
		sc := bufio.NewScanner(f)
		sc.Buffer(make([]byte, 1<<20), 64<<20)
		for sc.Scan() {
			var v violation
			if json.Unmarshal(sc.Bytes(), &v) == nil {
				v.Shard, v.NShard = shard, nshard
				*viols = append(*viols, v)
			}
		}
		f.Close()
	}
}

func unionSorted(a, b []string) []string {
	m := map[string]struct{}{}
	for _, x := range a {
		m[x] = struct{}{}
	}
	for _, x := range b {
		m[x] = struct{}{}
	}
	out := make([]string, 0, len(m))
	for x := range m {
		out = append(out, x)
	}
	sort.Strings(out)
	if len(out) > 5000 {
		out = out[:5000]
	}
	return out
}

// ---- race log parsing ----

type raceReport struct {
	Key    string // dedup key: sorted pair of top repo frames, line numbers stripped
	Files  []string
	Text   string
	Frames []string
}

var raceFileRe = regexp.MustCompile(`^\s+(/\S+\.go):(\d+)`)

func parseRaceLogs(paths []string, repoRoot string) []raceReport {
	var out []raceReport
	seen := map[string]bool{}
	for _, p := range paths {
		b, err := os.ReadFile(p)
		if err != nil {
			continue
		}
		blocks := strings.Split(string(b), "==================")
		for _, blk := range blocks {
			if !strings.Contains(blk, "WARNING: DATA RACE") {
				continue
			}
			// split into stacks: sections start with a non-indented line ending in ":" .
			var tops []string
			files := map[string]bool{}
			lines := strings.Split(blk, "\n")
			inAccess := false
			gotTop := false
			var lastFn string
			for _, l := range lines {
				if l == "" {
					inAccess = false
					continue
				}
				if !strings.HasPrefix(l, " ") {
					// header of a stack
					hl := strings.ToLower(l)
					inAccess = strings.Contains(hl, "read at") || strings.Contains(hl, "write at") || strings.Contains(hl, "previous read") || strings.Contains(hl, "previous write") || strings.Contains(hl, "previous atomic") || strings.Contains(hl, "atomic")
					gotTop = false
					continue
				}
				t := strings.TrimSpace(l)
				if m := raceFileRe.FindStringSubmatch(l); m != nil {
					if inAccess && !gotTop {
						// the innermost frame that is neither runtime/std nor a third-party
						// module decides whose access this is
						switch {
						case strings.HasPrefix(m[1], repoRoot+"/"):
							rel := strings.TrimPrefix(m[1], repoRoot+"/")
							files[rel] = true
							tops = append(tops, lastFn+" ("+rel+")")
							gotTop = true
						case strings.HasPrefix(m[1], verifDir+"/"):
							tops = append(tops, "HARNESS:"+lastFn)
							gotTop = true
						}
					}
				} else {
					lastFn = t
					if i := strings.Index(lastFn, "("); i > 0 && strings.HasSuffix(lastFn, ")") && !strings.Contains(lastFn[i:], "*") {
						lastFn = lastFn[:i]
					}
				}
			}
			sort.Strings(tops)
			key := strings.Join(tops, " <-> ")
			if key == "" {
				key = "no-repo-frame"
			}
			if seen[key] {
				continue
			}
			seen[key] = true
			var fl []string
			for f := range files {
				fl = append(fl, f)
			}
			sort.Strings(fl)
			out = append(out, raceReport{Key: key, Files: fl, Text: trimTo(blk, 6000), Frames: tops})
		}
	}
	return out
}

// ---- known findings ----

func loadFindings(id string) []*finding {
	var out []*finding
	b, err := os.ReadFile(filepath.Join(verifDir, "known_findings.txt"))
	if err != nil {
		return nil
	}
	for _, line := range strings.Split(string(b), "\n") {
		line = strings.TrimSpace(line)
		if !strings.HasPrefix(line, "open:") {
			continue
		}
		rest := strings.TrimSpace(strings.TrimPrefix(line, "open:"))
		parts := strings.SplitN(rest, " :: ", 2)
		desc := ""
		if len(parts) == 2 {
			desc = parts[1]
		}
		var prop, sig string
		for _, f := range strings.Fields(parts[0]) {
			if strings.HasPrefix(f, "property=") {
				prop = strings.TrimPrefix(f, "property=")
			} else if strings.HasPrefix(f, "sig=") {
				sig = strings.TrimPrefix(f, "sig=")
			}
		}
		if prop != id || sig == "" {
			continue
		}
		re, err := regexp.Compile("^(?:" + sig + ")$")
		if err != nil {
			fmt.Fprintf(os.Stderr, "known_findings.txt: bad pattern %q: %v\n", sig, err)
			continue
		}
		out = append(out, &finding{Prop: prop, Sig: re, Raw: sig, Desc: desc})
	}
	return out
}

// ---- main check run ----

func runCheck(id string, cfg propCfg, tier string, seed int64, only string) int {
	t0 := time.Now()
	evPath := filepath.Join(verifDir, "evidence", id+".json")
	os.MkdirAll(filepath.Dir(evPath), 0o755)
	if only == "" {
		os.Remove(evPath)
		os.RemoveAll(filepath.Join(verifDir, "replays", id))
	}
	scratch, err := os.MkdirTemp("", "vcheck-"+id+"-")
	if err != nil {
		fmt.Printf("INCONCLUSIVE property=%s reason=mktemp:%v\n", id, err)
		return 2
	}
	defer os.RemoveAll(scratch)
	repoRoot := "/repo"
	if r := os.Getenv("VERIF_REPO"); r != "" {
		repoRoot = r
	}

	var allViol []violation
	var inconcl []string
	total := &summary{Stats: map[string]int64{}, Sets: map[string][]string{}, Meta: map[string]interface{}{}}
	keys := map[uint64]struct{}{}
	var raceLogs []string
	passInfo := []map[string]interface{}{}
	restarts := 0

	sem := make(chan struct{}, 16)
	for _, p := range cfg.Passes {
		if p.Tier != "" && p.Tier != tier {
			continue
		}
		if only != "" && os.Getenv("VERIF_REPLAY_PASS") != "" && os.Getenv("VERIF_REPLAY_PASS") != p.Name {
			continue
		}
		pt0 := time.Now()
		bin, err := build(id, cfg, p)
		if err != nil {
			inconcl = append(inconcl, "pass "+p.Name+": "+trimTo(err.Error(), 3000))
			continue
		}
		buildS := time.Since(pt0).Seconds()
		n := p.Shards
		if tier == "thorough" && p.ShardsThorough > 0 {
			n = p.ShardsThorough
		}
		if n <= 0 {
			n = 1
		}
		if only != "" {
			n = 1
		}
		results := make([]shardResult, n)
		var wg sync.WaitGroup
		for s := 0; s < n; s++ {
			wg.Add(1)
			go func(s int) {
				defer wg.Done()
				sem <- struct{}{}
				defer func() { <-sem }()
				sh, nsh := s, n
				if only != "" {
					sh, nsh = 0, 1
				}
				results[s] = runShard(id, cfg, p, bin, tier, seed, sh, nsh, scratch, only)
			}(s)
		}
		wg.Wait()
		pe := int64(0)
		for _, r := range results {
			allViol = append(allViol, r.viols...)
			inconcl = append(inconcl, r.inconcl...)
			raceLogs = append(raceLogs, r.raceLogs...)
			restarts += r.restarts
			for k := range r.keys {
				keys[k] = struct{}{}
			}
			if r.sum != nil {
				pe += r.sum.Evaluations
				total.Evaluations += r.sum.Evaluations
				total.Cases += r.sum.Cases
				for k, v := range r.sum.Stats {
					if strings.HasPrefix(k, "max_") {
						if v > total.Stats[k] {
							total.Stats[k] = v
						}
					} else {
						total.Stats[k] += v
					}
				}
				for k, l := range r.sum.Sets {
					total.Sets[k] = unionSorted(total.Sets[k], l)
				}
				if len(total.Samples) < 8 {
					total.Samples = append(total.Samples, r.sum.Samples...)
				}
				for k, v := range r.sum.Meta {
					total.Meta[k] = v
				}
				inconcl = append(inconcl, r.sum.Inconcl...)
			}
		}
		passInfo = append(passInfo, map[string]interface{}{"pass": p.Name, "race": p.Race, "asan": p.Asan, "shards": n, "go": firstNonEmpty(p.Go, cfg.Go, "go"), "build_s": round1(buildS), "run_s": round1(time.Since(pt0).Seconds() - buildS), "evaluations": pe})
	}

	// race reports
	races := parseRaceLogs(raceLogs, repoRoot)
	raceDiag := []string{}
	for _, rr := range races {
		isViol := false
		for _, f := range rr.Files {
			for _, re := range cfg.RaceFiles {
				if regexp.MustCompile(re).MatchString(f) {
					isViol = true
				}
			}
		}
		if strings.Contains(rr.Key, "HARNESS:") {
			// a race between accesses made by the harness itself: a harness bug, never a verdict
			inconcl = append(inconcl, "data race inside the harness: "+rr.Key)
			continue
		}
		if isViol {
			allViol = append(allViol, violation{Prop: id, Sig: "race:" + rr.Key, Case: "race-detector", Detail: rr.Text, Seed: seed, Tier: tier})
		} else {
			raceDiag = append(raceDiag, rr.Key)
		}
	}

	// known findings
	findings := loadFindings(id)
	var unknown []violation
	for _, v := range allViol {
		matched := false
		for _, f := range findings {
			if f.Sig.MatchString(v.Sig) {
				f.Hits++
				matched = true
				break
			}
		}
		if !matched {
			unknown = append(unknown, v)
		}
	}

	// replays for unknown violations (one per signature, up to 25)
	bySig := map[string][]violation{}
	var sigOrder []string
	for _, v := range unknown {
		if _, ok := bySig[v.Sig]; !ok {
			sigOrder = append(sigOrder, v.Sig)
		}
		bySig[v.Sig] = append(bySig[v.Sig], v)
	}
	sort.Strings(sigOrder)
	rdir := filepath.Join(verifDir, "replays", id)
	var vioLines []string
	if len(sigOrder) > 0 && only == "" {
		// triage aid: the first violation of every signature, one JSON object per line
		os.MkdirAll(rdir, 0o755)
		if f, err := os.Create(filepath.Join(rdir, "_all.jsonl")); err == nil {
			for i, sig := range sigOrder {
				if i >= 3000 {
					break
				}
				b, _ := json.Marshal(map[string]interface{}{"sig": sig, "count": len(bySig[sig]), "first": bySig[sig][0]})
				f.Write(append(b, '\n'))
			}
			f.Close()
		}
	}
	for i, sig := range sigOrder {
		if i >= 25 {
			break
		}
		v := bySig[sig][0]
		hsh := sha1.Sum([]byte(sig + "|" + v.Case))
		os.MkdirAll(rdir, 0o755)
		rp := filepath.Join(rdir, hex.EncodeToString(hsh[:6])+".json")
		rec := map[string]interface{}{"property": id, "sig": sig, "count": len(bySig[sig]), "first": v, "seed": seed, "tier": tier, "pass": v.Pass, "case": v.Case}
		b, _ := json.MarshalIndent(rec, "", " ")
		os.WriteFile(rp, b, 0o644)
		vioLines = append(vioLines, fmt.Sprintf("VIOLATION property=%s replay=%s", id, rp))
		fmt.Fprintf(os.Stderr, "--- violation sig=%s case=%s (x%d)\n%s\n", sig, v.Case, len(bySig[sig]), trimTo(v.Detail, 1500))
	}

	// evidence
	level := cfg.Level
	cov := map[string]interface{}{
		"evaluations":                  total.Evaluations,
		"distinct_nontrivial":          len(keys),
		"rule":                         firstNonEmpty(metaStr(total.Meta, "rule"), cfg.Rule),
		"samples":                      total.Samples,
		"cases":                        total.Cases,
		"stats":                        total.Stats,
		"sets":                         setSummary(total.Sets),
		"passes":                       passInfo,
		"child_restarts":               restarts,
		"race_reports_total":           len(races),
		"race_reports_other":           raceDiag,
		"unknown_violation_signatures": sigOrder,
		"inconclusive":                 inconcl,
	}
	if ex, ok := total.Meta["exhaustive"].(bool); ok {
		cov["exhaustive"] = ex
	}
	if e := metaStr(total.Meta, "explanation"); e != "" {
		cov["explanation"] = e
	}
	kf := []map[string]interface{}{}
	for _, f := range findings {
		kf = append(kf, map[string]interface{}{"sig": f.Raw, "what": f.Desc, "observed": f.Hits})
	}
	cov["known_findings"] = kf
	if len(total.Samples) == 0 {
		cov["samples"] = []interface{}{"(no samples recorded)"}
	}
	assumptions := []string{}
	if a, ok := total.Meta["assumptions"].([]interface{}); ok {
		for _, x := range a {
			assumptions = append(assumptions, fmt.Sprint(x))
		}
	}
	ev := map[string]interface{}{
		"property_id": id, "tier": tier, "seed": seed, "level": level, "coverage": cov,
		"assumptions": assumptions, "wall_s": round1(time.Since(t0).Seconds()), "violations": len(unknown),
	}
	if only == "" {
		b, _ := json.MarshalIndent(ev, "", " ")
		os.WriteFile(evPath, b, 0o644)
	}

	// verdict
	for _, f := range findings {
		note := ""
		if f.Hits == 0 {
			note = " (not re-observed in this run)"
		}
		fmt.Printf("KNOWN-FINDING: property=%s %s%s\n", id, f.Desc, note)
	}
	if len(vioLines) > 0 {
		for _, l := range vioLines {
			fmt.Println(l)
		}
		fmt.Printf("RESULT property=%s verdict=violated signatures=%d violations=%d evaluations=%d wall=%.0fs\n", id, len(sigOrder), len(unknown), total.Evaluations, time.Since(t0).Seconds())
		return 1
	}
	if len(inconcl) > 0 {
		for _, r := range inconcl {
			fmt.Printf("INCONCLUSIVE property=%s reason=%s\n", id, strings.ReplaceAll(trimTo(r, 1200), "\n", " | "))
		}
		return 2
	}
	if total.Evaluations == 0 || len(keys) < 2 {
		fmt.Printf("INCONCLUSIVE property=%s reason=too-few-observations evaluations=%d distinct=%d\n", id, total.Evaluations, len(keys))
		return 2
	}
	fmt.Printf("RESULT property=%s verdict=held evaluations=%d distinct_nontrivial=%d known_findings=%d wall=%.0fs\n", id, total.Evaluations, len(keys), len(findings), time.Since(t0).Seconds())
	return 0
}

func setSummary(sets map[string][]string) map[string]interface{} {
	out := map[string]interface{}{}
	for k, l := range sets {
		e := map[string]interface{}{"count": len(l)}
		if len(l) <= 400 {
			e["elements"] = l
		} else {
			e["first_400"] = l[:400]
		}
		out[k] = e
	}
	return out
}

func metaStr(m map[string]interface{}, k string) string {
	if s, ok := m[k].(string); ok {
		return s
	}
	return ""
}

func firstNonEmpty(ss ...string) string {
	for _, s := range ss {
		if s != "" {
			return s
		}
	}
	return ""
}

func round1(f float64) float64 { return float64(int64(f*10+0.5)) / 10 }

func replay(path string) int {
	b, err := os.ReadFile(path)
	if err != nil {
		fmt.Fprintln(os.Stderr, err)
		return 2
	}
	var rec struct {
		Prop string `json:"property"`
		Seed int64  `json:"seed"`
		Tier string `json:"tier"`
		Pass string `json:"pass"`
		Case string `json:"case"`
	}
	if err := json.Unmarshal(b, &rec); err != nil {
		fmt.Fprintln(os.Stderr, err)
		return 2
	}
	cfg, ok := props[rec.Prop]
	if !ok || rec.Case == "" || rec.Case == "race-detector" {
		fmt.Fprintln(os.Stderr, "replay: record has no replayable case (race reports are re-observed by re-running the check)")
		return 2
	}
	if rec.Pass != "" {
		os.Setenv("VERIF_REPLAY_PASS", rec.Pass)
	}
	return runCheck(rec.Prop, cfg, rec.Tier, rec.Seed, rec.Case)
}
