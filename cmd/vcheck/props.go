package main

// pass is one build+run configuration of a check's harness.
type pass struct {
	Name           string
	Tier           string // "" = both tiers, else only in that tier
	Go             string // toolchain override
	Race           bool
	Asan           bool
	Shards         int
	ShardsThorough int
	TimeoutS       int      // process watchdog (quick; x6 in thorough)
	CaseTimeoutS   int      // per-case watchdog
	HangSig        string   // non-empty: a per-case watchdog expiry is a violation with this signature prefix
	UlimitVKB      int      // address space cap for non-sanitizer children
	Env            []string // extra environment
	TZ             []string // TZ per shard (round robin)
}

type propCfg struct {
	Pkg       string
	Go        string
	Level     string
	Rule      string
	Passes    []pass
	RaceFiles []string // regexps over repo-relative file names: a race report touching one is a violation
}

var ioRace = []string{`^io/`, `^internal/convert/`}

var codecRace = []string{`^io/`, `^internal/convert/`, `^rpc/core/.*codec`}

var transportRace = []string{`^rpc/socket/`, `^rpc/udp/`, `^rpc/websocket/`, `^rpc/http/`, `^rpc/mock/`, `^rpc/core/`}

var props = map[string]propCfg{
	"C10": {Pkg: "checks/c10", Level: "fault_enumeration", Passes: []pass{
		{Name: "plain", Shards: 16, TimeoutS: 1500, CaseTimeoutS: 180},
		{Name: "fasthttp-client", Shards: 8, TimeoutS: 900, CaseTimeoutS: 180, Env: []string{"VERIF_FASTHTTP=1"}},
		{Name: "race", Race: true, Shards: 16, TimeoutS: 1800, CaseTimeoutS: 300, Env: []string{"VERIF_LIGHT=1"}},
	}, RaceFiles: append([]string{`^rpc/plugins/reverse/`, `^rpc/plugins/timeout/`}, transportRace...)},
	"C11": {Pkg: "checks/c11", Level: "fault_enumeration", Passes: []pass{
		{Name: "plain", Shards: 16, TimeoutS: 900, CaseTimeoutS: 120, UlimitVKB: 8 << 20},
		{Name: "fasthttp-client", Shards: 8, TimeoutS: 900, CaseTimeoutS: 120, Env: []string{"VERIF_FASTHTTP=1"}},
		{Name: "race", Race: true, Shards: 16, TimeoutS: 1500, CaseTimeoutS: 300, Env: []string{"VERIF_LIGHT=1"}},
	}, RaceFiles: append([]string{`^rpc/plugins/reverse/`}, transportRace...)},
	"C08": {Pkg: "checks/c08", Level: "exploration", Passes: []pass{
		{Name: "plain", Shards: 16, TimeoutS: 900, CaseTimeoutS: 300},
		{Name: "fasthttp-client", Shards: 8, TimeoutS: 900, CaseTimeoutS: 300, Env: []string{"VERIF_FASTHTTP=1"}},
		{Name: "race", Race: true, Shards: 16, TimeoutS: 1500, CaseTimeoutS: 600, Env: []string{"VERIF_LIGHT=1"}},
	}, RaceFiles: append([]string{`^io/`}, transportRace...)},
	"C09": {Pkg: "checks/c09", Level: "exploration", Passes: []pass{
		{Name: "plain", Shards: 16, TimeoutS: 900, CaseTimeoutS: 300},
		{Name: "race", Race: true, Shards: 16, TimeoutS: 1500, CaseTimeoutS: 600, Env: []string{"VERIF_LIGHT=1"}},
	}, RaceFiles: append([]string{`^rpc/plugins/reverse/`}, transportRace...)},
	"C13": {Pkg: "checks/c13", Level: "exploration", Passes: []pass{
		{Name: "plain", Shards: 16, TimeoutS: 900, CaseTimeoutS: 240},
		{Name: "fasthttp-client", Shards: 8, TimeoutS: 900, CaseTimeoutS: 240, Env: []string{"VERIF_FASTHTTP=1"}},
	}, RaceFiles: transportRace},
	"C12": {Pkg: "checks/c12", Level: "exploration", Passes: []pass{
		{Name: "plain", Shards: 16, TimeoutS: 900, CaseTimeoutS: 240},
		{Name: "fasthttp-client", Shards: 8, TimeoutS: 900, CaseTimeoutS: 240, Env: []string{"VERIF_FASTHTTP=1"}},
		{Name: "race", Race: true, Shards: 16, TimeoutS: 1200, CaseTimeoutS: 600, Env: []string{"VERIF_LIGHT=1"}},
	}, RaceFiles: transportRace},
	"C07": {Pkg: "checks/c07", Level: "exploration", Passes: []pass{
		{Name: "plain", Shards: 16, TimeoutS: 900, TZ: []string{"UTC", "Asia/Shanghai"}},
		{Name: "race", Race: true, Shards: 16, TimeoutS: 1200, TZ: []string{"UTC"}},
	}, RaceFiles: codecRace},
	"C16": {Pkg: "checks/c16", Go: "go1.26", Level: "fault_enumeration", Passes: []pass{
		{Name: "race", Race: true, Shards: 16, TimeoutS: 900},
	}, RaceFiles: []string{`^rpc/plugins/cluster/`}},
	"C20": {Pkg: "checks/c20", Go: "go1.26", Level: "fault_enumeration", Passes: []pass{
		{Name: "race", Race: true, Shards: 16, TimeoutS: 900},
	}, RaceFiles: []string{`^rpc/plugins/circuitbreaker/`}},
	"C17": {Pkg: "checks/c17", Go: "go1.26", Level: "exploration", Passes: []pass{
		{Name: "race", Race: true, Shards: 16, TimeoutS: 900},
	}, RaceFiles: []string{`^rpc/plugins/limiter/`}},
	"C18": {Pkg: "checks/c18", Level: "exploration", Passes: []pass{
		{Name: "race", Race: true, Shards: 16, TimeoutS: 900},
	}, RaceFiles: []string{`^rpc/plugins/loadbalance/`}},
	"C15": {Pkg: "checks/c15", Level: "exploration", Passes: []pass{
		{Name: "race", Race: true, Shards: 16, TimeoutS: 900},
	}, RaceFiles: []string{`^rpc/core/plugin_manager`, `^rpc/core/invoke_manager`, `^rpc/core/io_manager`}},
	"C19": {Pkg: "checks/c19", Go: "go1.26", Level: "exploration", Passes: []pass{
		{Name: "race", Race: true, Shards: 16, TimeoutS: 900},
	}, RaceFiles: []string{`^rpc/plugins/push/`}},
	"C14": {Pkg: "checks/c14", Level: "exploration", Passes: []pass{
		{Name: "race", Race: true, Shards: 48, ShardsThorough: 256, TimeoutS: 900, TZ: []string{"UTC"}},
		{Name: "plain", Shards: 48, ShardsThorough: 256, TimeoutS: 600, TZ: []string{"UTC"}},
		{Name: "asan", Tier: "thorough", Asan: true, Shards: 48, TimeoutS: 1800, TZ: []string{"UTC"}},
	}, RaceFiles: codecRace},
	"C01": {Pkg: "checks/c01", Level: "exploration", Passes: []pass{
		{Name: "plain", Shards: 16, TimeoutS: 600, TZ: []string{"UTC", "Asia/Shanghai"}},
		{Name: "race", Race: true, Shards: 16, TimeoutS: 900, TZ: []string{"UTC"}, Env: []string{"VERIF_LIGHT=1"}},
		{Name: "asan", Tier: "thorough", Asan: true, Shards: 16, TimeoutS: 900, TZ: []string{"UTC"}, Env: []string{"VERIF_LIGHT=1"}},
	}, RaceFiles: ioRace},
	"C02": {Pkg: "checks/c02", Level: "exploration", Passes: []pass{
		{Name: "plain", Shards: 16, TimeoutS: 600, CaseTimeoutS: 60, HangSig: "encode-or-decode-does-not-terminate", TZ: []string{"UTC", "Asia/Shanghai"}},
		{Name: "race", Race: true, Shards: 16, TimeoutS: 900, CaseTimeoutS: 120, HangSig: "encode-or-decode-does-not-terminate", TZ: []string{"UTC"}},
	}, RaceFiles: ioRace},
	"C04": {Pkg: "checks/c04", Level: "exploration", Passes: []pass{
		{Name: "plain", Shards: 16, TimeoutS: 1200, CaseTimeoutS: 30, HangSig: "hang", UlimitVKB: 6 << 20, TZ: []string{"UTC"}},
		{Name: "race", Tier: "thorough", Race: true, Shards: 16, TimeoutS: 1800, CaseTimeoutS: 600, HangSig: "hang", TZ: []string{"UTC"}, Env: []string{"VERIF_LIGHT=1"}},
		{Name: "asan", Tier: "thorough", Asan: true, Shards: 16, TimeoutS: 2400, CaseTimeoutS: 600, HangSig: "hang", TZ: []string{"UTC"}, Env: []string{"VERIF_LIGHT=1"}},
	}, RaceFiles: ioRace},
	"C05": {Pkg: "checks/c05", Level: "exploration", Passes: []pass{
		{Name: "plain", Shards: 16, TimeoutS: 900, TZ: []string{"UTC"}},
		{Name: "asan", Tier: "thorough", Asan: true, Shards: 16, TimeoutS: 1800, TZ: []string{"UTC"}, Env: []string{"VERIF_LIGHT=1"}},
	}, RaceFiles: ioRace},
	"C06": {Pkg: "checks/c06", Level: "exploration", Passes: []pass{
		{Name: "plain", Shards: 16, TimeoutS: 900, TZ: []string{"UTC", "Asia/Shanghai"}},
		{Name: "race", Race: true, Shards: 16, TimeoutS: 1200, TZ: []string{"UTC"}},
		{Name: "asan", Tier: "thorough", Asan: true, Shards: 16, TimeoutS: 1800, TZ: []string{"UTC"}},
	}, RaceFiles: ioRace},
	"C03": {Pkg: "checks/c03", Level: "exploration", Passes: []pass{
		{Name: "plain", Shards: 16, TimeoutS: 600, TZ: []string{"UTC", "Asia/Shanghai"}},
	}, RaceFiles: ioRace},
}
